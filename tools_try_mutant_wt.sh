#!/bin/bash
# usage: tools_try_mutant_wt.sh <worktree> <patch.diff> <prop> [<prop>...]
# like tools_try_mutant.sh but in a scratch worktree of /repo (VERIF_REPO), so /repo itself is never touched.
# (coq/gen/*.v is regenerated from that worktree: do not run while another check is running if the patch touches a file
#  the translator reads)
wt="$1"; patch="$2"; shift; shift
cd "$wt" || exit 2
if ! git diff --quiet; then echo "worktree dirty"; exit 2; fi
if ! git apply "$patch" 2>/tmp/apply.err; then
  if ! git apply --3way "$patch" 2>>/tmp/apply.err; then echo "PATCH DOES NOT APPLY"; tail -5 /tmp/apply.err; git checkout -- . ; git reset -q; exit 3; fi
  git reset -q
fi
git diff --stat | tail -3
cd /verif
# would the translator's output change?  then the shared coq/gen would be rewritten: only do that when nothing else is running
rm -rf /tmp/verif-gen-probe; mkdir -p /tmp/verif-gen-probe
VERIF_GEN_OUT=/tmp/verif-gen-probe VERIF_REPO="$wt" /venv/bin/python /verif/harness/gen.py >/dev/null 2>&1
same=1; for f in /tmp/verif-gen-probe/*.v; do cmp -s "$f" /verif/coq/gen/$(basename "$f") || same=0; done
if [ $same = 0 ] && [ -z "$FORCE" ]; then
  echo "GEN OUTPUT DIFFERS with this patch: rerun with FORCE=1 when no other check is running"; git -C "$wt" checkout -- .; exit 4
fi
export VERIF_EVIDENCE_DIR=/tmp/verif-evidence-mutants VERIF_REPO="$wt"
for p in "$@"; do ./check "$p" 2>&1 | grep -E "^(VIOLATION|KNOWN|C[0-9]+ quick|BROKEN)" | cut -c1-300; done
git -C "$wt" checkout -- .
unset VERIF_REPO
/venv/bin/python /verif/harness/gen.py >/dev/null 2>&1
