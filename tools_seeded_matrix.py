#!/usr/bin/env python3
"""Applies every /verif/seeded/<id>/patch.diff to /repo in turn, runs the quick check of its property (plus any extra
properties given in meta 'also'), reverts, and writes /verif/seeded/RESULTS.md + RESULTS.json.  Never leaves /repo dirty."""
import glob
import json
import os
import re
import subprocess
os.environ['VERIF_EVIDENCE_DIR'] = '/tmp/verif-evidence-mutants'   # evidence/ holds records of the unchanged tree only
import sys

V = '/verif'
R = '/repo'


def sh(cmd, **kw):
    return subprocess.run(cmd, capture_output=True, text=True, **kw)


def main():
    only = sys.argv[1:]
    if sh(['git', 'diff', '--quiet'], cwd=R).returncode != 0:
        print('repo dirty')
        sys.exit(2)
    rows = []
    for d in sorted(glob.glob(V + '/seeded/C*-*')):
        name = os.path.basename(d)
        if only and name not in only and name.split('-')[0] not in only:
            continue
        prop = name.split('-')[0]
        patch = d + '/patch.diff'
        r = sh(['git', 'apply', patch], cwd=R)
        if r.returncode != 0:
            rows.append({'id': name, 'applies': False})
            sh(['git', 'checkout', '--', '.'], cwd=R)
            continue
        try:
            try:
                out = sh([V + '/check', prop], cwd=V, timeout=1800)
            except subprocess.TimeoutExpired:
                # a check that does not come back is broken, not a detection
                rows.append({'id': name, 'applies': True, 'exit': 'check timed out', 'violation': [], 'with_failing_input': False,
                             'summary': [], 'broken': ['the check itself did not terminate']})
                continue
            txt = out.stdout + out.stderr
            viol = [l for l in txt.splitlines() if l.startswith('VIOLATION')]
            summary = [l for l in txt.splitlines() if re.match(r'C\d+ quick', l)]
            broken = [l[:160] for l in txt.splitlines() if l.startswith('BROKEN')]
            rows.append({'id': name, 'applies': True, 'exit': out.returncode, 'violation': viol[:1],
                         'with_failing_input': bool(viol) and 'no-failing-input-found' not in viol[0],
                         'summary': summary[:1], 'broken': broken[:2]})
        finally:
            sh(['git', 'checkout', '--', '.'], cwd=R)
            sh(['/venv/bin/python', V + '/harness/gen.py'], cwd=V)
        print(rows[-1]['id'], rows[-1].get('exit'), rows[-1].get('with_failing_input'), flush=True)
    finish(rows, bool(only))


def finish(rows, merge):
    old = {}
    if merge and os.path.exists(V + '/seeded/RESULTS.json'):
        old = {r['id']: r for r in json.load(open(V + '/seeded/RESULTS.json'))}
    for r in rows:
        old[r['id']] = r
    allrows = [old[k] for k in sorted(old)] if merge else rows
    json.dump(allrows, open(V + '/seeded/RESULTS.json', 'w'), indent=1)
    with open(V + '/seeded/RESULTS.md', 'w') as f:
        f.write('# Seeded changes vs. checks (quick tier of the property the change was written against)\n\n')
        f.write('| change | detected | concrete failing input | what broke |\n|---|---|---|---|\n')
        for r in allrows:
            if not r.get('applies'):
                f.write('| %s | patch does not apply | | |\n' % r['id'])
                continue
            what = '; '.join(b.split(':', 2)[1] if ':' in b else b for b in r.get('broken', []))[:120]
            f.write('| %s | %s | %s | %s |\n' % (r['id'], 'yes' if r['exit'] == 1 else 'NO',
                                                 'yes' if r.get('with_failing_input') else ('no' if r['exit'] == 1 else ''),
                                                 what or ('oracle' if r['exit'] == 1 else '')))
    det = sum(1 for r in allrows if r.get('exit') == 1)
    print('detected %d / %d' % (det, len(allrows)))


if __name__ == '__main__':
    main()
