#!/usr/bin/env python3
"""Systematic single-point mutation of the anchored source files, to measure the checks rather than to feed them.

usage: tools_automutate.py --sample N [--workers K] [--seed S] [--out DIR]

For every anchored file (properties.jsonl) simple syntactic mutants are enumerated (a comparison flipped, a boolean operator
swapped, a condition negated, a constant nudged, a simple statement dropped, a `not` removed, an early `return` dropped).  A
random sample is applied one at a time in scratch worktrees of /repo (never in /repo itself); for each mutant the quick checks
of the properties anchored in that file are run (VERIF_REPO), and if none of them alarms the repository's own non-network
tests are run to see whether the existing suite would have caught it.  Result: DIR/results.jsonl and DIR/SUMMARY.md
(killed by a check / killed by the suite only / survived both).  Survivors are candidates for triage: equivalent mutants,
changes outside every property, or holes in the checks.

Mutants that change the translator's output (coq/gen) are skipped: they cannot be run beside each other."""
import argparse
import ast
import json
import os
import random
import re
import subprocess
import sys
from concurrent.futures import ThreadPoolExecutor

V = '/verif'
R = '/repo'


def anchored():
    files = {}
    for line in open(os.path.join(V, 'properties.jsonl')):
        d = json.loads(line)
        for f in d['anchors']['files']:
            files.setdefault(f, []).append(d['id'])
    return files


SKIP_LINE = re.compile(r'logger\(\)|log_frame|^\s*#|^\s*("""|\'\'\')|^\s*(from|import)\s|__slots__|^\s*@|^\s*(async\s+)?def\s|^\s*class\s|'
                       r'^\s*raise\s|^\s*pass\s*$|^\s*\.\.\.\s*$|typing|^\s*$')
CMP = [(' == ', ' != '), (' != ', ' == '), (' <= ', ' < '), (' >= ', ' > '), (' < ', ' <= '), (' > ', ' >= '),
       (' is not None', ' is None'), (' is None', ' is not None'), (' and ', ' or '), (' or ', ' and '),
       (' + 1', ' - 1'), (' - 1', ' + 1'), (' + 2', ' + 1'), ('True', 'False'), ('False', 'True'), (' not ', ' ')]


def mutants_of(path, src):
    """[(line_no, new_line, operator)] — one changed line each; every mutant must still parse"""
    lines = src.split('\n')
    out = []
    in_doc = False
    for i, line in enumerate(lines):
        if line.count('"""') % 2 == 1 or line.count("'''") % 2 == 1:
            in_doc = not in_doc
            continue
        if in_doc or SKIP_LINE.search(line):
            continue
        stripped = line.strip()
        indent = line[:len(line) - len(line.lstrip())]
        cands = []
        for a, b in CMP:
            k = line.find(a)
            if k >= 0:
                cands.append((line[:k] + b + line[k + len(a):], 'swap %r->%r' % (a.strip(), b.strip())))
        m = re.match(r'^(\s*)(if|elif|while)\s+(.*):\s*$', line)
        if m and ' not (' not in line:
            cands.append(('%s%s not (%s):' % (m.group(1), m.group(2), m.group(3)), 'negate condition'))
        if re.match(r'^[A-Za-z_][\w\.\[\]\'"]*\s*(=|\+=|-=)\s', stripped) or re.match(r'^(await\s+)?[A-Za-z_][\w\.]*\(.*\)\s*$', stripped):
            cands.append((indent + 'pass', 'drop statement'))
        if re.match(r'^return\s*$', stripped) or stripped in ('break', 'continue'):
            cands.append((indent + 'pass', 'drop %s' % stripped))
        for new, op in cands:
            if new == line:
                continue
            trial = lines[:i] + [new] + lines[i + 1:]
            try:
                ast.parse('\n'.join(trial))
            except SyntaxError:
                continue
            out.append((i + 1, new, op))
    return out


def sh(cmd, **kw):
    return subprocess.run(cmd, capture_output=True, text=True, **kw)


def gen_same(wt):
    probe = wt + '.gen'
    sh(['rm', '-rf', probe])
    os.makedirs(probe, exist_ok=True)
    env = dict(os.environ, VERIF_GEN_OUT=probe, VERIF_REPO=wt)
    sh(['/venv/bin/python', os.path.join(V, 'harness', 'gen.py')], env=env)
    same = True
    for f in os.listdir(probe):
        if f.endswith('.v'):
            a = open(os.path.join(probe, f)).read()
            try:
                b = open(os.path.join(V, 'coq', 'gen', f)).read()
            except OSError:
                b = None
            same = same and a == b
    sh(['rm', '-rf', probe])
    return same


def run_one(job):
    wid, idx, rel, props, line_no, new_line, op = job
    wt = '/tmp/scratch/automut-%d' % wid
    path = os.path.join(wt, rel)
    src = open(path).read()
    lines = src.split('\n')
    old_line = lines[line_no - 1]
    lines[line_no - 1] = new_line
    open(path, 'w').write('\n'.join(lines))
    res = {'idx': idx, 'file': rel, 'line': line_no, 'op': op, 'old': old_line.strip(), 'new': new_line.strip(), 'props': props}
    try:
        if not gen_same(wt):
            res['status'] = 'skipped-gen'
            return res
        env = dict(os.environ, VERIF_REPO=wt, VERIF_EVIDENCE_DIR='/tmp/verif-evidence-automut-%d' % wid, PYTHONHASHSEED='0')
        killed_by = []
        for p in props:
            try:
                r = sh([os.path.join(V, 'check'), p], env=env, cwd=V, timeout=600)
                alarm = r.returncode != 0 or 'VIOLATION' in r.stdout
            except subprocess.TimeoutExpired:
                alarm = True
            if alarm:
                killed_by.append(p)
                break
        res['killed_by'] = killed_by
        if killed_by:
            res['status'] = 'killed-by-check'
            return res
        env2 = dict(os.environ, PYTHONPATH=wt, PYTHONHASHSEED='0', PYTHONDONTWRITEBYTECODE='1')
        try:
            r = sh(['/venv/bin/python', '-m', 'pytest', 'tests', '-q', '-x', '-p', 'no:cacheprovider', '--timeout=120',
                    '-k', 'not quart and not aiohttp and not test_concurrent_streams and not cli_command and not websocket and not quic and not http3',
                    '-n', '2'], env=env2, cwd=wt, timeout=900)
            suite_fail = r.returncode != 0
            res['suite_tail'] = r.stdout.strip().split('\n')[-1][:200]
        except subprocess.TimeoutExpired:
            suite_fail = True
            res['suite_tail'] = 'timeout'
        res['status'] = 'killed-by-suite-only' if suite_fail else 'survived'
        return res
    finally:
        open(path, 'w').write(src)


def main():
    ap = argparse.ArgumentParser()
    ap.add_argument('--sample', type=int, default=100)
    ap.add_argument('--workers', type=int, default=5)
    ap.add_argument('--seed', type=int, default=1)
    ap.add_argument('--out', default='/tmp/automut')
    a = ap.parse_args()
    os.makedirs(a.out, exist_ok=True)
    files = anchored()
    allm = []
    for rel, props in sorted(files.items()):
        p = os.path.join(R, rel)
        if not os.path.exists(p):
            continue
        for (ln, new, op) in mutants_of(rel, open(p).read()):
            allm.append((rel, props, ln, new, op))
    rng = random.Random(a.seed)
    rng.shuffle(allm)
    sample = allm[:a.sample]
    print('enumerated %d mutants in %d files; sample of %d' % (len(allm), len(files), len(sample)), flush=True)
    sh(['git', '-C', R, 'worktree', 'prune'])
    for w in range(a.workers):
        wt = '/tmp/scratch/automut-%d' % w
        sh(['git', '-C', R, 'worktree', 'remove', '--force', wt])
        sh(['rm', '-rf', wt])
        r = sh(['git', '-C', R, 'worktree', 'add', '-q', '--detach', wt, 'HEAD'])
        if r.returncode:
            sys.exit(r.stderr)
    jobs = [[] for _ in range(a.workers)]
    for i, m in enumerate(sample):
        jobs[i % a.workers].append((i % a.workers, i) + m)
    out = open(os.path.join(a.out, 'results.jsonl'), 'a')

    def worker(js):
        rs = []
        for j in js:
            try:
                r = run_one(j)
            except Exception as e:       # noqa
                r = {'idx': j[1], 'file': j[2], 'line': j[4], 'op': j[6], 'status': 'tool-error', 'error': repr(e)[:200]}
            rs.append(r)
            out.write(json.dumps(r) + '\n')
            out.flush()
            print(r['idx'], r['status'], r['file'], r['line'], r.get('op'), r.get('killed_by'), flush=True)
        return rs
    with ThreadPoolExecutor(max_workers=a.workers) as ex:
        results = [r for rs in ex.map(worker, jobs) for r in rs]
    for w in range(a.workers):
        sh(['git', '-C', R, 'worktree', 'remove', '--force', '/tmp/scratch/automut-%d' % w])
    by = {}
    for r in results:
        by.setdefault(r['status'], []).append(r)
    with open(os.path.join(a.out, 'SUMMARY.md'), 'w') as f:
        f.write('# automatic single-point mutants (seed %d, sample %d of %d)\n\n' % (a.seed, len(sample), len(allm)))
        for k, v in sorted(by.items()):
            f.write('* %s: %d\n' % (k, len(v)))
        f.write('\n## survived the checks of their properties AND the non-network tests of the suite\n\n')
        for r in by.get('survived', []):
            f.write('* %s:%d  `%s`  ->  `%s`  (%s; checks run: %s)\n' % (r['file'], r['line'], r['old'], r['new'], r['op'], ' '.join(r['props'])))
        f.write('\n## alarmed no check, but the existing suite fails with them (outside what the checks are for)\n\n')
        for r in by.get('killed-by-suite-only', []):
            f.write('* %s:%d  `%s`  ->  `%s`  (%s)\n' % (r['file'], r['line'], r['old'], r['new'], r['op']))
    print(open(os.path.join(a.out, 'SUMMARY.md')).read()[:3000])


if __name__ == '__main__':
    main()
