#!/bin/bash
# usage: tools_confirm_mutant.sh <name> <patch> <demo.py>
# Confirms a seeded change in a scratch worktree of /repo HEAD: patch applies, demo fails with it and passes without,
# and the repository's suite (stable_pass tests) still passes with it.  Writes /tmp/confirm/<name>.json
name="$1"; patch="$2"; demo="$3"
wt=/tmp/scratch/$name
rm -rf "$wt"; git -C /repo worktree prune
git -C /repo worktree add -q --detach "$wt" HEAD || exit 2
cd "$wt"
res=/tmp/confirm/$name.json
PY="env PYTHONPATH=$wt PYTHONHASHSEED=0 PYTHONDONTWRITEBYTECODE=1 /venv/bin/python"
timeout 300 $PY "$demo" > /tmp/confirm/$name.demo_clean.log 2>&1; d0=$?
if ! git apply "$patch" 2>/tmp/confirm/$name.apply.err && ! { git apply --3way "$patch" 2>>/tmp/confirm/$name.apply.err && git reset -q; }; then
  echo "{\"name\":\"$name\",\"applies\":false}" > $res; cd /; git -C /repo worktree remove --force "$wt"; exit 3
fi
timeout 300 $PY "$demo" > /tmp/confirm/$name.demo_mut.log 2>&1; d1=$?
$PY -m pytest tests performance -n 6 -q -p no:cacheprovider --timeout=300 --continue-on-collection-errors --junitxml=/tmp/confirm/$name.junit.xml > /tmp/confirm/$name.pytest.log 2>&1
/verif/tools_suite_compare.py /tmp/confirm/$name.junit.xml > /tmp/confirm/$name.cmp.txt 2>&1
# re-run failing stable tests individually (flaky network tests)
still=0
grep '^FAIL ' /tmp/confirm/$name.cmp.txt | sed 's/^FAIL //' | while read t; do
  mod=$(echo "$t" | sed 's/::.*//' | tr . /).py; tn=$(echo "$t" | sed 's/^[^:]*:://')
  ok=0
  for k in 1 2 3; do
    if $PY -m pytest -q -p no:cacheprovider --timeout=300 "$mod::$tn" > /tmp/confirm/$name.rerun.log 2>&1; then ok=1; break; fi
  done
  [ $ok = 1 ] || echo "$t" >> /tmp/confirm/$name.stillfail.txt
done
sf=0; [ -f /tmp/confirm/$name.stillfail.txt ] && sf=$(wc -l < /tmp/confirm/$name.stillfail.txt)
summary=$(tail -1 /tmp/confirm/$name.pytest.log | tr -d '"')
echo "{\"name\":\"$name\",\"applies\":true,\"demo_clean_rc\":$d0,\"demo_mutant_rc\":$d1,\"suite\":\"$summary\",\"stable_still_failing\":$sf,\"compare\":\"$(head -1 /tmp/confirm/$name.cmp.txt)\"}" > $res
cd /; git -C /repo worktree remove --force "$wt"
