#!/bin/bash
# usage: tools_try_mutant.sh <patch.diff> <prop> [<prop>...]   -- applies the patch to /repo, runs the quick checks, reverts.
patch="$1"; shift
cd /repo || exit 2
if ! git diff --quiet; then echo "repo dirty"; exit 2; fi
if ! git apply "$patch" 2>/tmp/apply.err; then
  if ! git apply --3way "$patch" 2>>/tmp/apply.err; then echo "PATCH DOES NOT APPLY"; cat /tmp/apply.err | tail -5; git checkout -- . ; git reset -q; exit 3; fi
  git reset -q
fi
git diff --stat | tail -3
cd /verif
export VERIF_EVIDENCE_DIR=/tmp/verif-evidence-mutants   # evidence/ holds records of the unchanged tree only
for p in "$@"; do ./check "$p" 2>&1 | grep -E "^(VIOLATION|KNOWN|C[0-9]+ quick|BROKEN)" | cut -c1-300; done
git -C /repo checkout -- .
/venv/bin/python /verif/harness/gen.py >/dev/null 2>&1
git -C /repo status --short | grep -v results.csv
