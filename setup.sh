#!/bin/bash
# Build the whole Coq development from files on disk (offline).  Run once after a restore.
set -e
cd "$(dirname "$0")"
export PYTHONHASHSEED=0 PYTHONDONTWRITEBYTECODE=1
/venv/bin/python harness/gen.py || true     # a gen failure is reported by the checks themselves
cd coq
coq_makefile -f _CoqProject -o Makefile > /dev/null
timeout 3000 make -k -j16 2>&1 | grep -v '^COQ\|^make\|Closed under the global context' || true
echo "setup done"
