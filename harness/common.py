"""Shared machinery of the checks: build, proof obligations, in-Coq correspondence, evidence,
known findings, violation reports."""
import fcntl
import hashlib
import json
import os
import random
import re
import shutil
import subprocess
import sys
import tempfile
import time
from concurrent.futures import ThreadPoolExecutor

VERIF = os.path.dirname(os.path.dirname(os.path.abspath(__file__)))
COQ = os.path.join(VERIF, 'coq')
REPO = os.environ.get('VERIF_REPO', '/repo')
NPROC = int(os.environ.get('VERIF_JOBS', '16'))

# standard-library axioms a theorem may depend on (none is expected; listed if they show up)
ALLOWED_AXIOMS = {
    'functional_extensionality_dep', 'FunctionalExtensionality.functional_extensionality_dep',
    'Eqdep.Eq_rect_eq.eq_rect_eq', 'JMeq_eq', 'proof_irrelevance', 'classic',
    'ClassicalEpsilon.constructive_indefinite_description',
}

TRUSTED_BASE = [
    'Coq 8.16.1 kernel and its vm_compute machine (no native_compute)',
    'harness/gen.py: ast translator regenerating coq/gen/*.v from /repo on every run (fail-closed)',
    'correspondence harness: Python generators + printer writing inputs and implementation outputs into cases_*.v, '
    'evaluated inside Coq by vm_compute',
    'CPython struct/bytes/asyncio and third-party libraries are modelled, validated by the correspondence only',
]


class Lock:
    def __enter__(self):
        self.f = open(os.path.join(VERIF, '.build.lock'), 'w')
        fcntl.flock(self.f, fcntl.LOCK_EX)
        return self

    def __exit__(self, *a):
        fcntl.flock(self.f, fcntl.LOCK_UN)
        self.f.close()


def sh(cmd, cwd=None, timeout=1800, env=None):
    try:
        p = subprocess.run(cmd, cwd=cwd, stdout=subprocess.PIPE, stderr=subprocess.STDOUT, timeout=timeout,
                           text=True, env=env)
        return p.returncode, p.stdout
    except subprocess.TimeoutExpired as e:
        out = e.stdout if isinstance(e.stdout, str) else (e.stdout or b'').decode('utf8', 'replace')
        return 124, out + '\nTIMEOUT'


# problems of the harness's own instrumentation (a private field it reads is gone): the run is not evidence of anything
HARNESS_ERRORS = []


def harness_error(what):
    if what not in HARNESS_ERRORS and len(HARNESS_ERRORS) < 20:
        HARNESS_ERRORS.append(what)


def raised_in_harness(exc):
    """was the exception raised by a statement of the harness itself (not inside the library or the interpreter's
    libraries called by the library)?"""
    tb = exc.__traceback__
    last = None
    while tb is not None:
        last = tb
        tb = tb.tb_next
    if last is None:
        return False
    fn = os.path.abspath(last.tb_frame.f_code.co_filename)
    return fn.startswith(os.path.join(VERIF, 'harness') + os.sep)


def gen_files_needed(prop, model_targets):
    """the coq/gen/*.v files in the dependency closure of props/<prop>.v and of the check's model/corr targets
    (from coq_makefile's dependency file); None if that cannot be determined"""
    dep = os.path.join(COQ, '.Makefile.d')
    try:
        text = open(dep).read().replace('\\\n', ' ')
    except OSError:
        return None
    graph = {}
    for line in text.split('\n'):
        if ':' not in line:
            continue
        lhs, rhs = line.split(':', 1)
        srcs = [x for x in rhs.split() if x.endswith('.vo') or x.endswith('.v')]
        for t in lhs.split():
            if t.endswith('.vo'):
                graph.setdefault(t, set()).update(x for x in srcs if x.endswith('.vo'))
    todo = ['props/%s.vo' % prop] + list(model_targets)
    seen = set()
    while todo:
        t = todo.pop()
        if t in seen:
            continue
        seen.add(t)
        todo.extend(graph.get(t, ()))
    if 'props/%s.vo' % prop not in graph:
        return None
    return {os.path.basename(t)[:-1] for t in seen if t.startswith('gen/')}


def ensure_makefile():
    mk = os.path.join(COQ, 'Makefile')
    cp = os.path.join(COQ, '_CoqProject')
    if not os.path.exists(mk) or os.path.getmtime(mk) < os.path.getmtime(cp):
        sh(['coq_makefile', '-f', '_CoqProject', '-o', 'Makefile'], cwd=COQ)


def coq_make(targets, timeout=1500):
    """make -k the given .vo targets.  Returns (ok, failed_files, log)."""
    ensure_makefile()
    rc, out = sh(['make', '-k', '-j%d' % NPROC] + list(targets), cwd=COQ, timeout=timeout)
    failed = re.findall(r'File "\./([^"]+)", line \d+, characters [\d-]+:\nError', out)
    failed += re.findall(r'\*\*\* \[[^\]]*: ([^\]\s]+\.vo)\] Error', out)
    return rc == 0, sorted(set(failed)), out


def compile_props(prop):
    """Compile props/<prop>.v on its own (so Print Assumptions output is captured on every run)."""
    src = os.path.join(COQ, 'props', prop + '.v')
    text = open(src).read()
    names = re.findall(r'^\s*(?:Theorem|Lemma|Corollary)\s+([A-Za-z0-9_\']+)', text, re.M)
    rc, out = sh(['coqc', '-Q', '.', 'RSV', '-w', '-notation-overridden,-deprecated-hint-without-locality',
                  'props/%s.v' % prop], cwd=COQ, timeout=900)
    blocks = re.split(r'(?=Closed under the global context|Axioms:)', out)
    axioms = []
    discharged = 0
    for b in blocks:
        if b.startswith('Closed under the global context'):
            discharged += 1
        elif b.startswith('Axioms:'):
            discharged += 1
            for m in re.finditer(r'^([A-Za-z_][A-Za-z0-9_.\']*)\s*:', b[len('Axioms:'):], re.M):
                axioms.append(m.group(1))
    bad_axioms = sorted(a for a in set(axioms) if a not in ALLOWED_AXIOMS and a.split('.')[-1] not in ALLOWED_AXIOMS)
    err = None
    if rc != 0:
        m = re.search(r'File "[^"]+", line (\d+)[^\n]*\n(Error[^\n]*(?:\n[^\n]+){0,6})', out)
        err = (m.group(0) if m else out[-600:])
        discharged = min(discharged, len(names))
    return {'theorems': names, 'obligations': len(names), 'discharged': discharged if rc == 0 else discharged,
            'ok': rc == 0 and discharged == len(names) and not bad_axioms, 'axioms': sorted(set(axioms)),
            'bad_axioms': bad_axioms, 'error': err,
            'failed_theorem': (names[discharged] if rc != 0 and discharged < len(names) else None)}


_SHARD_RE = re.compile(r'=\s*\(\s*(\d+)%?n?a?t?\s*,\s*(\d+)%?n?a?t?\s*,\s*\[(.*?)\]\s*\)', re.S)


def run_coq_cases(shards, header, timeout=600, keep=False):
    """shards: list of strings, each the body of a cases file that defines `chk` and `cases`.
    Returns list of (n_cases, n_failing, [first failing indices]) per shard, or raises RuntimeError
    with the coqc output when a shard does not compile."""
    d = tempfile.mkdtemp(prefix='rsv_cases_')
    try:
        paths = []
        for i, body in enumerate(shards):
            p = os.path.join(d, 'cases_%d.v' % i)
            with open(p, 'w') as f:
                f.write(header + '\n' + body +
                        '\nEval vm_compute in (RSV.corr.Harness.report chk cases).\n')
            paths.append(p)

        def one(p):
            return sh(['coqc', '-Q', COQ, 'RSV', '-w', '-notation-overridden', p], cwd=d, timeout=timeout)

        with ThreadPoolExecutor(max_workers=NPROC) as ex:
            outs = list(ex.map(one, paths))
        res = []
        for i, (rc, out) in enumerate(outs):
            m = _SHARD_RE.search(out)
            if rc != 0 or not m:
                raise RuntimeError('shard %d failed to evaluate in Coq:\n%s' % (i, out[-1500:]))
            idx = [int(x.replace('%nat', '')) for x in re.findall(r'\d+(?:%nat)?', m.group(3))]
            res.append((int(m.group(1)), int(m.group(2)), idx))
        return res
    finally:
        if not keep:
            shutil.rmtree(d, ignore_errors=True)


def chunks(lst, n):
    for i in range(0, len(lst), n):
        yield lst[i:i + n]


# ---------------------------------------------------------------------------------------------
# Coq literal printers

def cbytes(b):
    if b is None:
        b = b''
    return '[' + ';'.join('x%02x' % c for c in bytes(b)) + ']'


def cbool(b):
    return 'true' if b else 'false'


def cN(n):
    assert n >= 0, n
    return '%d%%N' % n


def cZ(n):
    return '(%d)%%Z' % n


def clist(items):
    return '[' + '; '.join(items) + ']'


def copt(x, f):
    return 'None' if x is None else '(Some %s)' % f(x)


# ---------------------------------------------------------------------------------------------
# known findings

def load_known():
    known, fixed = {}, []
    path = os.path.join(VERIF, 'KNOWN_FINDINGS.txt')
    if os.path.exists(path):
        for line in open(path):
            line = line.strip()
            if line.startswith('known:'):
                m = re.match(r'known:\s+property=(C\d+)\s+id=(\S+)\s+(.*)', line)
                if m:
                    known.setdefault(m.group(1), {})[m.group(2)] = m.group(3)
            elif line.startswith('fixed:'):
                fixed.append(line)
    return known, fixed


# ---------------------------------------------------------------------------------------------

class CorrResult:
    def __init__(self):
        self.evaluations = 0          # cases compared model vs implementation
        self.nontrivial = set()       # digests of distinct non-trivial cases
        self.samples = []
        self.disagreements = []       # [{'what':..., 'input':..., 'impl':..., ...}]
        self.oracle_failures = []     # [{'what':..., 'input':...}] property predicate false on the implementation
        self.distribution = {}
        self.traces = 0
        self.exhaustive = False
        self.rule = ''
        self.notes = []
        self.extra = {}

    def count(self, key, n=1):
        self.distribution[key] = self.distribution.get(key, 0) + n

    def nontriv(self, obj):
        self.nontrivial.add(hashlib.sha1(repr(obj).encode()).hexdigest()[:16])


class Ctx:
    def __init__(self, prop, tier, seed):
        self.prop, self.tier, self.seed = prop, tier, seed
        self.rng = random.Random(seed)
        self.t0 = time.time()
        self.thorough = tier == 'thorough'

    def scale(self, quick, thorough):
        return thorough if self.thorough else quick


def write_replay(prop, obj):
    os.makedirs(os.path.join(VERIF, 'replays'), exist_ok=True)
    digest = hashlib.sha1(json.dumps(obj, sort_keys=True, default=repr).encode()).hexdigest()[:12]
    path = os.path.join(VERIF, 'replays', '%s-%s.json' % (prop, digest))
    obj = dict(obj)
    obj['property'] = prop
    obj['reproduce'] = 'cd /verif && ./check %s --replay %s' % (prop, path)
    with open(path, 'w') as f:
        json.dump(obj, f, indent=1, default=repr)
    return path


def write_evidence(ctx, proof, corr, violations, assumptions, extra_cov=None, level='proof'):
    evdir = os.environ.get('VERIF_EVIDENCE_DIR') or os.path.join(VERIF, 'evidence')   # the mutant tools point this elsewhere
    os.makedirs(evdir, exist_ok=True)
    cov = {
        'obligations': max(1, proof['obligations']),
        'discharged': proof['discharged'],
        'checker_cmd': 'cd /verif/coq && make props/%s.vo && coqc -Q . RSV props/%s.v  '
                       '(Print Assumptions under every theorem; thorough tier adds coqchk -o)' % (ctx.prop, ctx.prop),
        'trusted_base': TRUSTED_BASE + ['axioms reported by Print Assumptions: %s' %
                                        (', '.join(proof['axioms']) or 'none (Closed under the global context)')],
        'theorems': proof['theorems'],
        'evaluations': corr.evaluations,
        'distinct_nontrivial': len(corr.nontrivial),
        'rule': corr.rule,
        'samples': corr.samples[:6] or ['(no correspondence cases this run)'],
        'traces_validated_against_impl': corr.traces or corr.evaluations,
        'disagreements': len(corr.disagreements),
        'oracle_failures': len(corr.oracle_failures),
        'input_distribution': corr.distribution,
        'exhaustive': bool(corr.exhaustive),
        'notes': corr.notes,
    }
    cov.update(corr.extra)
    if extra_cov:
        cov.update(extra_cov)
    ev = {'property_id': ctx.prop, 'tier': ctx.tier, 'seed': ctx.seed, 'level': level, 'coverage': cov,
          'assumptions': assumptions, 'wall_s': round(time.time() - ctx.t0, 2), 'violations': violations}
    with open(os.path.join(evdir, ctx.prop + '.json'), 'w') as f:
        json.dump(ev, f, indent=1, default=repr)
    return ev


def impl_env():
    env = dict(os.environ)
    env['PYTHONPATH'] = REPO
    env['PYTHONHASHSEED'] = '0'
    env['PYTHONDONTWRITEBYTECODE'] = '1'
    return env


class debug_logging:
    """the library's frame logging switched on (level DEBUG on its logger, records into a null handler) for the duration of a
    block; the harness silences logging globally, which is lifted here and put back afterwards"""

    def __init__(self, on=True):
        self.on = on

    def __enter__(self):
        if not self.on:
            return self
        import logging
        lg = logging.getLogger('pyrsocket')
        self._old = (lg.level, lg.propagate, logging.root.manager.disable)
        logging.disable(logging.NOTSET)
        lg.setLevel(logging.DEBUG)
        lg.propagate = False
        if not any(isinstance(h, logging.NullHandler) for h in lg.handlers):
            lg.addHandler(logging.NullHandler())
        return self

    def __exit__(self, *a):
        if not self.on:
            return False
        import logging
        lg = logging.getLogger('pyrsocket')
        lg.setLevel(self._old[0])
        lg.propagate = self._old[1]
        logging.disable(self._old[2])
        return False


def run_isolated(module, func, timeout=90):
    """run harness.props.<module>.<func>() in a child process and return its (JSON) result; an oracle that drives the library
    on a real event loop can be kept busy or left waiting for ever by a broken library — the child is then killed and that is
    the failure"""
    code = ('import json, sys, logging\nsys.path[:0] = [%r, %r]\nlogging.disable(logging.CRITICAL)\n'
            'from harness.props import %s as m\nprint("RESULT " + json.dumps(m.%s(), default=repr))\n' % (VERIF, REPO, module, func))
    env = dict(os.environ, PYTHONPATH=REPO, PYTHONHASHSEED='0', PYTHONDONTWRITEBYTECODE='1')
    try:
        r = subprocess.run(['/venv/bin/python', '-c', code], capture_output=True, text=True, timeout=timeout, env=env, cwd=VERIF)
    except subprocess.TimeoutExpired:
        return [{'what': 'does-not-terminate: %s.%s did not come back within %d s (the library keeps the event loop busy or never '
                         'completes)' % (module, func, timeout), 'isolated': [module, func]}]
    for line in r.stdout.splitlines():
        if line.startswith('RESULT '):
            return json.loads(line[7:])
    return [{'what': '%s.%s crashed: %s' % (module, func, (r.stderr or r.stdout)[-400:]), 'isolated': [module, func]}]
