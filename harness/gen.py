"""Fail-closed ast translator: re-emits, from /repo's current source, every literal constant and
table the Coq models depend on (coq/gen/*.v).  Any shape it does not recognise raises GenError,
which the checks report as a broken tie (obligation `gen:<file>`)."""
import ast
import os
import sys

REPO = os.environ.get('VERIF_REPO', '/repo')
OUT = os.environ.get('VERIF_GEN_OUT') or (os.path.join(os.path.dirname(os.path.dirname(os.path.abspath(__file__))), 'coq', 'gen'))


class GenError(Exception):
    pass


def _parse(rel):
    path = os.path.join(REPO, rel)
    try:
        with open(path) as f:
            return ast.parse(f.read(), path)
    except (OSError, SyntaxError) as e:
        raise GenError(f'{rel}: cannot parse: {e}')


def _int_expr(node, env=None):
    """Evaluate literal integer arithmetic only."""
    env = env or {}
    if isinstance(node, ast.Constant) and isinstance(node.value, int) and not isinstance(node.value, bool):
        return node.value
    if isinstance(node, ast.Name) and node.id in env:
        return env[node.id]
    if isinstance(node, ast.Tuple) and len(node.elts) == 1:  # `X = 0x001,` in ErrorCode
        return _int_expr(node.elts[0], env)
    if isinstance(node, ast.BinOp):
        a, b = _int_expr(node.left, env), _int_expr(node.right, env)
        if isinstance(node.op, ast.Sub):
            return a - b
        if isinstance(node.op, ast.Add):
            return a + b
        if isinstance(node.op, ast.LShift):
            return a << b
        if isinstance(node.op, ast.BitOr):
            return a | b
        if isinstance(node.op, ast.Pow):
            return a ** b
    if isinstance(node, ast.Call) and isinstance(node.func, ast.Name) and node.func.id == 'pow' \
            and len(node.args) == 2:
        return _int_expr(node.args[0], env) ** _int_expr(node.args[1], env)
    raise GenError(f'not a literal integer expression: {ast.dump(node)[:120]}')


def module_ints(rel, names):
    tree = _parse(rel)
    found = {}
    for node in tree.body:
        if isinstance(node, ast.Assign) and len(node.targets) == 1 and isinstance(node.targets[0], ast.Name):
            n = node.targets[0].id
            if n in names:
                found[n] = _int_expr(node.value, found)
    missing = [n for n in names if n not in found]
    if missing:
        raise GenError(f'{rel}: constants not found as module-level literals: {missing}')
    return found


def class_node(tree, rel, cname):
    for node in tree.body:
        if isinstance(node, ast.ClassDef) and node.name == cname:
            return node
    raise GenError(f'{rel}: class {cname} not found')


def enum_ints(rel, cname):
    tree = _parse(rel)
    cls = class_node(tree, rel, cname)
    out = []
    for node in cls.body:
        if isinstance(node, ast.Assign) and len(node.targets) == 1 and isinstance(node.targets[0], ast.Name):
            out.append((node.targets[0].id, _int_expr(node.value)))
    if not out:
        raise GenError(f'{rel}: enum {cname} has no literal members')
    return out


def func_node(container, rel, fname):
    for node in container.body:
        if isinstance(node, (ast.FunctionDef, ast.AsyncFunctionDef)) and node.name == fname:
            return node
    raise GenError(f'{rel}: function {fname} not found')


def returned_int(rel, cname, fname):
    tree = _parse(rel)
    fn = func_node(class_node(tree, rel, cname), rel, fname)
    body = [n for n in fn.body if not (isinstance(n, ast.Expr) and isinstance(n.value, ast.Constant))]
    if len(body) == 1 and isinstance(body[0], ast.Return):
        return _int_expr(body[0].value)
    raise GenError(f'{rel}: {cname}.{fname} is not a single `return <int>`')


def dict_literal_names(rel, varname, scope=None):
    """dict literal NAME = {A.B: C, ...} -> list of (key-as-dotted-name, value-as-dotted-name)."""
    tree = _parse(rel)
    nodes = ast.walk(tree) if scope is None else ast.walk(scope(tree))
    for node in nodes:
        tgt = None
        if isinstance(node, ast.Assign) and len(node.targets) == 1:
            tgt, val = node.targets[0], node.value
        elif isinstance(node, ast.AnnAssign):
            tgt, val = node.target, node.value
        if tgt is not None and isinstance(tgt, ast.Name) and tgt.id == varname and isinstance(val, ast.Dict):
            return [(_dotted(k), _dotted_or_int(v)) for k, v in zip(val.keys, val.values)]
        if tgt is not None and isinstance(tgt, ast.Attribute) and tgt.attr == varname and isinstance(val, ast.Dict):
            return [(_dotted(k), _dotted_or_int(v)) for k, v in zip(val.keys, val.values)]
    raise GenError(f'{rel}: dict literal {varname} not found')


def _dotted(node):
    if isinstance(node, ast.Name):
        return node.id
    if isinstance(node, ast.Attribute):
        return _dotted(node.value) + '.' + node.attr
    raise GenError(f'not a dotted name: {ast.dump(node)[:100]}')


def _dotted_or_int(node):
    if isinstance(node, ast.Constant) and isinstance(node.value, int):
        return node.value
    return _dotted(node)


def tuple_of_names(rel, where):
    """`where(tree)` returns an ast.Tuple of Names."""
    tree = _parse(rel)
    t = where(tree)
    if not isinstance(t, ast.Tuple):
        raise GenError(f'{rel}: expected a tuple literal')
    return [_dotted(e) for e in t.elts]


def wellknown_enum(rel, cname, ctor):
    """class X(Enum): NAME = Ctor(b'...', <int>)  -> [(NAME, bytes, int)]"""
    tree = _parse(rel)
    cls = class_node(tree, rel, cname)
    out = []
    for node in cls.body:
        if isinstance(node, ast.Assign) and len(node.targets) == 1 and isinstance(node.targets[0], ast.Name):
            v = node.value
            if not (isinstance(v, ast.Call) and _dotted(v.func) == ctor and len(v.args) == 2):
                raise GenError(f'{rel}: {cname}.{node.targets[0].id} is not {ctor}(bytes, int)')
            name = v.args[0]
            if not (isinstance(name, ast.Constant) and isinstance(name.value, bytes)):
                raise GenError(f'{rel}: {cname}.{node.targets[0].id} name is not a bytes literal')
            i = v.args[1]
            if isinstance(i, ast.UnaryOp) and isinstance(i.op, ast.USub):
                ival = -_int_expr(i.operand)
            else:
                ival = _int_expr(i)
            out.append((node.targets[0].id, name.value, ival))
    if not out:
        raise GenError(f'{rel}: {cname}: no members')
    return out


def adapter_delegation(rel, cname):
    """For each `async def m(self, ...)` of the adapter class: which attribute chain is awaited/called
    to produce the result: returns [(method, target)] where target is e.g. 'self.delegate.m' or 'self.m'."""
    tree = _parse(rel)
    cls = class_node(tree, rel, cname)
    out = []
    for node in cls.body:
        if isinstance(node, ast.AsyncFunctionDef):
            calls = []
            for sub in ast.walk(node):
                if isinstance(sub, ast.Call) and isinstance(sub.func, ast.Attribute):
                    try:
                        d = _dotted(sub.func)
                    except GenError:
                        continue
                    if d.startswith('self.') and (d.split('.')[-1] == node.name):
                        calls.append(d)
            if len(calls) != 1:
                raise GenError(f'{rel}: {cname}.{node.name}: expected exactly one same-named call, got {calls}')
            out.append((node.name, calls[0]))
    if not out:
        raise GenError(f'{rel}: {cname}: no async methods')
    return out


# ---------------------------------------------------------------------------------------------

def coq_bytes(b):
    return '[' + ';'.join('x%02x' % c for c in b) + ']'


def emit_const():
    L = ['(* GENERATED from /repo by harness/gen.py on every run; do not edit. *)',
         'From Coq Require Import NArith ZArith List.', 'Import ListNotations.', 'Open Scope N_scope.', '']
    fr = module_ints('rsocket/frame.py', [
        'PROTOCOL_MAJOR_VERSION', 'PROTOCOL_MINOR_VERSION', 'MASK_31_BITS', 'CONNECTION_STREAM_ID',
        'MAX_REQUEST_N', '_FLAG_IGNORE_BIT', '_FLAG_METADATA_BIT', '_FLAG_FOLLOWS_BIT', '_FLAG_RESUME_BIT',
        '_FLAG_RESPOND_BIT', '_FLAG_LEASE_BIT', '_FLAG_COMPLETE_BIT', '_FLAG_NEXT_BIT',
        'MINIMUM_FRAGMENT_SIZE_BYTES', 'HEADER_LENGTH'])
    for k, v in fr.items():
        L.append(f'Definition {k.lstrip("_")} : N := {v}.')
    sc = module_ints('rsocket/stream_control.py', ['MAX_STREAM_ID'])
    L.append(f'Definition MAX_STREAM_ID : N := {sc["MAX_STREAM_ID"]}.')
    fh = module_ints('rsocket/frame_helpers.py', ['MASK_63_BITS'])
    L.append(f'Definition MASK_63_BITS : N := {fh["MASK_63_BITS"]}.')
    le = module_ints('rsocket/lease.py', ['MAX_31_BIT'])
    L.append(f'Definition MAX_31_BIT : N := {le["MAX_31_BIT"]}.')
    L.append(f'Definition CLIENT_FIRST_STREAM_ID : N := '
             f'{returned_int("rsocket/rsocket_client.py", "RSocketClient", "_get_first_stream_id")}.')
    L.append(f'Definition SERVER_FIRST_STREAM_ID : N := '
             f'{returned_int("rsocket/rsocket_server.py", "RSocketServer", "_get_first_stream_id")}.')
    L.append('')
    ft = enum_ints('rsocket/frame.py', 'FrameType')
    for k, v in ft:
        L.append(f'Definition FT_{k} : N := {v}.')
    L.append('Definition frame_type_ids : list N := [' + '; '.join(f'FT_{k}' for k, _ in ft) + '].')
    ec = enum_ints('rsocket/error_codes.py', 'ErrorCode')
    for k, v in ec:
        L.append(f'Definition EC_{k} : N := {v}.')
    L.append('Definition error_code_ids : list N := [' + '; '.join(f'EC_{k}' for k, _ in ec) + '].')
    L.append('')
    # frame-class tables (class names as FrameType ids through _frame_class_by_id)
    by_id = dict_literal_names('rsocket/frame.py', '_frame_class_by_id')
    cls_to_ft = {}
    for k, v in by_id:
        if not k.startswith('FrameType.'):
            raise GenError('frame.py: _frame_class_by_id key is not FrameType.X')
        cls_to_ft[v] = 'FT_' + k.split('.')[1]
    L.append('Definition frame_class_ids : list N := [' + '; '.join(cls_to_ft.values()) + '].')
    fhl = dict_literal_names('rsocket/frame.py', 'frame_header_length')
    L.append('Definition frame_header_length_table : list (N * N) := [' +
             '; '.join(f'({cls_to_ft[k]}, {v})' for k, v in fhl) + '].')

    def frag_tuple(tree):
        fn = func_node(tree, 'rsocket/frame.py', 'is_fragmentable_frame')
        for sub in ast.walk(fn):
            if isinstance(sub, ast.Call) and isinstance(sub.func, ast.Name) and sub.func.id == 'isinstance':
                return sub.args[1]
        raise GenError('frame.py: is_fragmentable_frame has no isinstance tuple')

    fragc = tuple_of_names('rsocket/frame.py', frag_tuple)
    L.append('Definition fragmentable_ids : list N := [' + '; '.join(cls_to_ft[c] for c in fragc) + '].')

    def init_tuple(tree):
        for node in tree.body:
            if isinstance(node, ast.Assign) and isinstance(node.targets[0], ast.Name) \
                    and node.targets[0].id == 'initiate_request_frame_types':
                return node.value
        raise GenError('frame.py: initiate_request_frame_types not found')

    initc = tuple_of_names('rsocket/frame.py', init_tuple)
    L.append('Definition initiate_request_ids : list N := [' + '; '.join(cls_to_ft[c] for c in initc) + '].')

    # receiver dispatch table: which frame classes have a per-type endpoint handler
    def recv_scope(tree):
        return func_node(class_node(tree, 'rsocket/rsocket_base.py', 'RSocketBase'),
                         'rsocket/rsocket_base.py', '_receiver_listen')

    disp = dict_literal_names('rsocket/rsocket_base.py', 'async_frame_handler_by_type', recv_scope)
    handler_tag = {
        'self.handle_request_response': 1, 'self.handle_request_stream': 2, 'self.handle_request_channel': 3,
        'self.handle_setup': 4, 'self.handle_fire_and_forget': 5, 'self.handle_metadata_push': 6,
        'self.handle_resume': 7, 'self.handle_lease': 8, 'self.handle_keep_alive': 9, 'self.handle_error': 10}
    rows = []
    for k, v in disp:
        if k not in cls_to_ft or v not in handler_tag:
            raise GenError(f'rsocket_base.py: unexpected dispatch row {k}: {v}')
        rows.append(f'({cls_to_ft[k]}, {handler_tag[v]})')
    L.append('(* frame type id -> handler tag (1 rr, 2 rs, 3 rc, 4 setup, 5 fnf, 6 mdpush, 7 resume, 8 lease, '
             '9 keepalive, 10 error) *)')
    L.append('Definition dispatch_table : list (N * N) := [' + '; '.join(rows) + '].')
    return '\n'.join(L) + '\n'


def emit_mime():
    L = ['(* GENERATED from /repo by harness/gen.py on every run; do not edit. *)',
         'From Coq Require Import NArith ZArith List Init.Byte.', 'Import ListNotations.', '']
    mt = wellknown_enum('rsocket/extensions/mimetypes.py', 'WellKnownMimeTypes', 'WellKnownMimeType')
    L.append('Definition mime_table : list (list byte * Z) := [')
    L.append(';\n'.join(f'  ({coq_bytes(n)}, ({i})%Z)' for _, n, i in mt))
    L.append('].')
    at = wellknown_enum('rsocket/extensions/authentication_types.py', 'WellKnownAuthenticationTypes',
                        'WellKnownAuthenticationType')
    L.append('Definition auth_table : list (list byte * Z) := [')
    L.append(';\n'.join(f'  ({coq_bytes(n)}, ({i})%Z)' for _, n, i in at))
    L.append('].')
    # typed composite entries
    enum_name = {m: n for m, n, _ in mt}
    d = dict_literal_names('rsocket/extensions/composite_metadata.py', 'metadata_item_factory_by_type')
    typed = []
    for k, v in d:
        parts = k.split('.')
        if len(parts) != 4 or parts[0] != 'WellKnownMimeTypes' or parts[2:] != ['value', 'name'] \
                or parts[1] not in enum_name:
            raise GenError(f'composite_metadata.py: unexpected factory key {k}')
        typed.append((enum_name[parts[1]], v))
    kind = {'RoutingMetadata': 1, 'StreamDataMimetype': 2, 'StreamDataMimetypes': 3, 'AuthenticationContent': 4}
    for _, v in typed:
        if v not in kind:
            raise GenError(f'composite_metadata.py: unknown item class {v}')
    L.append('(* typed composite entries: MIME name -> kind (1 routing, 2 data mimetype, 3 accept mimetypes, 4 auth) *)')
    L.append('Definition typed_entry_table : list (list byte * N) := [' +
             '; '.join(f'({coq_bytes(n)}, {kind[v]}%N)' for n, v in typed) + '].')
    enum_auth = {m: n for m, n, _ in at}
    d = dict_literal_names('rsocket/extensions/authentication_content.py', 'metadata_item_factory_by_type')
    akind = {'AuthenticationSimple': 1, 'AuthenticationBearer': 2}
    rows = []
    for k, v in d:
        parts = k.split('.')
        if len(parts) != 4 or parts[0] != 'WellKnownAuthenticationTypes' or parts[2:] != ['value', 'name'] \
                or parts[1] not in enum_auth or v not in akind:
            raise GenError(f'authentication_content.py: unexpected factory row {k}: {v}')
        rows.append(f'({coq_bytes(enum_auth[parts[1]])}, {akind[v]}%N)')
    L.append('(* authentication type name -> class (1 AuthenticationSimple, 2 AuthenticationBearer) *)')
    L.append('Definition auth_factory_table : list (list byte * N) := [' + '; '.join(rows) + '].')
    # the `type` property of each authentication class
    for cname, var in (('AuthenticationSimple', 'auth_simple_type'), ('AuthenticationBearer', 'auth_bearer_type')):
        tree = _parse('rsocket/extensions/authentication.py')
        fn = func_node(class_node(tree, 'rsocket/extensions/authentication.py', cname),
                       'rsocket/extensions/authentication.py', 'type')
        rets = [n for n in ast.walk(fn) if isinstance(n, ast.Return)]
        if len(rets) != 1:
            raise GenError(f'authentication.py: {cname}.type is not a single return')
        parts = _dotted(rets[0].value).split('.')
        if len(parts) != 4 or parts[0] != 'WellKnownAuthenticationTypes' or parts[2:] != ['value', 'name'] \
                or parts[1] not in enum_auth:
            raise GenError(f'authentication.py: {cname}.type returns an unexpected expression')
        L.append(f'Definition {var} : list byte := {coq_bytes(enum_auth[parts[1]])}.')
    # the encoding each typed composite entry class passes to its base constructor
    rows = []
    for rel, cname in (('rsocket/extensions/routing.py', 'RoutingMetadata'),
                       ('rsocket/extensions/stream_data_mimetype.py', 'StreamDataMimetype'),
                       ('rsocket/extensions/stream_data_mimetype.py', 'StreamDataMimetypes'),
                       ('rsocket/extensions/authentication_content.py', 'AuthenticationContent')):
        tree = _parse(rel)
        init = func_node(class_node(tree, rel, cname), rel, '__init__')
        found = None
        for n in ast.walk(init):
            if isinstance(n, ast.Call) and isinstance(n.func, ast.Attribute) and n.func.attr == '__init__' \
                    and isinstance(n.func.value, ast.Call) and isinstance(n.func.value.func, ast.Name) \
                    and n.func.value.func.id == 'super' and n.args:
                found = _dotted(n.args[0])
        if found is None:
            raise GenError(f'{rel}: {cname}.__init__ has no super().__init__(<encoding>, ...) call')
        parts = found.split('.')
        if len(parts) != 4 or parts[0] != 'WellKnownMimeTypes' or parts[2:] != ['value', 'name'] or parts[1] not in enum_name:
            raise GenError(f'{rel}: {cname} passes an unexpected encoding {found}')
        rows.append(f'({kind[cname]}%N, {coq_bytes(enum_name[parts[1]])})')
    L.append('(* kind -> the encoding the typed entry class gives itself *)')
    L.append('Definition ctor_encoding_table : list (N * list byte) := [' + '; '.join(rows) + '].')
    return '\n'.join(L) + '\n'


def emit_adapters():
    L = ['(* GENERATED from /repo by harness/gen.py on every run; do not edit. *)',
         'From Coq Require Import List String.', 'Import ListNotations.', 'Open Scope string_scope.', '']
    for var, rel, cname in [
        ('reactivex_adapter', 'rsocket/reactivex/reactivex_handler_adapter.py', 'ReactivexHandlerAdapter'),
        ('rx_adapter', 'rsocket/rx_support/rx_handler_adapter.py', 'RxHandlerAdapter')]:
        rows = adapter_delegation(rel, cname)
        L.append(f'Definition {var} : list (string * string) := [' +
                 '; '.join(f'("{m}", "{t}")' for m, t in rows) + '].')
    return '\n'.join(L) + '\n'


def emit_routing():
    L = ['(* GENERATED from /repo by harness/gen.py on every run; do not edit. *)',
         'From Coq Require Import NArith List Bool.', 'From RSV Require Import gen.GenConst.', 'Import ListNotations.',
         'Open Scope N_scope.', '']
    rel = 'rsocket/routing/request_router.py'
    tree = _parse(rel)
    cls = class_node(tree, rel, 'RequestRouter')
    slot = {'self._response_routes': 1, 'self._stream_routes': 2, 'self._channel_routes': 3, 'self._fnf_routes': 4,
            'self._metadata_push': 5}
    ufield = {'response': 1, 'stream': 2, 'channel': 3, 'fire_and_forget': 4, 'metadata_push': 5}
    deco = dict(ufield)
    init = func_node(cls, rel, '__init__')
    rows = dict_literal_names(rel, '_route_map_by_frame_type', lambda t: func_node(class_node(t, rel, 'RequestRouter'), rel, '__init__'))
    out = []
    for k, v in rows:
        if not k.startswith('FrameType.') or v not in slot:
            raise GenError(f'{rel}: unexpected _route_map_by_frame_type row {k}: {v}')
        out.append(f'(FT_{k.split(".")[1]}, {slot[v]})')
    L.append('(* slots: 1 response, 2 stream, 3 channel, 4 fire_and_forget, 5 metadata_push *)')
    L.append('Definition gen_route_map : list (N * N) := [' + '; '.join(out) + '].')
    # _get_unknown_route if/elif chain
    fn = func_node(cls, rel, '_get_unknown_route')
    body = [n for n in fn.body if not (isinstance(n, ast.Expr) and isinstance(n.value, ast.Constant))]
    chain = []
    node = body[0] if body else None
    while isinstance(node, ast.If):
        t = node.test
        if not (isinstance(t, ast.Compare) and len(t.ops) == 1 and isinstance(t.ops[0], ast.Eq)
                and _dotted(t.left) == 'frame_type' and _dotted(t.comparators[0]).startswith('FrameType.')):
            raise GenError(f'{rel}: _get_unknown_route test has an unexpected shape')
        if not (len(node.body) == 1 and isinstance(node.body[0], ast.Return)):
            raise GenError(f'{rel}: _get_unknown_route branch is not a single return')
        tgt = _dotted(node.body[0].value)
        if not tgt.startswith('self._unknown.') or tgt.split('.')[-1] not in ufield:
            raise GenError(f'{rel}: _get_unknown_route returns {tgt}')
        chain.append(f'(FT_{_dotted(t.comparators[0]).split(".")[1]}, {ufield[tgt.split(".")[-1]]})')
        node = node.orelse[0] if len(node.orelse) == 1 else None
        if node is None:
            break
    if len(body) != 1 or not chain:
        raise GenError(f'{rel}: _get_unknown_route is not a single if/elif chain')
    L.append('Definition gen_unknown_chain : list (N * N) := [' + '; '.join(chain) + '].')
    ds, du = [], []
    for d, code in deco.items():
        fn = func_node(cls, rel, d)
        rets = [n for n in ast.walk(fn) if isinstance(n, ast.Return)]
        if len(rets) != 1 or not (isinstance(rets[0].value, ast.Call) and _dotted(rets[0].value.func) == 'decorator_factory'
                                  and _dotted(rets[0].value.args[0]) in slot):
            raise GenError(f'{rel}: decorator {d} is not `return decorator_factory(self._x, route)`')
        ds.append(f'({code}, {slot[_dotted(rets[0].value.args[0])]})')
        fn = func_node(cls, rel, d + '_unknown')
        tg = [_dotted(n.targets[0]) for n in ast.walk(fn) if isinstance(n, ast.Assign) and len(n.targets) == 1
              and isinstance(n.targets[0], ast.Attribute)]
        tg = [x for x in tg if x.startswith('self._unknown.')]
        if len(tg) != 1 or tg[0].split('.')[-1] not in ufield:
            raise GenError(f'{rel}: {d}_unknown does not assign exactly one self._unknown.<field>')
        du.append(f'({code}, {ufield[tg[0].split(".")[-1]]})')
    L.append('Definition gen_deco_slot : list (N * N) := [' + '; '.join(ds) + '].')
    L.append('Definition gen_deco_unknown : list (N * N) := [' + '; '.join(du) + '].')
    # the wrap test in route()
    fn = func_node(cls, rel, 'route')
    wraps = []
    for n in ast.walk(fn):
        if isinstance(n, ast.Compare) and len(n.ops) == 1 and isinstance(n.ops[0], ast.Eq):
            try:
                if _dotted(n.left) == 'frame_type' and _dotted(n.comparators[0]).startswith('FrameType.'):
                    wraps.append(_dotted(n.comparators[0]).split('.')[1])
            except GenError:
                pass
    if len(wraps) != 1:
        raise GenError(f'{rel}: route() does not test frame_type against exactly one FrameType')
    L.append(f'Definition gen_wrap_frame_type : N := FT_{wraps[0]}.')
    # handler methods
    rel2 = 'rsocket/routing/routing_request_handler.py'
    cls2 = class_node(_parse(rel2), rel2, 'RoutingRequestHandler')
    meth = {'request_response': 1, 'request_stream': 2, 'request_channel': 3, 'request_fire_and_forget': 4, 'on_metadata_push': 5}
    rowsm = []
    for m, code in meth.items():
        fn = func_node(cls2, rel2, m)
        tries = [n for n in fn.body if isinstance(n, ast.Try)]
        if len(tries) != 1 or len(tries[0].handlers) != 1:
            raise GenError(f'{rel2}: {m} is not a single try/except')
        tr = tries[0]
        calls = [n for n in ast.walk(ast.Module(body=tr.body, type_ignores=[])) if isinstance(n, ast.Call)
                 and isinstance(n.func, ast.Attribute) and n.func.attr == '_parse_and_route']
        if len(calls) != 1 or not _dotted(calls[0].args[0]).startswith('FrameType.'):
            raise GenError(f'{rel2}: {m} does not call _parse_and_route(FrameType.X, ...) exactly once')
        ft = _dotted(calls[0].args[0]).split('.')[1]
        returns = any(isinstance(n, ast.Return) for n in tr.body)
        hret = [n for n in ast.walk(ast.Module(body=tr.handlers[0].body, type_ignores=[])) if isinstance(n, ast.Return)]
        if not hret:
            ek = 0
        else:
            v = hret[0].value
            if isinstance(v, ast.Tuple) and len(v.elts) == 2 and isinstance(v.elts[0], ast.Call) \
                    and _dotted(v.elts[0].func) == 'ErrorStream' and isinstance(v.elts[1], ast.Call) \
                    and _dotted(v.elts[1].func) == 'NullSubscriber':
                ek = 3
            elif isinstance(v, ast.Call) and _dotted(v.func) == 'create_error_future':
                ek = 1
            elif isinstance(v, ast.Call) and _dotted(v.func) == 'ErrorStream':
                ek = 2
            else:
                raise GenError(f'{rel2}: {m} except clause returns an unexpected expression')
        rowsm.append(f'({code}, FT_{ft}, {ek}, {"true" if returns else "false"})')
    L.append('(* method (1 request_response, 2 request_stream, 3 request_channel, 4 request_fire_and_forget, 5 on_metadata_push), '
             'frame type passed to _parse_and_route, error outcome (0 swallowed, 1 error future, 2 error stream, '
             '3 error stream + null subscriber), whether the result is returned *)')
    L.append('Definition gen_meth_table : list (N * N * N * bool) := [' + '; '.join(rowsm) + '].')
    return '\n'.join(L) + '\n'


EMITTERS = {'GenRouting.v': emit_routing, 'GenConst.v': emit_const, 'GenMime.v': emit_mime, 'GenAdapters.v': emit_adapters}


def run(only=None):
    """Rewrite coq/gen/*.v when their content changed.  Returns list of (file, error)."""
    os.makedirs(OUT, exist_ok=True)
    problems = []
    for fname, fn in EMITTERS.items():
        if only and fname not in only:
            continue
        path = os.path.join(OUT, fname)
        try:
            text = fn()
        except GenError as e:
            problems.append((fname, str(e)))
            # leave a file that cannot compile so nothing downstream silently uses stale constants
            text = f'(* generation failed: {e} *)\nDefinition generation_failed : True := 0.\n'
        old = None
        if os.path.exists(path):
            with open(path) as f:
                old = f.read()
        if old != text:
            with open(path, 'w') as f:
                f.write(text)
    return problems


if __name__ == '__main__':
    p = run()
    for f, e in p:
        print(f'GEN-ERROR {f}: {e}')
    sys.exit(1 if p else 0)
