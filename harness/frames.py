"""Frame values shared by the C02/C03/C04/... correspondences: a plain-dict representation of the 14
frame types, conversion to/from the library's frame objects, Coq printers, generators, and a
batch runner that can execute under either header/bit-packing back end (native struct or
cbitstruct; native is reached in a subprocess that blocks the import of cbitstruct)."""
import os
import pickle
import subprocess
import sys

from harness.common import cN, cbool, cbytes, REPO, VERIF

ERROR_CODES = None


def pat(seed, off, n):
    return bytes(((seed * 7 + i * 13 + i // 251) & 0xFF) for i in range(off, off + n))


# ---------------------------------------------------------------------------------------------
# bytes -> Coq expression, rewriting long known payload slices as pattern terms

class Env:
    """Known long byte strings of a case, each with a Coq expression."""

    def __init__(self):
        self.items = []   # (expr, bytes)

    def add_pat(self, seed, n):
        b = pat(seed, 0, n)
        if n >= 48:
            self.items.append((('pat', seed), b))
        return b


def pbytes(b, env=None):
    """Coq expression for bytes b.  Long runs that occur inside a known pattern string are
    written as (pat seed off len); the rewriting is verified by expanding it back."""
    if b is None:
        b = b''
    b = bytes(b)
    if env is None or len(b) < 48 or not env.items:
        return cbytes(b)
    parts = []   # ('lit', bytes) | ('pat', seed, off, len)
    i = 0
    lit_start = 0
    n = len(b)
    while i < n:
        hit = None
        if n - i >= 24:
            probe = b[i:i + 24]
            for (kind, seed), s in env.items:
                j = s.find(probe)
                if j >= 0:
                    k = 24
                    mx = min(n - i, len(s) - j)
                    while k < mx and b[i + k] == s[j + k]:
                        k += 1
                    # compare in bulk for speed
                    if hit is None or k > hit[2]:
                        hit = (seed, j, k)
        if hit:
            if lit_start < i:
                parts.append(('lit', b[lit_start:i]))
            parts.append(('pat',) + hit)
            i += hit[2]
            lit_start = i
        else:
            i += 1
    if lit_start < n:
        parts.append(('lit', b[lit_start:n]))
    # verify
    back = b''.join(p[1] if p[0] == 'lit' else pat(p[1], p[2], p[3]) for p in parts)
    assert back == b, 'pattern rewriting is wrong'
    exprs = [cbytes(p[1]) if p[0] == 'lit' else '(pat %s %s %d)' % (cN(p[1]), cN(p[2]), p[3]) for p in parts]
    if not exprs:
        return '[]'
    return '(' + ' ++ '.join(exprs) + ')' if len(exprs) > 1 else exprs[0]


# ---------------------------------------------------------------------------------------------
# dict <-> library objects

def build(fr):
    """dict -> library frame object."""
    from rsocket import frame as F
    t = fr['t']
    if t == 'Setup':
        o = F.SetupFrame()
        o.flags_lease = fr['lease']
        o.major_version, o.minor_version = fr['major'], fr['minor']
        o.keep_alive_milliseconds, o.max_lifetime_milliseconds = fr['ka'], fr['ml']
        if fr['resume'] is not None:
            o.flags_resume = True
            o.token_length, o.resume_identification_token = fr['resume']
        o.metadata_encoding, o.data_encoding = fr['mdenc'], fr['denc']
        o.metadata, o.data = fr['md'], fr['d']
    elif t == 'Lease':
        o = F.LeaseFrame()
        o.time_to_live, o.number_of_requests = fr['ttl'], fr['n']
        o.metadata = fr['md']
    elif t == 'Keepalive':
        o = F.KeepAliveFrame()
        o.flags_respond = fr['respond']
        o.last_received_position = fr['pos']
        o.data = fr['d']
    elif t in ('RequestResponse', 'RequestFnf'):
        o = F.RequestResponseFrame() if t == 'RequestResponse' else F.RequestFireAndForgetFrame()
        o.flags_follows = fr['follows']
        o.metadata, o.data = fr['md'], fr['d']
    elif t == 'RequestStream':
        o = F.RequestStreamFrame()
        o.flags_follows = fr['follows']
        o.initial_request_n = fr['n']
        o.metadata, o.data = fr['md'], fr['d']
    elif t == 'RequestChannel':
        o = F.RequestChannelFrame()
        o.flags_follows, o.flags_complete = fr['follows'], fr['complete']
        o.initial_request_n = fr['n']
        o.metadata, o.data = fr['md'], fr['d']
    elif t == 'RequestN':
        o = F.RequestNFrame()
        o.request_n = fr['n']
    elif t == 'Cancel':
        o = F.CancelFrame()
    elif t == 'Payload':
        o = F.PayloadFrame()
        o.flags_follows, o.flags_complete, o.flags_next = fr['follows'], fr['complete'], fr['next']
        o.metadata, o.data = fr['md'], fr['d']
    elif t == 'Error':
        from rsocket.error_codes import ErrorCode
        o = F.ErrorFrame()
        o.error_code = ErrorCode(fr['code'])
        o.data = fr['d']
    elif t == 'MetadataPush':
        o = F.MetadataPushFrame()
        o.metadata = fr['md']
    elif t == 'Resume':
        o = F.ResumeFrame()
        o.major_version, o.minor_version = fr['major'], fr['minor']
        o.resume_identification_token = fr['token']
        o.token_length = len(fr['token'])
        o.last_server_position, o.first_client_position = fr['ls'], fr['fc']
    elif t == 'ResumeOk':
        o = F.ResumeOKFrame()
        o.last_received_client_position = fr['pos']
    else:
        raise ValueError(t)
    o.stream_id = fr['sid']
    o.flags_ignore = fr['ign']
    return o


def _b(x):
    return bytes(x) if x is not None else b''


def describe(o):
    """library frame object (as parsed) -> dict."""
    from rsocket import frame as F
    d = {'sid': o.stream_id, 'ign': bool(o.flags_ignore)}
    if isinstance(o, F.SetupFrame):
        d.update(t='Setup', lease=bool(o.flags_lease), major=o.major_version, minor=o.minor_version,
                 ka=o.keep_alive_milliseconds, ml=o.max_lifetime_milliseconds,
                 resume=((o.token_length, _b(o.resume_identification_token)) if o.flags_resume else None),
                 mdenc=_b(o.metadata_encoding), denc=_b(o.data_encoding), md=_b(o.metadata), d=_b(o.data))
    elif isinstance(o, F.LeaseFrame):
        d.update(t='Lease', ttl=o.time_to_live, n=o.number_of_requests, md=_b(o.metadata))
    elif isinstance(o, F.KeepAliveFrame):
        d.update(t='Keepalive', respond=bool(o.flags_respond), pos=o.last_received_position, d=_b(o.data))
    elif isinstance(o, F.RequestResponseFrame):
        d.update(t='RequestResponse', follows=bool(o.flags_follows), md=_b(o.metadata), d=_b(o.data))
    elif isinstance(o, F.RequestFireAndForgetFrame):
        d.update(t='RequestFnf', follows=bool(o.flags_follows), md=_b(o.metadata), d=_b(o.data))
    elif isinstance(o, F.RequestStreamFrame):
        d.update(t='RequestStream', follows=bool(o.flags_follows), n=o.initial_request_n, md=_b(o.metadata),
                 d=_b(o.data))
    elif isinstance(o, F.RequestChannelFrame):
        d.update(t='RequestChannel', follows=bool(o.flags_follows), complete=bool(o.flags_complete),
                 n=o.initial_request_n, md=_b(o.metadata), d=_b(o.data))
    elif isinstance(o, F.RequestNFrame):
        d.update(t='RequestN', n=o.request_n)
    elif isinstance(o, F.CancelFrame):
        d.update(t='Cancel')
    elif isinstance(o, F.PayloadFrame):
        d.update(t='Payload', follows=bool(o.flags_follows), complete=bool(o.flags_complete),
                 next=bool(o.flags_next), md=_b(o.metadata), d=_b(o.data))
    elif isinstance(o, F.ErrorFrame):
        d.update(t='Error', code=int(o.error_code), d=_b(o.data))
    elif isinstance(o, F.MetadataPushFrame):
        d.update(t='MetadataPush', md=_b(o.metadata))
    elif isinstance(o, F.ResumeFrame):
        d.update(t='Resume', major=o.major_version, minor=o.minor_version, token=_b(o.resume_identification_token),
                 ls=o.last_server_position, fc=o.first_client_position)
    elif isinstance(o, F.ResumeOKFrame):
        d.update(t='ResumeOk', pos=o.last_received_client_position)
    else:
        raise ValueError(type(o))
    return d


def coq_frame(fr, env=None):
    def B(x):
        return pbytes(x, env)
    t = fr['t']
    h = '%s %s' % (cN(fr['sid']), cbool(fr['ign']))
    if t == 'Setup':
        res = 'None' if fr['resume'] is None else '(Some (%s, %s))' % (cN(fr['resume'][0]), B(fr['resume'][1]))
        return '(FSetup %s %s %s %s %s %s %s %s %s %s %s)' % (
            h, cbool(fr['lease']), cN(fr['major']), cN(fr['minor']), cN(fr['ka']), cN(fr['ml']), res,
            B(fr['mdenc']), B(fr['denc']), B(fr['md']), B(fr['d']))
    if t == 'Lease':
        return '(FLease %s %s %s %s)' % (h, cN(fr['ttl']), cN(fr['n']), B(fr['md']))
    if t == 'Keepalive':
        return '(FKeepalive %s %s %s %s)' % (h, cbool(fr['respond']), cN(fr['pos']), B(fr['d']))
    if t == 'RequestResponse':
        return '(FRequestResponse %s %s %s %s)' % (h, cbool(fr['follows']), B(fr['md']), B(fr['d']))
    if t == 'RequestFnf':
        return '(FRequestFnf %s %s %s %s)' % (h, cbool(fr['follows']), B(fr['md']), B(fr['d']))
    if t == 'RequestStream':
        return '(FRequestStream %s %s %s %s %s)' % (h, cbool(fr['follows']), cN(fr['n']), B(fr['md']), B(fr['d']))
    if t == 'RequestChannel':
        return '(FRequestChannel %s %s %s %s %s %s)' % (h, cbool(fr['follows']), cbool(fr['complete']), cN(fr['n']),
                                                       B(fr['md']), B(fr['d']))
    if t == 'RequestN':
        return '(FRequestN %s %s)' % (h, cN(fr['n']))
    if t == 'Cancel':
        return '(FCancel %s)' % h
    if t == 'Payload':
        return '(FPayload %s %s %s %s %s %s)' % (h, cbool(fr['follows']), cbool(fr['complete']), cbool(fr['next']),
                                                B(fr['md']), B(fr['d']))
    if t == 'Error':
        return '(FError %s %s %s)' % (h, cN(fr['code']), B(fr['d']))
    if t == 'MetadataPush':
        return '(FMetadataPush %s %s)' % (h, B(fr['md']))
    if t == 'Resume':
        return '(FResume %s %s %s %s %s %s)' % (h, cN(fr['major']), cN(fr['minor']), B(fr['token']), cN(fr['ls']),
                                               cN(fr['fc']))
    if t == 'ResumeOk':
        return '(FResumeOk %s %s)' % (h, cN(fr['pos']))
    raise ValueError(t)


def coq_dres(r, env=None):
    if r[0] == 'ok':
        return '(DOk %s)' % coq_frame(r[1], env)
    return {'ignored': 'DIgnored', 'invalid': 'DInvalid'}[r[0]]


# ---------------------------------------------------------------------------------------------
# batch execution on the implementation (either back end)

def _parse(buf):
    from rsocket.frame import parse_or_ignore
    try:
        o = parse_or_ignore(buf)
    except Exception as e:   # FrameParser turns every exception into InvalidFrame
        return ('invalid', type(e).__name__)
    if o is None:
        return ('ignored',)
    try:
        d = describe(o)
        for k, v in d.items():
            if v is None and k != 'resume':
                raise AttributeError('field %s was never decoded' % k)
        return ('ok', d)
    except AttributeError as e:   # the parser handed out a frame object whose fields were never set
        return ('broken', type(o).__name__, str(e))


class _Writer:
    def __init__(self):
        self.chunks = []

    def write(self, b):
        self.chunks.append(bytes(b))

    async def drain(self):
        pass


def _tcp_bytes(o):
    """Bytes the real TransportTCP.send_frame hands to its writer."""
    import asyncio
    from rsocket.transports.tcp import TransportTCP
    w = _Writer()
    t = TransportTCP(None, w)
    loop = asyncio.new_event_loop()
    try:
        loop.run_until_complete(t.send_frame(o))
    finally:
        loop.close()
    return b''.join(w.chunks)


class _CongestedWriter:
    """a socket that cannot take the data at once: asyncio's selector transport then queues a memoryview of the CALLER's
    object (no copy) and sends it later — whatever the caller does to that object in the meantime goes out on the wire"""

    def __init__(self):
        self.queue = []

    def write(self, b):
        self.queue.append(memoryview(b) if isinstance(b, (bytearray, memoryview)) else b)

    async def drain(self):
        pass

    def flushed(self):
        return b''.join(bytes(x) for x in self.queue)


def tcp_congested(frames):
    """several frames through ONE TransportTCP whose writer is congested; returns (bytes that finally go out, concatenation of
    the one-shot encodings)"""
    import asyncio
    from rsocket.transports.tcp import TransportTCP
    from rsocket.frame import serialize_with_frame_size_header
    w = _CongestedWriter()
    t = TransportTCP(None, w)
    objs = [build(f) for f in frames]
    want = b''.join(serialize_with_frame_size_header(build(f)) for f in frames)
    loop = asyncio.new_event_loop()
    try:
        for o in objs:
            loop.run_until_complete(t.send_frame(o))
    finally:
        loop.close()
    return w.flushed(), want


def run_batch(jobs):
    """jobs: list of ('enc', frame-dict) | ('dec', bytes).  Returns outputs in order."""
    from rsocket.frame import serialize_with_frame_size_header
    out = []
    for job in jobs:
        if job[0] == 'enc':
            try:
                o = build(job[1])
                ser = o.serialize()
                o2 = build(job[1])
                pre = serialize_with_frame_size_header(o2)
                o3 = build(job[1])
                tcp = _tcp_bytes(o3)
                parsed = _parse(ser)
                reser = None
                if parsed[0] == 'ok':
                    try:
                        reser = build(parsed[1]).serialize()
                    except Exception as e:
                        reser = ('raised', type(e).__name__)
                out.append(('bytes', ser, pre, tcp, parsed, reser))
            except Exception as e:
                out.append(('raised', type(e).__name__, str(e)[:100]))
        elif job[0] == 'dec':
            out.append(_parse(job[1]))
    return out


def backend_name():
    from rsocket.frame import ParseHelper
    return ParseHelper.parse_header.__name__


def run_batch_backend(jobs, native):
    """Run in a subprocess so that the native back end (cbitstruct import blocked) can be exercised."""
    env = dict(os.environ)
    env['PYTHONPATH'] = VERIF + os.pathsep + REPO
    env['PYTHONHASHSEED'] = '0'
    env['PYTHONDONTWRITEBYTECODE'] = '1'
    p = subprocess.run([sys.executable, '-m', 'harness.frames', 'native' if native else 'cbit'],
                       input=pickle.dumps(jobs), stdout=subprocess.PIPE, env=env, cwd=VERIF, timeout=1200)
    if p.returncode != 0:
        raise RuntimeError('frame worker failed (%s)' % ('native' if native else 'cbit'))
    name, out = pickle.loads(p.stdout)
    want = 'parse_header_native' if native else 'parse_header_cbitstruct'
    if name != want:
        raise RuntimeError('frame worker ran with back end %s, wanted %s' % (name, want))
    return out


# ---------------------------------------------------------------------------------------------
# generators

BOUND = {
    31: [0, 1, 2, 3, 0x7F, 0x80, 0xFF, 0x100, 0xFFFF, 0x10000, 0x7FFFFFFE, 0x7FFFFFFF],
    32: [0, 1, 2, 0xFF, 0x100, 0xFFFF, 0x10000, 0x7FFFFFFF, 0x80000000, 0xFFFFFFFE, 0xFFFFFFFF],
    16: [0, 1, 2, 0xFF, 0x100, 0x7FFF, 0x8000, 0xFFFE, 0xFFFF],
    63: [0, 1, 0xFF, 0x100, 0xFFFFFFFF, 0x100000000, (1 << 62), (1 << 63) - 2, (1 << 63) - 1],
}
TYPES = ['Setup', 'Lease', 'Keepalive', 'RequestResponse', 'RequestFnf', 'RequestStream', 'RequestChannel',
         'RequestN', 'Cancel', 'Payload', 'Error', 'MetadataPush', 'Resume', 'ResumeOk']


def rint(rng, bits):
    if rng.random() < 0.5:
        return rng.choice(BOUND[bits])
    return rng.getrandbits(bits)


def rbytes(rng, env, sizes=None, big=True):
    """payload bytes: mostly short literals, sometimes boundary sizes written as patterns."""
    x = rng.random()
    if x < 0.25:
        n = 0
    elif x < 0.75:
        n = rng.randint(1, 40)
    elif x < 0.9 or not big:
        n = rng.choice([63, 64, 65, 127, 128, 129, 255, 256, 257])
    else:
        n = rng.choice([1000, 2000, 4096, 1000, 2000, 4096, 65535, 65536, 70000])
    if n >= 48 and env is not None:
        return env.add_pat(rng.randrange(1, 250), n)
    return bytes(rng.getrandbits(8) for _ in range(n))


def error_codes():
    global ERROR_CODES
    if ERROR_CODES is None:
        from rsocket.error_codes import ErrorCode
        ERROR_CODES = [int(c) for c in ErrorCode]
    return ERROR_CODES


def gen_frame(rng, env, t=None, big=True):
    t = t or rng.choice(TYPES)
    fr = {'t': t, 'sid': rint(rng, 31), 'ign': rng.random() < 0.2}
    B = lambda: rbytes(rng, env, big=big)  # noqa: E731
    if t == 'Setup':
        tok = bytes(rng.getrandbits(8) for _ in range(rng.choice([0, 1, 16, 255, 300])))
        fr.update(lease=rng.random() < 0.5, major=rint(rng, 16), minor=rint(rng, 16), ka=rint(rng, 32),
                  ml=rint(rng, 32), resume=((len(tok), tok) if rng.random() < 0.4 else None),
                  mdenc=bytes(rng.randrange(32, 127) for _ in range(rng.choice([0, 1, 16, 24, 126, 127]))),
                  denc=bytes(rng.randrange(32, 127) for _ in range(rng.choice([0, 1, 10, 16, 127]))),
                  md=B(), d=B())
    elif t == 'Lease':
        fr.update(ttl=rint(rng, 31), n=rint(rng, 31), md=B())
    elif t == 'Keepalive':
        fr.update(respond=rng.random() < 0.5, pos=rint(rng, 63), d=B())
    elif t in ('RequestResponse', 'RequestFnf'):
        fr.update(follows=rng.random() < 0.3, md=B(), d=B())
    elif t == 'RequestStream':
        fr.update(follows=rng.random() < 0.3, n=rint(rng, 32), md=B(), d=B())
    elif t == 'RequestChannel':
        fr.update(follows=rng.random() < 0.3, complete=rng.random() < 0.5, n=rint(rng, 32), md=B(), d=B())
    elif t == 'RequestN':
        fr.update(n=rint(rng, 32))
    elif t == 'Payload':
        fr.update(follows=rng.random() < 0.3, complete=rng.random() < 0.5, next=rng.random() < 0.5, md=B(), d=B())
    elif t == 'Error':
        fr.update(code=rng.choice(error_codes()), d=B())
    elif t == 'MetadataPush':
        fr.update(sid=0, md=B())
    elif t == 'Resume':
        fr.update(major=rint(rng, 16), minor=rint(rng, 16),
                  token=bytes(rng.getrandbits(8) for _ in range(rng.choice([0, 1, 16, 255, 400]))),
                  ls=rint(rng, 63), fc=rint(rng, 63))
    elif t == 'ResumeOk':
        fr.update(pos=rint(rng, 63))
    return fr


def norm(fr):
    fr = dict(fr)
    if fr['t'] == 'Payload' and (fr['md'] or fr['d']):
        fr['next'] = True
    return fr


if __name__ == '__main__':
    import logging
    logging.disable(logging.CRITICAL)
    native = sys.argv[1] == 'native'
    if native:
        sys.modules['cbitstruct'] = None   # import raises ImportError -> native helpers are selected
    jobs = pickle.loads(sys.stdin.buffer.read())
    res = run_batch(jobs)
    sys.stdout.buffer.write(pickle.dumps((backend_name(), res)))
