"""Shared machinery of the endpoint-level checks (C07..C12 and the duplicate-id clause of C13).

* scenarios (ep_scenarios.Scenario) are made from a small descriptor (seed + parameters) so that every case replays;
* trace correspondence: the recorded atomic sections of the REAL endpoint are replayed through model/Endpoint.v inside
  Coq (corr/EndpointCorr.v), each property comparing the projection of the trace it speaks about;
* executable oracles: the property predicates themselves, evaluated on the recorded behaviour of the real endpoint
  (used to turn a broken proof / correspondence into a concrete failing history, and run on every case anyway).
"""
import random
import re
import subprocess
import tempfile
import os
import shutil

from harness import common, endpoint as EP
from harness.ep_scenarios import Scenario

MODEL_TARGETS = ['model/Endpoint.vo', 'corr/EndpointCorr.vo', 'corr/Harness.vo']
SHARD = 60


def header(keep, keys):
    return ('From Coq Require Import NArith List Bool Init.Byte.\nFrom RSV Require Import lib.Bytes model.Frame model.Endpoint '
            'corr.EndpointCorr corr.Harness.\nImport ListNotations.\nOpen Scope N_scope.\n'
            'Definition chk := chk_ep_p %s %s.\n' % (keep, 'true' if keys else 'false'))


def mk_descs(rng, n, **kw):
    """n scenario descriptors; every random choice of a scenario derives from its own seed"""
    out = []
    for _ in range(n):
        d = {'seed': rng.randrange(1 << 30), 'role': rng.choice(kw.get('roles', ['server', 'client'])),
             'lenreq': rng.random() < 0.5, 'hostile': kw.get('hostile', 0.0), 'with_close': kw.get('with_close', False),
             'steps': rng.randint(*kw.get('steps', (3, 14))), 'frag': kw.get('frag', 0.0),
             'close_mode': kw.get('close_mode'), 'garbage': kw.get('garbage', 0.0), 'race': kw.get('race', 0.0),
             'on_close_raises': kw.get('on_close_raises', False), 'app_raises_at_close': kw.get('app_raises_at_close', False),
             'out_frag': kw.get('out_frag', False), 'close_during_on_close': kw.get('close_during_on_close', 0)}
        if callable(d['close_during_on_close']):
            d['close_during_on_close'] = d['close_during_on_close'](rng)
        if callable(d['out_frag']):
            d['out_frag'] = d['out_frag'](rng)
        if callable(d['app_raises_at_close']):
            d['app_raises_at_close'] = d['app_raises_at_close'](rng)
        if callable(d['on_close_raises']):
            d['on_close_raises'] = d['on_close_raises'](rng)
        if callable(d['close_mode']):
            d['close_mode'] = d['close_mode'](rng)
        if callable(d['with_close']):
            d['with_close'] = d['with_close'](rng)
        # a slice of every family of endpoint histories runs with the library's frame logging enabled (a configuration
        # nothing else varies); drawn from its own generator so that the other choices of a seed stay what they were
        d['debug_log'] = random.Random(d['seed'] ^ 0x5EED).random() < kw.get('debug_log', 0.12)
        out.append(d)
    return out


def run_desc(d, post=None):
    sc = Scenario(random.Random(d['seed']), role=d['role'], lenreq=d['lenreq'], hostile=d['hostile'],
                  with_close=d['with_close'], steps=d['steps'], frag=d.get('frag', 0.0), close_mode=d.get('close_mode'),
                  garbage=d.get('garbage', 0.0), race=d.get('race', 0.0), on_close_raises=d.get('on_close_raises', False),
                  app_raises_at_close=d.get('app_raises_at_close', False), out_frag=d.get('out_frag', False),
                  close_during_on_close=d.get('close_during_on_close', 0))
    sc.post = post
    sc.desc = d
    if d.get('debug_log'):
        # the library logs every frame at DEBUG: run with that level switched on (records go to a null handler)
        import logging
        lg = logging.getLogger('pyrsocket')
        old = (lg.level, lg.propagate, logging.root.manager.disable)
        logging.disable(logging.NOTSET)          # the harness silences logging globally; the library must see DEBUG enabled
        lg.setLevel(logging.DEBUG)
        lg.propagate = False
        if not any(isinstance(h, logging.NullHandler) for h in lg.handlers):
            lg.addHandler(logging.NullHandler())
        orig_fin = sc.rec.finish

        def fin_log():
            try:
                orig_fin()
            finally:
                lg.setLevel(old[0])
                lg.propagate = old[1]
                logging.disable(old[2])
        sc.rec.finish = fin_log
    if post is None:
        return sc.run()
    # run with a post-phase executed before the loop is torn down
    orig_finish = sc.rec.finish

    def finish():
        try:
            sc.post_result = post(sc)
        finally:
            orig_finish()
    sc.rec.finish = finish
    return sc.run()


# ---------------------------------------------------------------------------------------------
# trace correspondence

def trace_corr(corr, runs, keep, keys, what):
    """runs: scenarios already executed.  Compares each recorded trace with the model's replay (projection keep/keys)."""
    cases = [EP.coq_case(sc.first, sc.rec.log) for sc in runs]
    shards = []
    for i in range(0, len(cases), SHARD):
        shards.append('Definition cases : list case_ep := [\n' + ';\n'.join(cases[i:i + SHARD]) + '\n].')
    hdr = header(keep, keys)
    res = common.run_coq_cases(shards, hdr, timeout=900)
    base = 0
    for (n, nfail, idx) in res:
        corr.evaluations += n
        for j in idx:
            sc = runs[base + j]
            k = first_bad(cases[base + j], keep, keys)
            steps = EP.steps_of_log(sc.rec.log)
            ctxt = [repr(s[:3])[:300] for s in steps[max(0, (k or 0) - 2):(k or 0) + 1]]
            corr.disagreements.append({'what': what, 'scenario': sc.desc, 'first_bad_step': k, 'steps': ctxt,
                                       'note': 'model/Endpoint.v replayed on the recorded labels predicts different '
                                               'effects or key sets at this step'})
        base += n
    for sc in runs:
        st = EP.steps_of_log(sc.rec.log)
        corr.traces += 1
        corr.count('role:' + sc.rec.role)
        corr.count('steps', len(st))
        for s in st:
            corr.count('label:' + s[0][0])
        if len(st) > 2:
            corr.nontriv([s[0] for s in st])
    return res


def first_bad(case, keep, keys):
    d = tempfile.mkdtemp(prefix='epfb')
    try:
        body = ('Definition cases : list case_ep := [' + case + '].\n'
                'Eval vm_compute in (map (first_bad_p %s %s) cases).\n' % (keep, 'true' if keys else 'false'))
        open(os.path.join(d, 'x.v'), 'w').write(header(keep, keys) + body)
        r = subprocess.run(['coqc', '-Q', common.COQ, 'RSV', os.path.join(d, 'x.v')], capture_output=True, text=True,
                           timeout=300)
        m = re.search(r'Some (\d+)', r.stdout)
        return int(m.group(1)) if m else None
    except Exception:
        return None
    finally:
        shutil.rmtree(d, ignore_errors=True)


# ---------------------------------------------------------------------------------------------
# protocol view of one stream, from this endpoint's side (used by the C08 / C10 oracles)

REQ = {'RequestResponse': 'rr', 'RequestStream': 'rs', 'RequestChannel': 'rc', 'RequestFnf': 'fnf'}
CONN_TYPES = {'Setup', 'Keepalive', 'Lease', 'MetadataPush', 'Error', 'Resume', 'ResumeOk'}


class StreamSpec:
    def __init__(self, kind, iam, complete=False):
        self.kind, self.iam = kind, iam
        self.dead = kind == 'fnf'
        self.why = 'fnf' if self.dead else None
        self.out_open = (kind == 'rc' and not complete) if iam == 'req' else True
        self.in_open = True if iam == 'req' else (kind == 'rc' and not complete)
        self.sent_after = []
        self.other_open = None      # at an abnormal ending: was the other direction still open?

    def _both(self):
        if self.kind == 'rc' and not self.out_open and not self.in_open and not self.dead:
            self.dead, self.why = True, 'both-complete'

    # the endpoint's own terminal emissions, and the endings after which BOTH directions are complete as far as this
    # endpoint has seen (its own direction ended with the request, the peer's with the response / COMPLETE it received)
    OWN_ENDINGS = ('error-out', 'cancel-out', 'both-complete', 'response-sent', 'completed-out', 'response', 'completed',
                   'error-response')

    def out(self, fr):
        """a frame this endpoint emits on the stream; returns a reason if it is illegal.  What the peer's terminal frame
        forbids is not the emitter's concern (its frames may cross it in flight): only the endpoint's own ERROR, its
        CANCEL as requester, its own completion and 'both directions complete' silence it."""
        t = fr['t']
        if self.dead and self.why in self.OWN_ENDINGS:
            return 'emits %s after the stream terminated (%s)' % (t, self.why)
        if self.dead:
            return None
        k, me = self.kind, self.iam
        allowed = {('rr', 'req'): {'Cancel'}, ('rs', 'req'): {'Cancel', 'RequestN'},
                   ('rc', 'req'): {'Cancel', 'RequestN', 'Payload', 'Error'},
                   ('rr', 'resp'): {'Payload', 'Error'}, ('rs', 'resp'): {'Payload', 'Error'},
                   ('rc', 'resp'): {'Payload', 'Error', 'RequestN', 'Cancel'}}[(k, me)]
        if t not in allowed:
            return 'emits %s as %s of a %s' % (t, me, k)
        if t == 'Payload':
            if not self.out_open:
                return 'emits PAYLOAD after completing its sending direction'
            if k == 'rr':
                self.dead, self.why = True, 'response-sent'
            elif fr.get('complete'):
                self.out_open = False
                if k == 'rs':
                    self.dead, self.why = True, 'completed-out'
        elif t == 'Error':
            self.other_open = self.in_open
            self.dead, self.why = True, 'error-out'
        elif t == 'Cancel':
            if me == 'req':
                self.other_open = self.out_open
                self.dead, self.why = True, 'cancel-out'
            else:
                self.in_open = False
        self._both()
        return None

    def inn(self, fr):
        t = fr['t']
        if self.dead:
            return
        k, me = self.kind, self.iam
        if t == 'Error':
            self.other_open = self.out_open
            # for the requester of a request-response or stream an ERROR is the response / the end of the stream: its own
            # direction ended with the request, so both directions are complete (a channel's own direction may still be open)
            self.dead, self.why = True, ('error-response' if me == 'req' and k in ('rr', 'rs') else 'error-in')
        elif t == 'Cancel':
            if me == 'resp':
                self.other_open = self.in_open
                self.dead, self.why = True, 'cancel-in'
            else:
                self.out_open = False
        elif t == 'Payload':
            if k == 'rr' and me == 'req':
                self.dead, self.why = True, 'response'
            elif fr.get('complete'):
                self.in_open = False
                if k == 'rs' and me == 'req':
                    self.dead, self.why = True, 'completed'
        self._both()


def walk(sc):
    """Feed the recorded trace to per-stream protocol views.
    Returns (specs by sid, wire violations [(step index, sid, reason, spec)])."""
    steps = EP.steps_of_log(sc.rec.log)
    my_parity = 1 if sc.rec.role == 'client' else 0
    specs = {}
    partial = {}     # inbound reassembly: sid -> first fragment
    viol = []
    for i, (lab, utf8, effs, tk, ck) in enumerate(steps):
        if lab[0] == 'recv':
            fr = lab[1]
            sid, t = fr['sid'], fr['t']
            if sid != 0:
                whole = None
                if t in REQ or t == 'Payload':
                    if sid in partial:
                        first = partial[sid]
                        if not fr.get('follows'):
                            whole = dict(first)
                            whole['complete'] = fr.get('complete', False)
                            del partial[sid]
                    elif fr.get('follows'):
                        partial[sid] = fr
                    else:
                        whole = fr
                else:
                    whole = fr
                if whole is not None:
                    wt = whole['t']
                    if wt == 'RequestFnf':
                        pass        # no stream: an ERROR answering a failed handler is all that can follow
                    elif wt in REQ:
                        if sid not in specs or specs[sid].dead:
                            specs[sid] = StreamSpec(REQ[wt], 'resp', whole.get('complete', False))
                    elif sid in specs:
                        specs[sid].inn(whole)
        for e in effs:
            if e[0] != 'enq':
                continue
            fr = e[1]
            sid, t = fr['sid'], fr['t']
            if sid == 0:
                if t not in CONN_TYPES:
                    viol.append((i, sid, 'stream-level frame %s on stream 0' % t, None))
                continue
            if t in ('Setup', 'Keepalive', 'Lease', 'MetadataPush', 'Resume', 'ResumeOk'):
                viol.append((i, sid, 'connection-level frame %s on stream %d' % (t, sid), None))
                continue
            if t in REQ:
                if sid % 2 != my_parity:
                    viol.append((i, sid, 'opens stream %d with the peer\'s parity' % sid, None))
                if sid in specs and not specs[sid].dead:
                    viol.append((i, sid, 'opens stream %d which is still in use' % sid, specs[sid]))
                if t in ('RequestStream', 'RequestChannel') and not fr.get('n', 0) > 0:
                    viol.append((i, sid, '%s with initial request-n %r' % (t, fr.get('n')), None))
                specs[sid] = StreamSpec(REQ[t], 'req', fr.get('complete', False))
                continue
            sp = specs.get(sid)
            if sp is None:
                if t != 'Error':
                    viol.append((i, sid, 'emits %s on stream %d which was never opened' % (t, sid), None))
                continue
            why = sp.out(fr)
            if why:
                viol.append((i, sid, why, sp))
    return specs, viol, steps


def signals(steps):
    """per handler object: the subscriber callbacks and awaitable resolutions, in order"""
    cb, fut = {}, {}
    for i, (lab, utf8, effs, tk, ck) in enumerate(steps):
        for e in effs:
            if e[0] == 'cb':
                cb.setdefault(e[1], []).append((i, e[2]))
            elif e[0] == 'fut':
                fut.setdefault(e[1], []).append((i, e[2]))
    return cb, fut


def is_terminal(sig):
    return sig[0] in ('complete', 'error') or (sig[0] == 'next' and sig[3])


def kind_of(sc, oid):
    if oid is None or oid >= len(sc.rec.objs):
        return '?'
    return EP.PKT.get(type(sc.rec.objs[oid]).__name__, '?')


def failure(what, sc, **detail):
    d = {'what': what, 'scenario': sc.desc}
    d.update(detail)
    return d


# ---------------------------------------------------------------------------------------------
# watchdog: an input that makes the implementation loop forever must not hang the check

class Hang(BaseException):
    """not an Exception: the library's `except Exception` clauses must not swallow the watchdog"""


class Deadline:
    def __init__(self, seconds):
        self.seconds = seconds

    def __enter__(self):
        import signal

        def onalarm(signum, frame):
            raise Hang('no termination within %ds' % self.seconds)
        # CPU time of this process, not wall-clock time: a loop that never ends burns CPU, a loaded machine does not
        self._outer = signal.getitimer(signal.ITIMER_PROF)          # an enclosing deadline, put back on the way out
        self._old = signal.signal(signal.SIGPROF, onalarm)
        signal.setitimer(signal.ITIMER_PROF, self.seconds, 0.5)     # keeps firing should one be swallowed
        return self

    def __exit__(self, *a):
        import signal
        signal.setitimer(signal.ITIMER_PROF, 0)
        signal.signal(signal.SIGPROF, self._old)
        if self._outer[0] > 0:
            signal.setitimer(signal.ITIMER_PROF, self._outer[0], self._outer[1] or 0.5)
        return False


def guarded(fn, seconds=40, what='oracle'):
    """run an oracle that drives the library outside the per-scenario watchdog: if the library never comes back, that is the
    failure"""
    try:
        with Deadline(seconds):
            return fn()
    except Hang as e:
        return [{'what': 'does-not-terminate: %s (%s)' % (what, e), 'guarded': what}]


def run_all(descs, post=None, deadline=8):
    """run every descriptor; returns (scenarios, failures-to-run)"""
    runs, crashed = [], []
    for d in descs:
        if sum(1 for c in crashed if c['what'] == 'does-not-terminate') >= 2:
            break                      # every further hang costs a full deadline; two witnesses are enough
        try:
            with Deadline(deadline):
                runs.append(run_desc(d, post))
        except Hang as e:
            crashed.append({'what': 'does-not-terminate', 'scenario': d, 'detail': str(e)})
            try:
                import asyncio
                asyncio.get_event_loop().close()
            except BaseException:
                pass
        except Exception as e:   # the scenario could not be driven to its end
            if common.raised_in_harness(e):
                # the harness's own code failed (a private field it hooks is gone, a table it reads could not be
                # regenerated): not behaviour of the library, and not a failing input
                common.harness_error('scenario driver: %r' % (e,))
            else:
                crashed.append({'what': 'scenario-crashed', 'scenario': d, 'detail': repr(e)[:300]})
    return runs, crashed
