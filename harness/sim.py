"""Deterministic, single-stepped, virtual-time asyncio harness for driving real rsocket endpoints.

* VLoop: a SelectorEventLoop whose time() is a counter the harness advances; tick() runs exactly one
  loop iteration; settle() ticks until nothing is ready (timers fire only when the clock is advanced).
* SimTransport: harness-owned Transport: frames the endpoint sends are serialized (so every observation is
  made on wire bytes, re-parsed with the library's own parser), optionally gated (a blocked writer);
  frames for the endpoint are injected as bytes through the transport's own FrameParser.
* every application action is executed as a loop callback (the library calls asyncio.create_task).
"""
import asyncio
import datetime as _dt
import logging

logging.disable(logging.CRITICAL)


class VLoop(asyncio.SelectorEventLoop):
    def __init__(self):
        super().__init__()
        self._vt = 1000.0
        self.exceptions = []
        self.set_exception_handler(self._on_exc)

    def _on_exc(self, loop, context):
        self.exceptions.append(context.get('message', '') + ' ' + repr(context.get('exception')))

    def time(self):
        return self._vt

    def advance(self, dt):
        self._vt += dt

    def tick(self):
        self.call_soon(self.stop)
        self.run_forever()

    def busy(self):
        if self._ready:
            return True
        return bool(self._scheduled) and any((not h._cancelled) and h._when <= self._vt for h in self._scheduled)

    def settle(self, limit=400):
        n = 0
        while self.busy():
            self.tick()
            n += 1
            if n > limit:
                raise RuntimeError('event loop does not settle')
        return n

    def run(self, fn, *a):
        """execute fn(*a) as one loop callback (one atomic section) and return its result"""
        box = {}

        def cb():
            try:
                box['r'] = fn(*a)
            except BaseException as e:  # noqa
                box['e'] = e
        self.call_soon(cb)
        self.tick()
        if 'e' in box:
            raise box['e']
        return box.get('r')

    def run_until(self, t, on_step=None):
        """advance virtual time to t, firing every timer at its own instant"""
        self.settle()
        while True:
            nt = self.next_timer()
            if nt is None or nt > t:
                break
            if nt > self._vt:
                self._vt = nt
            self.settle()
            if on_step is not None:
                on_step()
        if t > self._vt:
            self._vt = t
        self.settle()

    def next_timer(self):
        live = [h._when for h in self._scheduled if not h._cancelled]
        return min(live) if live else None

    def finish(self):
        """cancel and drain everything so destructors do not leak into the next case"""
        try:
            for _ in range(5):
                tasks = [t for t in asyncio.all_tasks(self) if not t.done()]
                if not tasks:
                    break
                for t in tasks:
                    t.cancel()
                for _ in range(20):
                    self.tick()
                    if not self.busy():
                        break
        finally:
            try:
                self.run_until_complete(self.shutdown_asyncgens())
            except Exception:
                pass
            self.close()


class VClock:
    """datetime.now() replacement following the loop's virtual time"""
    EPOCH = _dt.datetime(2030, 1, 1)

    def __init__(self, loop):
        self.loop = loop

    def now(self, tz=None):
        return self.EPOCH + _dt.timedelta(microseconds=round(self.loop.time() * 1e6))


class _DT(_dt.datetime):
    _clock = None

    @classmethod
    def now(cls, tz=None):
        return cls._clock.now()


def patch_clock(loop):
    """make rsocket.lease / rsocket.rsocket_client use the virtual clock"""
    import rsocket.lease
    import rsocket.rsocket_client
    _DT._clock = VClock(loop)
    rsocket.lease.datetime = _DT
    rsocket.rsocket_client.datetime = _DT


EOF = object()


def make_transport_class():
    from rsocket.transports.transport import Transport
    from rsocket.exceptions import RSocketTransportError

    class SimTransport(Transport):
        def __init__(self, lenreq=False, connect_suspends=0, name='t'):
            super().__init__()
            self.name = name
            self.lenreq = lenreq
            self.inq = asyncio.Queue()
            self.sent = []            # serialized frames, in wire order
            self.log = None           # optional shared event log
            self.gated = False
            self._permits = 0
            self._waiter = None
            self.closed = 0
            self.connect_suspends = connect_suspends
            self.connected = False
            self.fail_send = False
            self.close_raises = False     # like TransportTCP.close() after a connection reset
            self.close_suspends = 0       # close() awaits this many loop iterations (writer.wait_closed(), ws close handshake)

        def requires_length_header(self):
            return self.lenreq

        async def connect(self):
            for _ in range(self.connect_suspends):
                await asyncio.sleep(0)
            self.connected = True

        async def send_frame(self, frame):
            if self.log is not None:
                self.log.append(('send-begin', self.name))     # the sender has taken this frame off the queue
            while self.gated and self._permits == 0:
                self._waiter = asyncio.get_event_loop().create_future()
                await self._waiter
            if self.gated:
                self._permits -= 1
            if self.fail_send:
                raise RSocketTransportError()
            b = frame.serialize()
            self.sent.append(b)
            if self.log is not None:
                self.log.append(('wire', self.name, b))

        def permit(self, n=1):
            self._permits += n
            if self._waiter is not None and not self._waiter.done():
                self._waiter.set_result(None)

        async def next_frame_generator(self):
            item = await self.inq.get()
            if item is EOF:
                return None
            if isinstance(item, Exception):
                raise RSocketTransportError() from item
            data = item
            if self.lenreq:
                return self._frame_parser.receive_data(data)
            return self._frame_parser.receive_data(data, 0)

        async def close(self):
            self.closed += 1
            for _ in range(self.close_suspends):
                await asyncio.sleep(0)
            if self.close_raises:
                raise ConnectionResetError('connection reset by peer')

        # harness side
        def inject(self, data):
            """bytes for the endpoint: a length-prefixed stream chunk (lenreq) or one message"""
            self.inq.put_nowait(data)

        def inject_frame(self, frame_bytes):
            if self.lenreq:
                self.inq.put_nowait(len(frame_bytes).to_bytes(3, 'big') + frame_bytes)
            else:
                self.inq.put_nowait(frame_bytes)

        def inject_eof(self):
            self.inq.put_nowait(EOF)

        def inject_error(self):
            self.inq.put_nowait(ConnectionResetError('cut'))

    return SimTransport


def new_loop():
    loop = VLoop()
    asyncio.set_event_loop(loop)
    return loop


def parse_sent(b):
    """wire bytes -> frame descriptor dict (through the library's own parser)"""
    from harness import frames as FR
    r = FR._parse(b)
    if r[0] != 'ok':
        return {'t': 'UNPARSEABLE', 'raw': b.hex(), 'why': r}
    return r[1]
