"""Random interaction scenarios on a recorded real endpoint (see endpoint.py): mixes of the interaction models in both
roles, legal peer behaviour and, optionally, hostile input; returns the recorded log plus bookkeeping for the oracles."""
from harness import frames as FR
from harness.endpoint import Recorder, RecPublisher, RecSubscriber


BIG = [0.0]      # probability of a payload large enough to be fragmented on the way out (set per scenario)


def _pay(rng, k):
    if BIG[0] and rng.random() < BIG[0]:
        return (b'' if rng.random() < 0.6 else b'm%d' % k, b'd%d' % k + b'+' * rng.choice([80, 150]))
    return (b'' if rng.random() < 0.6 else b'm%d' % k, b'd%d' % k)


class Scenario:
    def __init__(self, rng, role='server', lenreq=False, hostile=0.0, with_close=True, steps=12, frag=0.0,
                 close_mode=None, garbage=0.0, race=0.0, on_close_raises=False,
                 app_raises_at_close=False, out_frag=False, close_during_on_close=0):
        self.rng = rng
        self.race = race                # probability that a local action shares its loop iteration with the next peer event
        self.raced = 0
        self.frag = frag                # probability that a legal peer frame with a payload arrives fragmented
        self.close_mode = close_mode    # None (random eof/error) | 'eof' | 'error' | 'close' | 'cut'
        self.garbage = garbage          # probability that a hostile step is raw bytes rather than a well-formed frame
        self.raw_injected = 0
        self.fragmented = 0
        self.rec = Recorder(role, lenreq, fragment_size=64 if out_frag else None)
        self.out_frag = out_frag
        self.rec.on_close_raises = on_close_raises
        self.app_raises_at_close = app_raises_at_close
        self.close_during_on_close = close_during_on_close     # on_close suspends this many iterations; close() lands inside
        self.rec.on_close_suspends = close_during_on_close
        self.first = 2 if role == 'server' else 1
        self.peer_next = 1 if role == 'server' else 2       # next stream id the peer opens
        self.hostile = hostile
        self.legal = True
        self.with_close = with_close
        self.steps = steps
        self.k = 0
        # bookkeeping: my requesters and the peer's requests
        self.mine = {}      # oid -> dict(kind, sid, state..., sub, pub, fut)
        self.theirs = {}    # sid -> dict(kind, oid?, state)
        self.closed = False

    # ---- helpers
    def _inject(self, fr, outcome=('none',)):
        self.rec.next_outcome = outcome
        if self.frag and fr['t'] in ('RequestResponse', 'RequestStream', 'RequestChannel', 'RequestFnf', 'Payload') \
                and not fr.get('follows') and (fr.get('d') or fr.get('md')) and self.rng.random() < self.frag:
            fr = dict(fr)
            fr['d'] = fr['d'] + b'.' * self.rng.choice([70, 130, 200])
            for b in self._fragments(fr):
                self.rec.t.inject_frame(b)
                self.rec.settle()
            self.fragmented += 1
        else:
            self.rec.t.inject_frame(FR.build(fr).serialize())
            self.rec.settle()
        self.rec.next_outcome = ('none',)

    def _fragments(self, fr):
        """the library's own fragmenter (validated against model/Fragmenter.v by C03) produces what a peer would send"""
        o = FR.build(fr)
        o.fragment_size_bytes = 64
        out = []
        for _ in range(1000):
            g = o.get_next_fragment(self.rec.t.lenreq)
            if g is None:
                break
            out.append(g.serialize())
        return out

    def _race(self, label, fn, frame=None, outcome=('none',), close=None):
        """the local action and the peer event are made ready in the SAME loop iteration, local action first: whatever
        the action defers (done-callbacks) runs only after the peer event has been handled"""
        rec = self.rec

        def cb():
            rec.label(*label)
            try:
                fn()
            except Exception:
                rec.eff('raised')
        rec.loop.call_soon(cb)
        self.raced += 1
        if frame is not None:
            rec.next_outcome = outcome
            rec.t.inject_frame(FR.build(frame).serialize())
        elif close == 'eof':
            rec.t.inject_eof()
        elif close == 'error':
            rec.t.inject_error()
        rec.settle()
        rec.next_outcome = ('none',)
        if close:
            self.closed = True
            self.close_used = 'race-' + close

    def _oid_next(self):
        return len(self.rec.objs)

    def _sid_of(self, oid):
        return self.rec.objs[oid].stream_id

    # ---- my requests
    def do_rr(self):
        from rsocket.payload import Payload
        self.k += 1
        md, d = _pay(self.rng, self.k)
        oid = self._oid_next()
        box = {}
        self.rec.label('reqresponse', md, d)
        self.rec.act(lambda: box.setdefault('f', self.rec.ep.request_response(Payload(d, md))))
        self.rec.settle()
        self.mine[oid] = {'kind': 'rr', 'fut': box['f'], 'done': False, 'sid': self._sid_of(oid), 'sent': (md, d)}

    def do_stream(self):
        from rsocket.payload import Payload
        self.k += 1
        md, d = _pay(self.rng, self.k)
        oid = self._oid_next()
        box = {}
        self.rec.label('reqstream', md, d)
        self.rec.act(lambda: box.setdefault('o', self.rec.ep.request_stream(Payload(d, md))))
        obj = box['o']
        m = {'kind': 'rs', 'obj': obj, 'done': False, 'sid': self._sid_of(oid), 'subscribed': False, 'sent': (md, d),
             'payload': (md, d)}
        self.mine[oid] = m
        if self.rng.random() < 0.5:
            n = self.rng.choice([1, 2, 5, 0x7FFFFFFF] + ([0, -1] if self.rng.random() < self.hostile else []))
            self.rec.label('initialn', oid, n)

            def ini():
                try:
                    obj.initial_request_n(n)
                except Exception:
                    self.rec.eff('raised')
            self.rec.act(ini)
            if n <= 0:
                m['done'] = True
                return
        sub = RecSubscriber(self.rec)
        sub.oid = oid
        m['sub'] = sub
        self.rec.label('subscribe', oid, True, md, d)
        self.rec.act(lambda: obj.subscribe(sub))
        m['subscribed'] = True
        self.rec.settle()

    def do_channel(self, hp=None, hs=None):
        from rsocket.payload import Payload
        self.k += 1
        md, d = _pay(self.rng, self.k)
        hp = self.rng.random() < 0.6 if hp is None else hp
        hs = self.rng.random() < 0.85 if hs is None else hs
        oid = self._oid_next()
        pub = RecPublisher(self.rec) if hp else None
        box = {}
        self.rec.label('reqchannel', md, d, hp)
        self.rec.act(lambda: box.setdefault('o', self.rec.ep.request_channel(Payload(d, md), pub)))
        obj = box['o']
        if pub is not None:
            pub.oid = oid
        sub = RecSubscriber(self.rec) if hs else None
        if sub is not None:
            sub.oid = oid
        self.rec.label('subscribe', oid, hs, md, d)
        self.rec.act(lambda: obj.subscribe(sub))
        self.rec.settle()
        self.mine[oid] = {'kind': 'rc', 'obj': obj, 'pub': pub, 'sub': sub, 'sid': self._sid_of(oid), 'done': False,
                          'subscribed': True, 'my_done': not hp, 'peer_done': not hs, 'sent': (md, d)}

    def do_fnf(self):
        from rsocket.payload import Payload
        self.k += 1
        md, d = _pay(self.rng, self.k)
        self.rec.label('fnf', md, d)
        self.rec.act(lambda: self.rec.ep.fire_and_forget(Payload(d, md)))
        self.rec.settle()

    def do_metapush(self):
        self.k += 1
        md = b'p%d' % self.k
        self.rec.label('metapush', md)
        self.rec.act(lambda: self.rec.ep.metadata_push(md))
        self.rec.settle()

    # ---- my local actions on existing requesters
    def do_local(self, oid):
        m = self.mine[oid]
        r = self.rng.random()
        if m['kind'] == 'rr':
            if not m['done']:
                if self.rng.random() < self.race:
                    x = self.rng.random()
                    sid = m['sid']
                    if x < 0.35:
                        fr, cl = {'t': 'Payload', 'sid': sid, 'ign': False, 'follows': False, 'complete': True, 'next': True,
                                  'md': b'', 'd': b'late'}, None
                    elif x < 0.7:
                        fr, cl = {'t': 'Error', 'sid': sid, 'ign': False, 'code': 0x201, 'd': b'late'}, None
                    else:
                        fr, cl = None, self.rng.choice(['eof', 'error'])
                    self._race(('futcancel', oid), lambda: m['fut'].cancel(), fr, close=cl)
                    m['done'] = True
                    m['peer_term'] = True
                    return
                self.rec.label('futcancel', oid)
                self.rec.act(lambda: m['fut'].cancel())
                m['done'] = True
                self.rec.settle()
            return
        obj = m['obj']
        if not m.get('subscribed'):
            return
        if (m.get('peer_term') or m.get('cancelled')) and r < 0.7:
            # the application has been told that nothing more will come (or has cancelled): asking for more or cancelling
            # again is its own misuse
            if self.rng.random() > self.hostile:
                return
            self.legal = False
        if r < 0.45:
            n = self.rng.choice([1, 3, 0x7FFFFFFF])
            self.rec.label('requestn', oid, n)
            self.rec.act(lambda: obj.request(n))
            if m['done']:
                self.legal = False      # credit for a finished stream: our own application misbehaving
        elif r < 0.7:
            if m['done']:
                self.legal = False
            if self.rng.random() < self.race and not m.get('peer_term'):
                sid = m['sid']
                x = self.rng.random()
                if x < 0.4:
                    fr = {'t': 'Payload', 'sid': sid, 'ign': False, 'follows': False, 'complete': self.rng.random() < 0.5,
                          'next': True, 'md': b'', 'd': b'inflight'}
                elif x < 0.7:
                    fr = {'t': 'Payload', 'sid': sid, 'ign': False, 'follows': False, 'complete': True, 'next': False,
                          'md': b'', 'd': b''}
                else:
                    fr = {'t': 'Error', 'sid': sid, 'ign': False, 'code': 0x201, 'd': b'late'}
                if fr['t'] == 'Error' or fr.get('complete'):
                    m['peer_term'] = True
                self._race(('cancel', oid), lambda: obj.cancel(), fr)
                m['done'] = True
                m['cancelled'] = True
                return
            self.rec.label('cancel', oid)
            self.rec.act(lambda: obj.cancel())
            m['done'] = True
            m['cancelled'] = True
        elif m['kind'] == 'rc' and m.get('pub') is not None and m['pub'].subscriber is not None:
            if m.get('peer_cancelled') and not m.get('pub_done'):
                if self.rng.random() > self.hostile:
                    return          # a cancelled publisher emits nothing more
                self.legal = False
            self.do_pub(oid, m['pub'], m)
            return
        self.rec.settle()

    def do_pub(self, oid, pub, st):
        """a signal of an application publisher (mine on a channel requester, or the handler's on a responder)"""
        self.k += 1
        s = pub.subscriber
        if s is None:
            return
        if st.get('pub_done'):
            if self.rng.random() > self.hostile:
                return
            self.legal = False
        r = self.rng.random()
        from rsocket.payload import Payload
        if r < 0.6:
            md, d = _pay(self.rng, self.k)
            c = self.rng.random() < 0.2
            self.rec.label('pubnext', oid, md, d, c)
            self.rec.act(lambda: s.on_next(Payload(d, md), c))
            st.setdefault('emitted', []).append((md, d))
            if c:
                st['pub_done'] = True
        elif r < 0.85:
            self.rec.label('pubcomplete', oid)
            self.rec.act(lambda: s.on_complete())
            st['pub_done'] = True
        else:
            self.rec.label('puberror', oid)
            self.rec.act(lambda: s.on_error(RuntimeError('app')))
            st['pub_done'] = True
        self.rec.settle()

    # ---- the peer
    def peer_open(self):
        self.k += 1
        md, d = _pay(self.rng, self.k)
        sid = self.peer_next
        self.peer_next += 2
        kind = self.rng.choice(['rr', 'rs', 'rc', 'fnf'])
        raises = self.rng.random() < 0.15
        oid = self._oid_next()
        if kind == 'rr':
            self._inject({'t': 'RequestResponse', 'sid': sid, 'ign': False, 'follows': False, 'md': md, 'd': d},
                         ('raise',) if raises else ('future',))
        elif kind == 'rs':
            self._inject({'t': 'RequestStream', 'sid': sid, 'ign': False, 'follows': False, 'n': self.rng.choice([1, 2, 100]),
                          'md': md, 'd': d}, ('raise',) if raises else ('publisher',))
        elif kind == 'rc':
            hp, hs = self.rng.random() < 0.7, self.rng.random() < 0.8
            co = self.rng.random() < 0.25
            self._inject({'t': 'RequestChannel', 'sid': sid, 'ign': False, 'follows': False, 'complete': co,
                          'n': self.rng.choice([1, 5]), 'md': md, 'd': d},
                         ('raise',) if raises else ('channel', hp, hs))
        else:
            self._inject({'t': 'RequestFnf', 'sid': sid, 'ign': False, 'follows': False, 'md': md, 'd': d},
                         ('raise',) if raises else ('none',))
            return
        if raises:
            return
        app = self.rec.app.get(oid, {})
        st = {'kind': kind, 'oid': oid, 'sid': sid, 'app': app, 'done': False, 'peer_done': False}
        if kind == 'rc':
            st['peer_done'] = co or app.get('sub') is None
            st['pub_done'] = app.get('pub') is None
        self.theirs[sid] = st

    def peer_on_theirs(self, sid):
        st = self.theirs[sid]
        r = self.rng.random()
        if st['kind'] == 'rr':
            if r < 0.5 and not st['done']:
                # the application answers
                fut = st['app'].get('fut')
                if fut is not None and not fut.done():
                    self.k += 1
                    which = self.rng.choice(['result', 'result', 'error', 'cancel'])
                    from rsocket.payload import Payload
                    md, d = _pay(self.rng, self.k)
                    if self.rng.random() < self.race and not st.get('cancel_sent'):
                        cancel = {'t': 'Cancel', 'sid': sid, 'ign': False}
                        if which == 'result':
                            self._race(('appresolve', st['oid'], ('result', md, d)), lambda: fut.set_result(Payload(d, md)), cancel)
                        elif which == 'error':
                            self._race(('appresolve', st['oid'], ('error',)), lambda: fut.set_exception(RuntimeError('app')), cancel)
                        else:
                            fut._verif_app_cancel = True
                            self._race(('appresolve', st['oid'], ('cancel',)), lambda: fut.cancel(), cancel)
                        st['cancel_sent'] = True
                        st['done'] = True
                        return
                    if which == 'result':
                        self.rec.label('appresolve', st['oid'], ('result', md, d))
                        self.rec.act(lambda: fut.set_result(Payload(d, md)))
                    elif which == 'error':
                        self.rec.label('appresolve', st['oid'], ('error',))
                        self.rec.act(lambda: fut.set_exception(RuntimeError('app')))
                    else:
                        self.rec.label('appresolve', st['oid'], ('cancel',))
                        fut._verif_app_cancel = True
                        self.rec.act(lambda: fut.cancel())
                    st['done'] = True
                    self.rec.settle()
            elif not st.get('cancel_sent'):
                self._inject({'t': 'Cancel', 'sid': sid, 'ign': False})
                st['cancel_sent'] = True
                st['done'] = True
            return
        pub = st['app'].get('pub')
        if r < 0.45 and pub is not None:
            if st.get('cancel_sent') and not st.get('pub_done'):
                if self.rng.random() > self.hostile:
                    return          # a cancelled publisher emits nothing more
                self.legal = False
            self.do_pub(st['oid'], pub, st)
        elif r < 0.65:
            if st.get('cancel_sent') and self.rng.random() > self.hostile:
                return
            self._inject({'t': 'RequestN', 'sid': sid, 'ign': False, 'n': self.rng.choice([1, 4, 0x7FFFFFFF])})
        elif r < 0.8 and not st.get('cancel_sent'):
            self._inject({'t': 'Cancel', 'sid': sid, 'ign': False})
            st['cancel_sent'] = True
            st['done'] = True
        elif st['kind'] == 'rc':
            if st['peer_done'] and self.rng.random() > self.hostile:
                return
            if st['peer_done']:
                self.legal = False
            self.k += 1
            md, d = _pay(self.rng, self.k)
            x = self.rng.random()
            if x < 0.6:
                co = self.rng.random() < 0.25
                self._inject({'t': 'Payload', 'sid': sid, 'ign': False, 'follows': False, 'complete': co, 'next': True,
                              'md': md, 'd': d})
                st['peer_done'] = st['peer_done'] or co
            elif x < 0.85:
                self._inject({'t': 'Payload', 'sid': sid, 'ign': False, 'follows': False, 'complete': True, 'next': False,
                              'md': b'', 'd': b''})
                st['peer_done'] = True
            else:
                self._inject({'t': 'Error', 'sid': sid, 'ign': False, 'code': 0x201, 'd': b'peer failed'})
                st['peer_done'] = True
                st['done'] = True

    def peer_on_mine(self, oid):
        m = self.mine[oid]
        sid = m['sid']
        self.k += 1
        md, d = _pay(self.rng, self.k)
        term = m.get('peer_term', False)
        if term:
            if self.rng.random() > self.hostile:
                return
            self.legal = False
        if self.frag and not term and not m.get('done') and (m['kind'] == 'rr' or m.get('subscribed')) and self.rng.random() < 0.12:
            self.abandoned_train(oid, m)
            return
        if m['kind'] == 'rr':
            if self.rng.random() < 0.75:
                self._inject({'t': 'Payload', 'sid': sid, 'ign': False, 'follows': False, 'complete': True, 'next': True,
                              'md': md, 'd': d})
            else:
                self._inject({'t': 'Error', 'sid': sid, 'ign': False, 'code': self.rng.choice([0x201, 0x202, 0x203]),
                              'd': b'no'})
            m['peer_term'] = True
            m['done'] = True
            return
        if not m.get('subscribed'):
            if self.rng.random() > self.hostile:
                return
            self.legal = False
        x = self.rng.random()
        if m['kind'] == 'rc' and x < 0.25:
            if m.get('peer_cancelled') and self.rng.random() > self.hostile:
                return
            if self.rng.random() < 0.6:
                self._inject({'t': 'RequestN', 'sid': sid, 'ign': False, 'n': self.rng.choice([1, 7])})
            else:
                if m.get('pub') is None:
                    if self.rng.random() > self.hostile:
                        return
                    self.legal = False
                self._inject({'t': 'Cancel', 'sid': sid, 'ign': False})
                m['peer_cancelled'] = True
            return
        if x < 0.6:
            co = self.rng.random() < 0.25
            self._inject({'t': 'Payload', 'sid': sid, 'ign': False, 'follows': False, 'complete': co, 'next': True,
                          'md': md, 'd': d})
            if co:
                m['peer_term'] = True
        elif x < 0.85:
            self._inject({'t': 'Payload', 'sid': sid, 'ign': False, 'follows': False, 'complete': True, 'next': False,
                          'md': b'', 'd': b''})
            m['peer_term'] = True
        else:
            self._inject({'t': 'Error', 'sid': sid, 'ign': False, 'code': 0x201, 'd': b'peer failed'})
            m['peer_term'] = True
        if m.get('peer_term') and m['kind'] == 'rs':
            m['done'] = True

    def abandoned_train(self, oid, m):
        """the interaction ends in the middle of an inbound fragment train and the peer never sends the rest: the requester
        cancels after the first fragment(s) (the responder honours CANCEL by dropping what it had queued), or the responder
        fails and sends ERROR instead of the remaining fragments"""
        sid = m['sid']
        fr = {'t': 'Payload', 'sid': sid, 'ign': False, 'follows': False, 'complete': m['kind'] == 'rr', 'next': True,
              'md': b'', 'd': b'T' * self.rng.choice([150, 260])}
        frs = self._fragments(fr)
        for b in frs[:self.rng.randrange(1, len(frs))]:
            self.rec.t.inject_frame(b)
            self.rec.settle()
        self.trains_abandoned = getattr(self, 'trains_abandoned', 0) + 1
        m['peer_term'] = True
        m['done'] = True
        if self.rng.random() < 0.5:
            self._inject({'t': 'Error', 'sid': sid, 'ign': False, 'code': 0x201, 'd': b'failed mid-train'})
        elif m['kind'] == 'rr':
            self.rec.label('futcancel', oid)
            self.rec.act(lambda: m['fut'].cancel())
            self.rec.settle()
        else:
            obj = m['obj']
            self.rec.label('cancel', oid)
            self.rec.act(lambda: obj.cancel())
            m['cancelled'] = True
            self.rec.settle()

    def hostile_frame(self):
        """anything a misbehaving peer can send: frames for unknown / finished streams, reused ids, odd types, bad text"""
        self.legal = False
        rng = self.rng
        self.k += 1
        if rng.random() < self.garbage:
            n = rng.choice([0, 0, 1, 2, 3, 5, 6, 9, 12, 20, 40])
            raw = bytes(rng.randrange(256) for _ in range(n))
            if rng.random() < 0.3 and n >= 6:
                raw = (rng.choice([0, 1, 2, 999])).to_bytes(4, 'big') + bytes([rng.randrange(256), rng.randrange(256)]) + raw[6:]
            self.rec.next_outcome = rng.choice([('raise',), ('none',)])
            self.rec.t.inject_frame(raw)
            self.rec.settle()
            self.rec.next_outcome = ('none',)
            self.raw_injected += 1
            return
        sids = [s for s in list(self.theirs) + [m['sid'] for m in self.mine.values()]] or [5]
        sid = rng.choice(sids + [0, 0, 999, self.peer_next + 10])
        x = rng.random()
        if x < 0.2:
            fr = {'t': 'Payload', 'sid': sid, 'ign': False, 'follows': rng.random() < 0.3, 'complete': rng.random() < 0.5,
                  'next': rng.random() < 0.7, 'md': b'', 'd': b'h%d' % self.k}
        elif x < 0.3:
            fr = {'t': 'Error', 'sid': sid, 'ign': False, 'code': rng.choice([0x201, 0x202, 0x101]),
                  'd': rng.choice([b'text', b'\xff\xfe bad utf8'])}
        elif x < 0.4:
            fr = {'t': 'Cancel', 'sid': sid, 'ign': False}
        elif x < 0.5:
            fr = {'t': 'RequestN', 'sid': sid, 'ign': False, 'n': rng.choice([0, 1, 0xFFFFFFFF])}
        elif x < 0.7:
            t = rng.choice(['RequestResponse', 'RequestStream', 'RequestChannel', 'RequestFnf'])
            fr = {'t': t, 'sid': sid, 'ign': False, 'follows': rng.random() < 0.15, 'md': b'', 'd': b'dup%d' % self.k}
            if t in ('RequestStream', 'RequestChannel'):
                fr['n'] = rng.choice([0, 1, 5])
            if t == 'RequestChannel':
                fr['complete'] = rng.random() < 0.3
            out = rng.choice([('raise',), ('future',) if t == 'RequestResponse' else ('publisher',) if t == 'RequestStream'
                              else ('channel', rng.random() < 0.5, rng.random() < 0.5) if t == 'RequestChannel' else ('none',)])
            oid = self._oid_next()
            self._inject(fr, out)
            if len(self.rec.objs) > oid and sid not in self.theirs and t != 'RequestFnf':
                self.theirs[sid] = {'kind': {'RequestResponse': 'rr', 'RequestStream': 'rs', 'RequestChannel': 'rc'}[t],
                                    'oid': oid, 'sid': sid, 'app': self.rec.app.get(oid, {}), 'done': False,
                                    'peer_done': fr.get('complete', False), 'hostile': True}
            return
        elif x < 0.74:
            # a LEASE nobody negotiated: on a connection without leases it grants and restricts nothing
            fr = {'t': 'Lease', 'sid': 0, 'ign': False, 'ttl': rng.choice([0, 1, 60000]), 'n': rng.choice([0, 0, 1, 5]), 'md': b''}
        elif x < 0.8:
            fr = {'t': 'Keepalive', 'sid': rng.choice([0, sid]), 'ign': False, 'respond': rng.random() < 0.5, 'pos': 1, 'd': b'k'}
        elif x < 0.9:
            fr = {'t': 'MetadataPush', 'sid': 0, 'ign': False, 'md': b'push%d' % self.k}
            self._inject(fr, ('raise',) if rng.random() < 0.3 else ('none',))
            return
        else:
            fr = {'t': rng.choice(['ResumeOk', 'Resume']), 'sid': 0, 'ign': False, 'pos': 3, 'major': 1, 'minor': 0,
                  'token': b't', 'ls': 1, 'fc': 2}
            if fr['t'] == 'ResumeOk':
                fr = {'t': 'ResumeOk', 'sid': 0, 'ign': False, 'pos': 3}
        self._inject(fr, ('raise',) if rng.random() < 0.2 else ('none',))

    # ---- run
    def run(self):
        rng = self.rng
        BIG[0] = 0.35 if self.out_frag else 0.0
        try:
            for _ in range(self.steps):
                if self.closed:
                    break
                x = rng.random()
                live_mine = list(self.mine)
                live_theirs = list(self.theirs)
                if rng.random() < self.hostile:
                    self.hostile_frame()
                elif x < 0.22 or (not live_mine and not live_theirs):
                    rng.choice([self.do_rr, self.do_stream, self.do_channel, self.do_fnf, self.do_metapush, self.peer_open,
                                self.peer_open])()
                elif x < 0.45 and live_mine:
                    self.peer_on_mine(rng.choice(live_mine))
                elif x < 0.6 and live_mine:
                    self.do_local(rng.choice(live_mine))
                elif live_theirs:
                    self.peer_on_theirs(rng.choice(live_theirs))
                else:
                    self.peer_open()
            if self.with_close and not self.closed:
                if self.app_raises_at_close:
                    # from now on the application's publishers fail in cancel() and its subscribers in on_error()
                    self.rec.pub_cancel_raises = True
                    self.rec.sub_error_raises = True
                mode = self.close_mode or rng.choice(['eof', 'error'])
                self.pre_close_sent = len(self.rec.t.sent)
                if mode == 'cut':
                    # the link dies in the middle of a (possibly fragmented) frame
                    fr = {'t': 'Payload', 'sid': rng.choice([m['sid'] for m in self.mine.values()] or [self.peer_next]),
                          'ign': False, 'follows': False, 'complete': False, 'next': True, 'md': b'', 'd': b'x' * 150}
                    frs = self._fragments(fr)
                    keep = rng.randrange(0, len(frs))
                    for b in frs[:keep]:
                        self.rec.t.inject_frame(b)
                        self.rec.settle()
                    if self.rec.t.lenreq:
                        b = frs[keep]
                        framed = len(b).to_bytes(3, 'big') + b
                        self.rec.t.inject(framed[:rng.randrange(0, len(framed))])
                        self.rec.settle()
                    rng.choice([self.rec.t.inject_eof, self.rec.t.inject_error])()
                elif mode == 'close':
                    import asyncio
                    self.rec.act(lambda: asyncio.ensure_future(self.rec.ep.close()))
                elif mode == 'eof':
                    self.rec.t.inject_eof()
                else:
                    self.rec.t.inject_error()
                if self.close_during_on_close and mode in ('eof', 'error', 'cut'):
                    # the application's on_close hook is still running when close() is called on the same endpoint
                    for _ in range(40):
                        if self.rec.on_close_calls:
                            break
                        self.rec.loop.tick()
                    import asyncio
                    self.rec.act(lambda: asyncio.ensure_future(self.rec.ep.close()))
                    self.closed_during_on_close = True
                self.rec.settle()
                self.closed = True
                self.close_used = mode
            self.rec.settle()
        finally:
            self.rec.finish()
        return self
