"""Two RECORDED real endpoints (endpoint.Recorder: a client and a server, each on its own single-step loop) with the harness
playing the link between them exactly as model/Network.v does: what one endpoint's transport wrote is queued towards the
other, and a delivery hands the oldest undelivered frame of a chosen stream to the other endpoint.  The recorded network
history (local sections and deliveries of both sides in global order, with the effects the real endpoints produced) is
replayed through net_run inside Coq (corr/NetworkCorr.v): every event's effects, every delivered frame and the final content
of both links must agree.  This is what ties Network.v — the composition the C01_network_* theorems are about — to the code;
the link's own guarantee (per stream first in first out) is C01_end_to_end plus the dispatched-vs-queued correspondence."""
from harness import frames as FR, sim
from harness.endpoint import Recorder, RecPublisher, RecSubscriber, coq_label, coq_effect, steps_of_log, _outcome
from harness.common import cN, cbool, clist

SIDES = ('A', 'B')


def _pay(rng, k):
    r = rng.random()
    if r < 0.07:
        return (b'', b'')                           # the empty payload: "no element" once it has been on the wire
    if r < 0.16:
        return (b'm%d' % k, b'')                    # metadata only
    return (b'' if r < 0.6 else b'm%d' % k, b'd%d' % k)


class NetRec:
    def __init__(self, rng, steps=30, lenreq=False, with_close=True):
        self.rng = rng
        self.rec = {'A': Recorder('client', lenreq), 'B': Recorder('server', lenreq)}
        self.link = {'A': [], 'B': []}          # frames (dicts) under way TO that side, oldest first
        self.taken = {'A': 0, 'B': 0}           # how much of rec.t.sent has been moved to the link
        self.seen = {'A': 0, 'B': 0}            # how much of rec.log has been turned into network steps
        self.hist = []                          # (side, label, utf8, effects, delivered frame or None)
        self.steps = steps
        self.with_close = with_close
        self.closed = {'A': False, 'B': False}
        self.k = 0
        self.mine = {'A': {}, 'B': {}}          # side -> oid -> dict
        self.pubstate = {'A': {}, 'B': {}}      # side -> oid -> dict(done=..)
        self.desc = None
        self.problems = []

    @staticmethod
    def other(s):
        return 'B' if s == 'A' else 'A'

    # ---- bookkeeping after every harness action on side s
    def _collect(self, s):
        rec = self.rec[s]
        rec.settle()
        log = rec.log[self.seen[s]:] + [rec.snapshot()]
        self.seen[s] = len(rec.log)
        for lab, utf8, effs, tk, ck in steps_of_log(log):
            fr = lab[1] if lab[0] == 'recv' else None
            self.hist.append((s, lab, utf8, effs, fr))
        sent = rec.t.sent[self.taken[s]:]
        self.taken[s] = len(rec.t.sent)
        for b in sent:
            self.link[self.other(s)].append(sim.parse_sent(b))

    def act(self, s, label, fn):
        rec = self.rec[s]
        rec.label(*label)
        rec.act(fn)
        self._collect(s)

    # ---- requests
    def do_request(self, s):
        from rsocket.payload import Payload
        rng, rec = self.rng, self.rec[s]
        self.k += 1
        md, d = _pay(rng, self.k)
        kind = rng.choice(['rr', 'rr', 'rs', 'rs', 'rc', 'rc', 'fnf', 'push'])
        oid = len(rec.objs)
        box = {}
        if kind == 'rr':
            self.act(s, ('reqresponse', md, d), lambda: box.setdefault('f', rec.ep.request_response(Payload(d, md))))
            self.mine[s][oid] = {'kind': 'rr', 'fut': box['f'], 'done': False}
        elif kind == 'rs':
            self.act(s, ('reqstream', md, d), lambda: box.setdefault('o', rec.ep.request_stream(Payload(d, md))))
            obj = box['o']
            if rng.random() < 0.5:
                n = rng.choice([1, 2, 5])
                self.act(s, ('initialn', oid, n), lambda: obj.initial_request_n(n))
            sub = RecSubscriber(rec)
            sub.oid = oid
            self.act(s, ('subscribe', oid, True, md, d), lambda: obj.subscribe(sub))
            self.mine[s][oid] = {'kind': 'rs', 'obj': obj, 'sub': sub, 'done': False}
        elif kind == 'rc':
            hp, hs = rng.random() < 0.6, rng.random() < 0.85
            pub = RecPublisher(rec) if hp else None
            self.act(s, ('reqchannel', md, d, hp), lambda: box.setdefault('o', rec.ep.request_channel(Payload(d, md), pub)))
            obj = box['o']
            if pub is not None:
                pub.oid = oid
            sub = RecSubscriber(rec) if hs else None
            if sub is not None:
                sub.oid = oid
            self.act(s, ('subscribe', oid, hs, md, d), lambda: obj.subscribe(sub))
            self.mine[s][oid] = {'kind': 'rc', 'obj': obj, 'sub': sub, 'pub': pub, 'done': False}
        elif kind == 'fnf':
            self.act(s, ('fnf', md, d), lambda: rec.ep.fire_and_forget(Payload(d, md)))
        else:
            md = md or b'p%d' % self.k
            self.act(s, ('metapush', md), lambda: rec.ep.metadata_push(md))

    # ---- what the application does with objects it holds
    def _signals(self, s, oid):
        return [e for (side, lab, u, effs, fr) in self.hist if side == s for e in effs if e[0] in ('cb', 'fut') and e[1] == oid]

    def _terminated(self, s, oid):
        for e in self._signals(s, oid):
            if e[0] == 'fut' or e[2][0] in ('complete', 'error') or (e[2][0] == 'next' and e[2][3]):
                return True
        return False

    def do_requester_action(self, s):
        rng = self.rng
        cands = [o for o, m in self.mine[s].items() if not m['done'] and m['kind'] in ('rr', 'rs', 'rc')]
        if not cands:
            return False
        oid = rng.choice(cands)
        m = self.mine[s][oid]
        if m['kind'] == 'rr':
            if m['fut'].done():
                m['done'] = True
                return False
            self.act(s, ('futcancel', oid), lambda: m['fut'].cancel())
            m['done'] = True
            return True
        sub = m.get('sub')
        if sub is None or sub.subscription is None or self._terminated(s, oid):
            m['done'] = m['done'] or self._terminated(s, oid)
            return False
        if rng.random() < 0.7:
            n = rng.choice([1, 2, 3, 10])
            self.act(s, ('requestn', oid, n), lambda: sub.subscription.request(n))
        else:
            self.act(s, ('cancel', oid), lambda: sub.subscription.cancel())
            m['done'] = True
        return True

    def _publishers(self, s):
        """(oid, publisher) of every application publisher on side s that the library subscribed to and has not cancelled"""
        out = []
        rec = self.rec[s]
        for oid, app in rec.app.items():
            pub = app.get('pub')
            if pub is None and oid in self.mine[s]:
                pub = self.mine[s][oid].get('pub')
            if pub is None or pub.subscriber is None:
                continue
            st = self.pubstate[s].setdefault(oid, {'done': False})
            cancelled = any(e[0] == 'pub' and e[1] == oid and e[2][0] == 'cancel'
                            for (side, lab, u, effs, fr) in self.hist if side == s for e in effs)
            if st['done'] or cancelled:
                continue
            out.append((oid, pub))
        return out

    def do_publisher_signal(self, s):
        from rsocket.payload import Payload
        rng = self.rng
        pubs = self._publishers(s)
        if not pubs:
            return False
        oid, pub = rng.choice(pubs)
        sub = pub.subscriber
        st = self.pubstate[s][oid]
        self.k += 1
        r = rng.random()
        if r < 0.7:
            md, d = _pay(rng, self.k)
            c = rng.random() < 0.15
            self.act(s, ('pubnext', oid, md, d, c), lambda: sub.on_next(Payload(d, md), c))
            st['done'] = c
        elif r < 0.9:
            self.act(s, ('pubcomplete', oid), lambda: sub.on_complete())
            st['done'] = True
        else:
            self.act(s, ('puberror', oid), lambda: sub.on_error(RuntimeError('app')))
            st['done'] = True
        return True

    def do_answer(self, s):
        """the application resolves a response future it returned from request_response"""
        from rsocket.payload import Payload
        rng, rec = self.rng, self.rec[s]
        futs = [(oid, app['fut']) for oid, app in rec.app.items()
                if app.get('fut') is not None and type(rec.objs[oid]).__name__ == 'RequestResponseResponder' and not app['fut'].done()]
        if not futs:
            return False
        oid, fut = rng.choice(futs)
        self.k += 1
        md, d = _pay(rng, self.k)
        which = rng.choice(['result', 'result', 'result', 'error', 'cancel'])
        if which == 'result':
            self.act(s, ('appresolve', oid, ('result', md, d)), lambda: fut.set_result(Payload(d, md)))
        elif which == 'error':
            self.act(s, ('appresolve', oid, ('error',)), lambda: fut.set_exception(RuntimeError('app')))
        else:
            fut._verif_app_cancel = True
            self.act(s, ('appresolve', oid, ('cancel',)), lambda: fut.cancel())
        return True

    # ---- the link
    def deliver(self, s, k=None):
        q = self.link[s]
        if not q or self.closed[s]:
            return False
        rng, rec = self.rng, self.rec[s]
        sids = sorted({f['sid'] for f in q})
        k = rng.choice(sids) if k is None else k
        i = next(j for j, f in enumerate(q) if f['sid'] == k)
        fr = q.pop(i)
        if fr['t'] == 'RequestChannel':
            hp, hs = rng.random() < 0.7, rng.random() < 0.85
            rec.next_outcome = ('channel', hp, hs)
        elif rng.random() < 0.08 and fr['t'] in ('RequestResponse', 'RequestFnf', 'RequestStream', 'RequestChannel'):
            rec.next_outcome = ('raise',)
        else:
            rec.next_outcome = ('none',)
        rec.t.inject_frame(FR.build(fr).serialize())
        self._collect(s)
        rec.next_outcome = ('none',)
        return True

    def close(self, s):
        rec = self.rec[s]
        self.rng.choice([rec.t.inject_eof, rec.t.inject_error])()
        self._collect(s)
        self.closed[s] = True

    def run(self):
        rng = self.rng
        for _ in range(self.steps):
            r = rng.random()
            s = rng.choice([x for x in SIDES if not self.closed[x]] or [None])
            if s is None:
                break
            if r < 0.15:
                self.do_request(s)
            elif r < 0.50:
                t = rng.choice(SIDES)
                self.deliver(t) or self.deliver(self.other(t))
            elif r < 0.68:
                self.do_publisher_signal(s) or self.deliver(s) or self.do_request(s)
            elif r < 0.82:
                self.do_answer(s) or self.deliver(s)
            elif r < 0.95:
                self.do_requester_action(s) or self.deliver(s)
            elif self.with_close and not any(self.closed.values()) and rng.random() < 0.5:
                self.close(s)
        # drain or leave things under way
        if rng.random() < 0.7:
            for _ in range(400):
                if not (self.deliver('A') or self.deliver('B')):
                    break
        for s in SIDES:
            self.rec[s].finish()
        return self

    # ---- Coq rendering
    def coq_case(self):
        rows = []
        for s, lab, utf8, effs, fr in self.hist:
            side = 'SA' if s == 'A' else 'SB'
            if lab[0] == 'recv':
                nl = '(NDeliver %s %s %s %s)' % (side, cN(fr['sid']), _outcome(lab[2]), cbool(utf8))
                frs = '(Some %s)' % FR.coq_frame(fr)
            else:
                nl = '(NLocal %s (%s))' % (side, coq_label(lab))
                frs = 'None'
            rows.append('(%s, %s, %s)' % (nl, clist([coq_effect(e) for e in effs]), frs))
        qa = clist([FR.coq_frame(f) for f in self.link['A']])
        qb = clist([FR.coq_frame(f) for f in self.link['B']])
        return '(%s, %s, %s)' % (clist(rows), qa, qb)


def run_one(seed, **kw):
    import random
    rng = random.Random(seed)
    kw.setdefault('steps', rng.randint(8, 60))
    kw.setdefault('lenreq', rng.random() < 0.5)
    kw.setdefault('debug_log', random.Random(seed ^ 0x5EED).random() < 0.15)
    from harness.common import debug_logging
    dbg = kw.pop('debug_log')
    with debug_logging(dbg):
        n = NetRec(rng, **kw)
        n.desc = dict(kw, seed=seed, debug_log=dbg)
        return n.run()


# ---------------------------------------------------------------------------------------------
# the conclusion of C01_network_delivery / C01_request_delivered / C01_element_delivered read off the REAL run

def _carried(fr):
    t = fr['t']
    if t in ('RequestResponse', 'RequestFnf', 'RequestStream', 'RequestChannel', 'Payload'):
        return (bytes(fr.get('md') or b''), bytes(fr.get('d') or b''))
    if t == 'MetadataPush':
        return (bytes(fr.get('md') or b''), b'')
    return None


def _app_payloads(effs):
    out = []
    for e in effs:
        if e[0] == 'handler' and e[1] not in ('HOnError', 'HOnSetup'):
            out.append((e[2], e[3]))
        elif e[0] == 'cb' and e[2][0] == 'next':
            out.append((e[2][1], e[2][2]))
        elif e[0] == 'fut' and e[2] and len(e) > 3:
            out.append((e[3], e[4]))
    return out


def _subseq(a, b):
    it = iter(b)
    return all(any(x == y for y in it) for x in a)


def oracle(n):
    """failures of one recorded network run"""
    out = []
    sent = {'A': [], 'B': []}          # frames each side put on its transport, in order (dicts)
    for s in SIDES:
        sent[s] = [sim.parse_sent(b) for b in n.rec[s].t.sent]
    for s in SIDES:
        o = n.other(s)
        got = {}
        for (side, lab, u, effs, fr) in n.hist:
            if side != s:
                continue
            ps = _app_payloads(effs)
            if lab[0] != 'recv':
                if ps:
                    out.append({'what': 'payload handed to the application outside a delivery', 'side': s, 'label': repr(lab)[:200]})
                continue
            c = _carried(fr)
            if len(ps) > 1 or (ps and ps[0] != c):
                out.append({'what': 'a delivered frame handed the application something other than its own payload',
                            'side': s, 'frame': repr(fr)[:300], 'handed': repr(ps)[:300]})
            if fr['t'] in ('RequestResponse', 'RequestFnf', 'RequestStream', 'RequestChannel') and fr['sid'] != 0 and ps != [c]:
                out.append({'what': 'request frame on a fresh id did not reach the handler with its payload', 'side': s,
                            'frame': repr(fr)[:300], 'handed': repr(ps)[:300]})
            got.setdefault(fr['sid'], []).extend(ps)
        for k, g in got.items():
            theirs = [_carried(f) for f in sent[o] if f['sid'] == k and _carried(f) is not None]
            g2 = [p for p in g if p[0] or p[1]]
            if not _subseq(g2, theirs):
                out.append({'what': 'payloads delivered on a stream are not an in-order selection of what the peer sent on it',
                            'side': s, 'stream': k, 'got': repr(g2)[:300], 'sent': repr(theirs)[:300]})
    for f in out:
        f['run'] = n.desc
        f['kind'] = 'network'
    return out
