"""./check Cxx [--tier quick|thorough] [--replay file]"""
import argparse
import importlib
import json
import os
import re
import sys
import time
import traceback

HERE = os.path.dirname(os.path.abspath(__file__))
sys.path.insert(0, os.path.dirname(HERE))
from harness import common, gen  # noqa: E402

sys.path.insert(0, common.REPO)
os.environ.setdefault('PYTHONHASHSEED', '0')
sys.dont_write_bytecode = True
import logging  # noqa: E402
logging.disable(logging.CRITICAL)   # the library logs every malformed frame


def main():
    ap = argparse.ArgumentParser()
    ap.add_argument('prop')
    ap.add_argument('--tier', default=os.environ.get('VERIF_TIER') or 'quick')
    ap.add_argument('--replay')
    args = ap.parse_args()
    prop = args.prop.upper()
    tier = args.tier if args.tier in ('quick', 'thorough') else 'quick'
    try:
        seed = int(os.environ.get('VERIF_SEED', '0') or 0)
    except ValueError:
        seed = 0
    mod = importlib.import_module('harness.props.' + prop.lower())

    if args.replay:
        obj = json.load(open(args.replay))
        fails = mod.replay(obj)
        print('replay %s: %s' % (args.replay, 'STILL FAILS' if fails else 'passes'))
        sys.exit(1 if fails else 0)

    ctx = common.Ctx(prop, tier, seed)
    broken = []          # (obligation, detail)
    with common.Lock():
        gen_problems = gen.run()
        # a generator that fails leaves a file that does not compile, so every Coq file that depends on it breaks with it;
        # a property none of whose statements, proofs, model or correspondence files depends on that file is not concerned
        needed = common.gen_files_needed(prop, mod.MODEL_TARGETS)
        gen_blind = False
        for f, e in gen_problems:
            if needed is None or f in needed:
                broken.append(('gen:' + f, e))
                gen_blind = True
        if tier == 'thorough' and os.environ.get('VERIF_NO_CLEAN') != '1':
            for t in ['props/%s' % prop] + [x[:-3] for x in getattr(mod, 'CLEAN', [])]:
                for ext in ('.vo', '.vok', '.vos', '.glob'):
                    try:
                        os.remove(os.path.join(common.COQ, t + ext))
                    except OSError:
                        pass
        ok, failed, log = common.coq_make(['props/%s.vo' % prop] + list(mod.MODEL_TARGETS))
        proof = common.compile_props(prop)
        if tier == 'thorough' and proof['ok'] and os.environ.get('VERIF_NO_COQCHK') != '1':
            rc, out = common.sh(['coqchk', '-silent', '-o', '-Q', '.', 'RSV', 'RSV.props.%s' % prop],
                                cwd=common.COQ, timeout=1800)
            proof['coqchk'] = 'ok' if rc == 0 else out[-800:]
            if rc != 0:
                broken.append(('coqchk:props/%s.vo' % prop, out[-800:]))
    if not proof['ok']:
        what = proof['failed_theorem'] or (proof['bad_axioms'] and 'axioms') or 'props/%s.v' % prop
        detail = proof['error'] or ('unexpected axioms: %s' % proof['bad_axioms'])
        if not ok and 'inconsistent assumptions' in detail:
            # the statement file was refused because a proof file it depends on no longer compiles against the regenerated
            # constants: name the proof obligation that actually failed
            m = re.search(r'File "\./((?:proofs|model|corr|gen)/[^"]+)", line (\d+)[^\n]*\n(Error[^\n]*(?:\n[^\n]+){0,8})', log)
            if m:
                detail = 'proof obligation in %s (line %s) no longer checks:\n%s\n-- hence: %s' % (
                    m.group(1), m.group(2), m.group(3), detail[-300:])
        broken.append(('theorem:%s' % what, detail))
    model_ok = all(os.path.exists(os.path.join(common.COQ, t)) for t in mod.MODEL_TARGETS) and \
        not any(f.replace('.v', '.vo') in mod.MODEL_TARGETS or f in mod.MODEL_TARGETS for f in failed)

    corr = common.CorrResult()
    try:
        # whatever happens, the check itself comes back: a global budget of CPU time of this process (the Coq evaluation
        # runs in child processes and does not count); the per-scenario watchdogs inside fire long before it
        from harness import epcheck as _E
        try:
            with _E.Deadline(900 if tier == 'quick' else 14400):
                mod.correspond(ctx, corr, model_ok)
        except _E.Hang as e:
            corr.oracle_failures.append({'what': 'does-not-terminate: the library kept the check busy beyond its CPU budget (%s)' % e,
                                         'guarded': 'whole correspondence'})
    except Exception as e:  # a crash of the harness or a shard that cannot be evaluated
        broken.append(('correspondence:%s' % prop, ''.join(traceback.format_exception_only(type(e), e))[-1500:]))
        if os.environ.get('VERIF_DEBUG'):
            traceback.print_exc()
    if not model_ok:
        broken.append(('model:%s' % ','.join(mod.MODEL_TARGETS), 'model files do not compile against the regenerated '
                                                                 'constants:\n' + log[-800:]))
    for d in corr.disagreements[:1]:
        broken.append(('correspondence:%s' % d.get('what', prop), json.dumps(d, default=repr)[:1500]))

    known, _fixed = common.load_known()
    kf = known.get(prop, {})
    classify = getattr(mod, 'classify', lambda case: None)
    unlisted = [c for c in corr.oracle_failures if classify(c) not in kf]
    listed = [c for c in corr.oracle_failures if classify(c) in kf]

    violations = 0
    lines = []
    # known findings are replayed on the implementation on every run
    for fid, text in kf.items():
        fn = getattr(mod, 'KNOWN', {}).get(fid)
        still = True
        if fn is not None:
            try:
                still = bool(fn())
            except Exception as e:
                still = True
                text += ' (replay raised %r)' % (e,)
        if still:
            lines.append('KNOWN-FINDING: property=%s %s [%s]' % (prop, text, fid))
        else:
            lines.append('NOTE: known finding %s no longer reproduces on this tree' % fid)

    blind = bool(common.HARNESS_ERRORS)      # (a failing translator does not blind the oracles: they look at the real code)
    if blind:
        # the instrumentation itself failed (a private field it reads is gone) or the model could not be regenerated from
        # the source: what the oracles saw in this run is not evidence about the library, so no failing input is
        # claimed; the tie to the code is broken and that is what is reported
        if common.HARNESS_ERRORS:
            broken.append(('harness:observation', 'the harness can no longer observe the implementation: ' +
                           '; '.join(common.HARNESS_ERRORS[:5])))
        unlisted = []
    if broken or unlisted:
        # search for a concrete failing input on the implementation
        cands = list(unlisted)
        if not cands and hasattr(mod, 'search') and not blind:
            budget = 600 if ctx.thorough else 30
            try:
                cands = [c for c in mod.search(ctx, budget) if classify(c) not in kf]
            except Exception as e:
                broken.append(('search:%s' % prop, repr(e)))
        if cands:
            case = cands[0]
            if hasattr(mod, 'shrink'):
                try:
                    case = mod.shrink(case)
                except Exception:
                    pass
            path = common.write_replay(prop, {'kind': 'failing-input', 'case': case,
                                              'broken_obligations': [b[0] for b in broken],
                                              'detail': [b[1] for b in broken][:3]})
            lines.append('VIOLATION property=%s replay=%s' % (prop, path))
        else:
            path = common.write_replay(prop, {'kind': 'no-failing-input-found',
                                              'broken_obligations': [b[0] for b in broken],
                                              'detail': [b[1] for b in broken][:5]})
            lines.append('VIOLATION property=%s replay=%s no-failing-input-found' % (prop, path))
        violations = 1

    assumptions = list(getattr(mod, 'ASSUMPTIONS', []))
    common.write_evidence(ctx, proof, corr, violations, assumptions,
                          extra_cov={'broken_obligations': [b[0] for b in broken],
                                     'known_findings_replayed': sorted(kf),
                                     'known_finding_cases_seen': len(listed),
                                     'gen_problems': [list(p) for p in gen_problems]},
                          level=getattr(mod, 'LEVEL', 'proof'))
    print('%s %s: theorems %d/%d, axioms: %s; correspondence %d cases (%d distinct non-trivial), '
          '%d disagreements, %d oracle failures (%d known); %.1fs' % (
              prop, tier, proof['discharged'], proof['obligations'], ','.join(proof['axioms']) or 'none',
              corr.evaluations, len(corr.nontrivial), len(corr.disagreements), len(corr.oracle_failures),
              len(listed), time.time() - ctx.t0))
    for b in broken:
        print('BROKEN %s: %s' % (b[0], b[1][:400].replace('\n', ' | ')))
    for ln in lines:
        print(ln)
    sys.stdout.flush()
    sys.exit(1 if violations else 0)


if __name__ == '__main__':
    main()
