"""Name-independent access to the few private fields of the library the harness has to look at.

The stream table (`_stream_control._streams`), the reassembly cache and the id cursor are read by the repository's own tests
and keep their names; everything else is found by what it IS (its type, who it is bound to), with the current name tried
first, so that a behaviour-preserving rename or re-typing of a private field does not blind the harness.  When a field cannot be
found at all the accessor raises Unobservable: the caller skips what depended on it and the check reports, without a
failing input, that it can no longer observe the implementation (common.HARNESS_ERRORS)."""
import asyncio

from harness import common


class Unobservable(Exception):
    pass


def _values(obj):
    seen = set()
    d = getattr(obj, '__dict__', None)
    if d:
        for k, v in list(d.items()):
            seen.add(k)
            yield k, v
    for cls in type(obj).__mro__:
        slots = getattr(cls, '__slots__', ()) or ()
        if isinstance(slots, str):
            slots = (slots,)
        for k in slots:
            if k not in seen and hasattr(obj, k):
                seen.add(k)
                yield k, getattr(obj, k)


def _find(obj, names, pred, what):
    for n in names:
        if hasattr(obj, n):
            return getattr(obj, n)
    hits = [(k, v) for k, v in _values(obj) if pred(v)]
    if len(hits) == 1:
        return hits[0][1]
    common.harness_error('%s of %s not found (candidates: %s)' % (what, type(obj).__name__, [k for k, _ in hits]))
    raise Unobservable(what)


def send_queue(ep):
    from rsocket.queue_peekable import QueuePeekable
    return _find(ep, ('_send_queue',), lambda v: isinstance(v, QueuePeekable), 'send queue')


def has_send_queue(ep):
    try:
        from rsocket.queue_peekable import QueuePeekable
        return hasattr(ep, '_send_queue') or any(isinstance(v, QueuePeekable) for _, v in _values(ep))
    except Exception:
        return False


def request_queue(ep):
    from rsocket.queue_peekable import QueuePeekable
    return _find(ep, ('_request_queue',), lambda v: isinstance(v, asyncio.Queue) and not isinstance(v, QueuePeekable),
                 'queue of requests waiting for a lease')


def queue_items(q):
    """the items of an asyncio.Queue / deque / list, oldest first"""
    return list(getattr(q, '_queue', q))


def next_transport(client):
    return _find(client, ('_next_transport',), lambda v: isinstance(v, asyncio.Future) and not isinstance(v, asyncio.Task),
                 'future of the next transport')


def rr_future(handler):
    return _find(handler, ('_future', 'future'), lambda v: isinstance(v, asyncio.Future) and not isinstance(v, asyncio.Task),
                 'awaitable of the request')


def wrap_done_callbacks(handler, fut, before):
    """after handler.setup(): every done-callback of `fut` that is a bound method of `handler` is replaced by a wrapper which
    calls before(f) first.  Returns how many were wrapped."""
    n = 0
    for entry in list(getattr(fut, '_callbacks', None) or []):
        cb = entry[0] if isinstance(entry, tuple) else entry
        if getattr(cb, '__self__', None) is handler:
            def wrapper(f, cb=cb):
                before(f)
                return cb(f)
            fut.remove_done_callback(cb)
            fut.add_done_callback(wrapper)
            n += 1
    return n


def channel_direction_closed(handler, which):
    """which: 'recv' | 'sent'.  True / False, or None when the handler no longer exposes it as a boolean"""
    names = {'recv': ('_received_complete',), 'sent': ('_sent_complete',)}[which]
    for n in names:
        if hasattr(handler, n):
            v = getattr(handler, n)
            if isinstance(v, bool):
                return v
    return None


def fragment_cache(ep):
    from rsocket.frame_fragment_cache import FrameFragmentCache
    return _find(ep, ('_frame_fragment_cache',), lambda v: isinstance(v, FrameFragmentCache), 'reassembly cache')


def cache_dict(cache):
    """the dict stream id -> partial frame of a FrameFragmentCache"""
    return _find(cache, ('_frames_by_stream_id',), lambda v: isinstance(v, dict), 'partial frames of the reassembly cache')


def cache_keys(ep):
    return cache_dict(fragment_cache(ep))


def frame_parser(transport):
    from rsocket.frame_parser import FrameParser
    return _find(transport, ('_frame_parser',), lambda v: isinstance(v, FrameParser), 'frame parser of the transport')


def parser_buffer(parser):
    return _find(parser, ('_buffer',), lambda v: isinstance(v, bytearray), 'buffer of the frame parser')


def incoming_queue(transport):
    return _find(transport, ('_incoming_frame_queue',), lambda v: isinstance(v, asyncio.Queue), 'incoming frame queue of the transport')
