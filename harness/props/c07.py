"""C07 — every interaction terminates at most once at the API.
Correspondence: legal random histories on a real endpoint (all interaction models, both roles, both framings, fragmented and
whole frames, every order of local actions) with the connection lost or closed at a random point (EOF, transport error,
close(), a cut in the middle of a fragmented frame); the signals the recording application receives are compared with
the model's replay.  Oracle (the property): per subscriber on_subscribe first, then elements, at most one terminal and
nothing after it; per request-response awaitable at most one resolution, and exactly one once the connection is gone."""
from harness import epcheck as E, endpoint as EP

MODEL_TARGETS = E.MODEL_TARGETS
ASSUMPTIONS = [
    'application objects (subscribers, futures, publishers) are recording doubles handed to the real endpoint; callbacks '
    'are observed on them, awaitable resolutions on the future\'s own set_result/set_exception',
    'the peer is protocol-legal: at most one terminal frame per direction and stream, no PAYLOAD after it; elements may '
    'still be in flight after a local cancel',
]
KEEP, KEYS = 'keep_signals', False


def oracle(sc):
    if not sc.legal:
        return []
    out = []
    steps = EP.steps_of_log(sc.rec.log)
    cb, fut = E.signals(steps)
    for oid, seq in cb.items():
        sigs = [s for _, s in seq]
        kind = E.kind_of(sc, oid)
        if sigs and sigs[0][0] != 'subscribe':
            out.append(E.failure('signal-before-on_subscribe', sc, oid=oid, kind=kind, signals=repr(sigs)[:300]))
        if sum(1 for s in sigs if s[0] == 'subscribe') > 1:
            out.append(E.failure('on_subscribe-twice', sc, oid=oid, kind=kind, signals=repr(sigs)[:300]))
        terms = [i for i, s in enumerate(sigs) if E.is_terminal(s)]
        if len(terms) > 1:
            out.append(E.failure('second-terminal-signal', sc, oid=oid, kind=kind, signals=repr(sigs)[:300],
                                 step=seq[terms[1]][0]))
        elif terms and terms[0] != len(sigs) - 1:
            out.append(E.failure('signal-after-terminal', sc, oid=oid, kind=kind, signals=repr(sigs)[:300],
                                 step=seq[terms[0] + 1][0]))
    for oid, seq in fut.items():
        if len(seq) > 1:
            out.append(E.failure('awaitable-resolved-twice', sc, oid=oid, resolutions=repr(seq)))
    # exactly once: when the connection is gone every awaitable handed out is done
    if sc.closed:
        for oid, m in sc.mine.items():
            if m['kind'] == 'rr' and not m['fut'].done():
                out.append(E.failure('awaitable-left-pending-after-close', sc, oid=oid, close=getattr(sc, 'close_used', None)))
    return out


def reconnect_requests(close_suspends, connect_suspends, cause):
    """a client reconnects (after EOF with on_close -> reconnect(), or on an explicit reconnect() of a live connection) while
    the old transport's close() and the new transport's connect() each take a few loop iterations; a request-response
    is issued in EVERY iteration of that window.  Each awaitable handed out must either be resolved, or belong to the new
    connection (its request frame written to the new transport)."""
    import asyncio
    from datetime import timedelta
    from harness import sim
    from rsocket.rsocket_client import RSocketClient
    from rsocket.request_handler import BaseRequestHandler
    from rsocket.payload import Payload
    loop = sim.new_loop()
    sim.patch_clock(loop)
    T = sim.make_transport_class()
    ts = [T(lenreq=True, name='a'), T(lenreq=True, connect_suspends=connect_suspends, name='b')]
    ts[0].close_suspends = close_suspends

    async def provider():
        for x in ts:
            yield x

    class H(BaseRequestHandler):
        async def on_close(self, rsocket, exception=None):
            if cause == 'eof':
                await rsocket.reconnect()
    box = {}
    futs = []
    try:
        def mk():
            box['c'] = RSocketClient(provider(), handler_factory=H, keep_alive_period=timedelta(seconds=1000),
                                     max_lifetime_period=timedelta(seconds=5000))
            asyncio.create_task(box['c'].connect())
        loop.run(mk)
        loop.settle()
        c = box['c']
        if cause == 'eof':
            ts[0].inject_eof()
        else:
            loop.run(lambda: asyncio.create_task(c.reconnect()))
        for k in range(6 + 2 * (close_suspends + connect_suspends)):
            def issue(k=k):
                try:
                    futs.append((k, c.request_response(Payload(b'r%d' % k))))
                except Exception:
                    pass
            loop.run(issue)
        loop.settle()
        sent_new = [sim.parse_sent(b) for b in ts[1].sent]
        on_new = {bytes(f.get('d') or b'') for f in sent_new if f.get('t') == 'RequestResponse'}
        lost = [k for k, f in futs if not f.done() and (b'r%d' % k) not in on_new]
        return {'issued': len(futs), 'lost': lost, 'reconnected': ts[1].connected,
                'first_new': sent_new[0]['t'] if sent_new else None}
    finally:
        loop.finish()


def reconnect_oracle():
    out = []
    for cs in (0, 1, 2, 4):
        for ns in (0, 1, 3):
            for cause in ('eof', 'explicit'):
                r = reconnect_requests(cs, ns, cause)
                if r['lost'] or not r['reconnected']:
                    out.append({'what': 'awaitable-neither-resolved-nor-on-the-new-connection', 'reconnect_case': [cs, ns, cause],
                                'detail': repr(r)})
    return out


def late_requests(role, cause, kinds):
    """requests issued at awkward moments around the loss of the connection: (a) from inside a subscriber's on_error while the
    close sweep is running (a fall-back request), (b) after the connection is gone and before close().  After close() every
    awaitable handed out must be resolved and every subscriber must have had exactly one terminal signal."""
    import asyncio
    from datetime import timedelta
    from harness import sim
    from rsocket.rsocket_client import RSocketClient
    from rsocket.rsocket_server import RSocketServer
    from rsocket.helpers import single_transport_provider
    from rsocket.payload import Payload
    from reactivestreams.subscriber import DefaultSubscriber
    loop = sim.new_loop()
    sim.patch_clock(loop)
    T = sim.make_transport_class()
    t = T(lenreq=True)
    box = {}
    futs = []          # (label, awaitable)
    subs = []          # (label, subscriber)

    class Sub(DefaultSubscriber):
        def __init__(self, label, fallback=None):
            super().__init__()
            self.label, self.fallback, self.terminals, self.signals = label, fallback, [], []
            subs.append((label, self))

        def on_subscribe(self, subscription):
            self.signals.append('subscribe')
            super().on_subscribe(subscription)

        def on_next(self, value, is_complete=False):
            self.signals.append('next')
            if is_complete:
                self.terminals.append('next-complete')

        def on_complete(self):
            self.signals.append('complete')
            self.terminals.append('complete')

        def on_error(self, exception):
            self.signals.append('error')
            self.terminals.append('error')
            if self.fallback:
                self.fallback()

    def issue(label):
        ep = box['e']
        for kind in kinds:
            try:
                if kind == 'rr':
                    futs.append((label + ':rr', ep.request_response(Payload(b'x'))))
                elif kind == 'rs':
                    ep.request_stream(Payload(b'x')).subscribe(Sub(label + ':rs'))
                else:
                    ep.request_channel(Payload(b'x')).subscribe(Sub(label + ':rc'))
            except Exception as e:      # refusing the call outright is a legitimate way of failing it
                futs.append((label + ':refused:' + type(e).__name__, None))
    try:
        def mk():
            if role == 'client':
                box['e'] = RSocketClient(single_transport_provider(t), keep_alive_period=timedelta(seconds=1000),
                                         max_lifetime_period=timedelta(seconds=5000))
                asyncio.create_task(box['e'].connect())
            else:
                box['e'] = RSocketServer(t)
        loop.run(mk)
        loop.settle()
        ep = box['e']
        loop.run(lambda: ep.request_stream(Payload(b's')).subscribe(Sub('inflight:rs', fallback=lambda: issue('in-sweep'))))
        loop.run(lambda: futs.append(('inflight:rr', ep.request_response(Payload(b'r')))))
        loop.settle()
        if cause == 'eof':
            t.inject_eof()
        elif cause == 'error':
            t.inject_error()
        else:
            loop.run(lambda: asyncio.create_task(ep.close()))
        loop.settle()
        loop.run(lambda: issue('after-loss'))
        loop.settle()
        loop.run(lambda: asyncio.create_task(ep.close()))
        loop.settle()
        pending = [l for l, f in futs if f is not None and not f.done()]
        silent = [l for l, sb in subs if len(sb.terminals) != 1 and not (l.endswith(':refused') and not sb.signals)]
        unsubscribed = [(l, sb.signals) for l, sb in subs if sb.signals and sb.signals[0] != 'subscribe']
        return {'pending': pending, 'terminals_not_one': [(l, sb.terminals) for l, sb in subs if len(sb.terminals) != 1],
                'first_signal_not_on_subscribe': unsubscribed,
                'issued': [l for l, _ in futs] + [l for l, _ in subs], 'bad': bool(pending or silent or unsubscribed)}
    finally:
        loop.finish()


def late_requests_oracle():
    out = []
    for role in ('client', 'server'):
        for cause in ('eof', 'error', 'close'):
            for kinds in (('rr',), ('rr', 'rs'), ('rs', 'rc', 'rr')):
                r = late_requests(role, cause, kinds)
                if r['bad']:
                    out.append({'what': 'request issued around the loss of the connection is left without an outcome after close()',
                                'late_case': [role, cause, list(kinds)], 'detail': repr(r)[:400]})
    return out


def _descs(ctx, n):
    return E.mk_descs(ctx.rng, n, hostile=0.0, with_close=lambda r: r.random() < 0.75, steps=(3, 16), frag=0.2,
                      close_mode=lambda r: r.choice(['eof', 'error', 'close', 'cut']), race=0.5,
                      on_close_raises=lambda r: r.random() < 0.15)


def correspond(ctx, corr, model_ok):
    from harness import battery
    battery.run(corr, ['immediate-close'])
    n = ctx.scale(220, 2500)
    runs, crashed = E.run_all(_descs(ctx, n))
    corr.oracle_failures.extend(crashed)
    for sc in runs:
        corr.oracle_failures.extend(oracle(sc))
        corr.count('closed:' + str(getattr(sc, 'close_used', 'no')))
        corr.count('fragmented', sc.fragmented)
    corr.oracle_failures.extend(reconnect_oracle())
    corr.oracle_failures.extend(late_requests_oracle())
    corr.count('requests issued inside the close sweep / after the loss, then close()', 18)
    corr.count('reconnect windows with a request per loop iteration', 24)
    if model_ok:
        E.trace_corr(corr, runs, KEEP, KEYS, 'C07 signals vs model/Endpoint.v')
    corr.rule = ('legal random histories of 3..16 application/peer actions on a real endpoint, connection lost at a random '
                 'point in 3 of 4; projection compared: awaitable resolutions and subscriber callbacks per object')
    corr.samples = [repr(EP.steps_of_log(sc.rec.log)[:3])[:400] for sc in runs[:3]]


def search(ctx, budget):
    import time
    t0 = time.time()
    found = []
    while time.time() - t0 < budget and not found:
        runs, crashed = E.run_all(_descs(ctx, 60))
        found.extend(crashed)
        for sc in runs:
            found.extend(oracle(sc))
        found.extend(reconnect_oracle())
        found.extend(late_requests_oracle())
    return found


def replay(obj):
    from harness import battery as _bat
    _r = _bat.replay(obj.get('case') if isinstance(obj.get('case'), dict) else obj)
    if _r is not None:
        return _r
    case = obj.get('case') or obj
    if 'reconnect_case' in case:
        cs, ns, cause = case['reconnect_case']
        r = reconnect_requests(cs, ns, cause)
        return bool(r['lost']) or not r['reconnected']
    if 'late_case' in case:
        role, cause, kinds = case['late_case']
        return late_requests(role, cause, tuple(kinds))['bad']
    runs, crashed = E.run_all([case['scenario']])
    return bool(crashed) or any(oracle(sc) for sc in runs)
