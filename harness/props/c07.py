"""C07 — every interaction terminates at most once at the API.
Correspondence: legal random histories on a real endpoint (all interaction models, both roles, both framings, fragmented and
whole frames, every order of local actions) with the connection lost or closed at a random point (EOF, transport error,
close(), a cut in the middle of a fragmented frame); the signals the recording application receives are compared with
the model's replay.  Oracle (the property): per subscriber on_subscribe first, then elements, at most one terminal and
nothing after it; per request-response awaitable at most one resolution, and exactly one once the connection is gone."""
from harness import epcheck as E, endpoint as EP

MODEL_TARGETS = E.MODEL_TARGETS
ASSUMPTIONS = [
    'application objects (subscribers, futures, publishers) are recording doubles handed to the real endpoint; callbacks '
    'are observed on them, awaitable resolutions on the future\'s own set_result/set_exception',
    'the peer is protocol-legal: at most one terminal frame per direction and stream, no PAYLOAD after it; elements may '
    'still be in flight after a local cancel',
]
KEEP, KEYS = 'keep_signals', False


def oracle(sc):
    if not sc.legal:
        return []
    out = []
    steps = EP.steps_of_log(sc.rec.log)
    cb, fut = E.signals(steps)
    for oid, seq in cb.items():
        sigs = [s for _, s in seq]
        kind = E.kind_of(sc, oid)
        if sigs and sigs[0][0] != 'subscribe':
            out.append(E.failure('signal-before-on_subscribe', sc, oid=oid, kind=kind, signals=repr(sigs)[:300]))
        if sum(1 for s in sigs if s[0] == 'subscribe') > 1:
            out.append(E.failure('on_subscribe-twice', sc, oid=oid, kind=kind, signals=repr(sigs)[:300]))
        terms = [i for i, s in enumerate(sigs) if E.is_terminal(s)]
        if len(terms) > 1:
            out.append(E.failure('second-terminal-signal', sc, oid=oid, kind=kind, signals=repr(sigs)[:300],
                                 step=seq[terms[1]][0]))
        elif terms and terms[0] != len(sigs) - 1:
            out.append(E.failure('signal-after-terminal', sc, oid=oid, kind=kind, signals=repr(sigs)[:300],
                                 step=seq[terms[0] + 1][0]))
    for oid, seq in fut.items():
        if len(seq) > 1:
            out.append(E.failure('awaitable-resolved-twice', sc, oid=oid, resolutions=repr(seq)))
    # exactly once: when the connection is gone every awaitable handed out is done
    if sc.closed:
        for oid, m in sc.mine.items():
            if m['kind'] == 'rr' and not m['fut'].done():
                out.append(E.failure('awaitable-left-pending-after-close', sc, oid=oid, close=getattr(sc, 'close_used', None)))
    return out


def _descs(ctx, n):
    return E.mk_descs(ctx.rng, n, hostile=0.0, with_close=lambda r: r.random() < 0.75, steps=(3, 16), frag=0.2,
                      close_mode=lambda r: r.choice(['eof', 'error', 'close', 'cut']), race=0.5,
                      on_close_raises=lambda r: r.random() < 0.15)


def correspond(ctx, corr, model_ok):
    n = ctx.scale(220, 2500)
    runs, crashed = E.run_all(_descs(ctx, n))
    corr.oracle_failures.extend(crashed)
    for sc in runs:
        corr.oracle_failures.extend(oracle(sc))
        corr.count('closed:' + str(getattr(sc, 'close_used', 'no')))
        corr.count('fragmented', sc.fragmented)
    if model_ok:
        E.trace_corr(corr, runs, KEEP, KEYS, 'C07 signals vs model/Endpoint.v')
    corr.rule = ('legal random histories of 3..16 application/peer actions on a real endpoint, connection lost at a random '
                 'point in 3 of 4; projection compared: awaitable resolutions and subscriber callbacks per object')
    corr.samples = [repr(EP.steps_of_log(sc.rec.log)[:3])[:400] for sc in runs[:3]]


def search(ctx, budget):
    import time
    t0 = time.time()
    found = []
    while time.time() - t0 < budget and not found:
        runs, crashed = E.run_all(_descs(ctx, 60))
        found.extend(crashed)
        for sc in runs:
            found.extend(oracle(sc))
    return found


def replay(obj):
    case = obj.get('case') or obj
    runs, crashed = E.run_all([case['scenario']])
    return bool(crashed) or any(oracle(sc) for sc in runs)
