"""C14 — lease.  Correspondence on the single-step virtual-time loop: a real client with honor_lease issues requests of the
four kinds at chosen virtual instants while LEASE frames (count, ttl) are injected; the order of request frames on the wire,
the lease queue and QueueFull refusals are compared with model/Lease.v.  Responder side: a real server with a lease
publisher; the LEASE frames it writes for published leases."""
from harness import internals
import asyncio
from datetime import timedelta

from harness import frames as FR, sim
from harness.common import chunks, run_coq_cases, clist, cZ, cN

MODEL_TARGETS = ['model/Lease.vo', 'corr/C14Corr.vo', 'corr/Harness.vo']
ASSUMPTIONS = [
    'datetime.now() in rsocket.lease is replaced by the virtual clock (module attribute patch from the harness)',
    'the order of request frames on the wire equals the order of send_frame calls (the sender is FIFO for first fragments)',
    'REQUEST_N / CANCEL frames of a still-queued request are not part of this property (they are C08)',
]
HEADER = ('From Coq Require Import ZArith NArith List Init.Byte.\nFrom RSV Require Import lib.Bytes model.Frame model.Setup '
          'model.Lease corr.C14Corr corr.Harness.\nImport ListNotations.\nOpen Scope N_scope.\nDefinition chk := chk14.\n')
SHARD = 150
US = 1000000
REQ_TYPES = ('RequestResponse', 'RequestFnf', 'RequestStream', 'RequestChannel')


def run_requester(script, qmax, frag):
    """script: list of ('req', kind, size, dt_us) | ('lease', n, ttl_ms, dt_us)."""
    from rsocket.rsocket_client import RSocketClient
    from rsocket.helpers import single_transport_provider
    from rsocket.payload import Payload
    from rsocket.frame import LeaseFrame
    from reactivestreams.subscriber import DefaultSubscriber
    from rsocket.request_handler import BaseRequestHandler
    loop = sim.new_loop()
    sim.patch_clock(loop)
    T = sim.make_transport_class()
    transports = [T(lenreq=True, name='t%d' % i) for i in range(4)]
    t = transports[0]
    box = {}

    async def provider():
        for x in transports:
            yield x

    class H(BaseRequestHandler):
        async def on_close(self, rsocket, exception=None):
            await rsocket.reconnect()
    try:
        def mk():
            box['c'] = RSocketClient(provider(), handler_factory=H, honor_lease=True, request_queue_size=qmax,
                                     fragment_size_bytes=(64 if frag else None),
                                     keep_alive_period=timedelta(seconds=100000), max_lifetime_period=timedelta(seconds=500000))
            asyncio.create_task(box['c'].connect())
        t0 = round(loop.time() * US)
        loop.run(mk)
        loop.settle()
        c = box['c']
        evs = []
        refused = []
        now = t0
        segments = []
        conn = 0

        def close_segment():
            wire = []
            for b in t.sent:
                d = sim.parse_sent(b)
                if d['t'] in REQ_TYPES:
                    wire.append(d['sid'])
            queue = [f.stream_id for f in internals.queue_items(internals.request_queue(c))]
            segments.append({'t0': seg_t0, 'evs': list(evs), 'sent': wire, 'queue': queue, 'refused': list(refused),
                             'sent_after': list(marks)})

        def on_wire():
            return sum(1 for b in t.sent if sim.parse_sent(b)['t'] in REQ_TYPES)
        marks = []
        seg_t0 = t0
        for step in script:
            now += step[-1]
            loop._vt = now / US
            if step[0] == 'reconnect':
                loop.settle()
                close_segment()
                t.inject_eof()
                loop.settle()
                conn += 1
                t = transports[conn]
                evs, refused, marks = [], [], []
                seg_t0 = now
                continue
            if step[0] == 'lease':
                f = LeaseFrame()
                f.number_of_requests, f.time_to_live = step[1], step[2]
                t.inject_frame(f.serialize())
                loop.settle()
                evs.append(('lease', step[1], step[2], now))
                marks.append(on_wire())
            else:
                kind, size = step[1], step[2]
                p = Payload(FR.pat(7, 0, size), b'')
                before = c._stream_control._current_stream_id

                def act():
                    try:
                        if kind == 'fnf':
                            c.fire_and_forget(p)
                        elif kind == 'rr':
                            c.request_response(p)
                        elif kind == 'rs':
                            c.request_stream(p).subscribe(DefaultSubscriber())
                        else:
                            c.request_channel(p).subscribe(DefaultSubscriber())
                        return None
                    except asyncio.QueueFull:
                        return 'full'
                r = loop.run(act)
                sid = c._stream_control._current_stream_id
                assert sid != before
                if r == 'full':
                    refused.append(sid)
                evs.append(('req', sid, now))
                loop.settle()
                marks.append(on_wire())
        loop.settle()
        close_segment()
        return segments
    finally:
        loop.finish()


def oracle_requester(r, qmax):
    """C14's clauses on the observed wire."""
    evs, sent = r['evs'], r['sent']
    if len(set(sent)) != len(sent):
        return 'a request frame was sent more than once: %s' % sent
    arrival = [e[1] for e in evs if e[0] == 'req']
    pos = {sid: i for i, sid in enumerate(arrival)}
    if any(s not in pos for s in sent):
        return 'a request frame on the wire was never requested'
    if [pos[s] for s in sent] != sorted(pos[s] for s in sent):
        return 'requests were not released in FIFO order: %s' % sent
    lost = [s for s in arrival if s not in sent and s not in r['queue'] and s not in r['refused']]
    if lost:
        return 'requests neither sent, queued nor refused: %s' % lost
    if qmax == 0 and r['refused']:
        return 'QueueFull with an unbounded queue'
    # replay the history: which requests may be on the wire at each point
    # count per lease & ttl: recompute the earliest possible send time of each sent request
    first_lease = next((i for i, e in enumerate(evs) if e[0] == 'lease'), None)
    if first_lease is None and sent:
        return 'requests sent before any LEASE arrived: %s' % sent
    # budget check: walk the events, track lease, and the number of sends that must have happened by then is unknown from
    # the wire alone; use total budget: total sent <= sum over leases of max(0, n)
    total = sum(max(0, e[1]) for e in evs if e[0] == 'lease')
    if len(sent) > total:
        return 'more requests sent (%d) than granted in total (%d)' % (len(sent), total)
    # per lease: the number of request frames on the wire is sampled after every event (virtual time only moves between
    # events), so each send is attributed to the lease in force at that moment
    marks = r.get('sent_after')
    if marks and len(marks) == len(evs):
        cur, used, prev = None, 0, 0
        for e, m in zip(evs, marks):
            now = e[-1]
            if e[0] == 'lease':
                cur, used = (e[1], e[2], now), 0
            delta = m - prev
            prev = m
            if delta <= 0:
                continue
            if cur is None:
                return 'a request was sent before the first LEASE of this connection'
            if now >= cur[2] + cur[1] * 1000:
                return ('%d request(s) sent at t=%d us under LEASE(n=%d, ttl=%d ms) received at t=%d us: its time-to-live had '
                        'elapsed' % (delta, now, cur[0], cur[1], cur[2]))
            used += delta
            if used > cur[0]:
                return ('%d requests sent under LEASE(n=%d, ttl=%d ms) received at t=%d us: more than it grants'
                        % (used, cur[0], cur[1], cur[2]))
    return None


def run_announce(leases, lenreq):
    from rsocket.rsocket_server import RSocketServer
    from rsocket.lease import LeasePublisher, DefinedLease
    loop = sim.new_loop()
    sim.patch_clock(loop)
    T = sim.make_transport_class()
    t = T(lenreq=lenreq)
    subs = []

    class Pub(LeasePublisher):
        def subscribe(self, subscriber):
            subs.append(subscriber)
    try:
        loop.run(lambda: RSocketServer(t, lease_publisher=Pub()))
        loop.settle()
        setup = FR.build({'t': 'Setup', 'sid': 0, 'ign': False, 'lease': True, 'major': 1, 'minor': 0, 'ka': 1000, 'ml': 5000,
                          'resume': None, 'mdenc': b'a/b', 'denc': b'c/d', 'md': b'', 'd': b''})
        t.inject_frame(setup.serialize())
        loop.settle()
        out = []
        for (n, ttl_us) in leases:
            before = len(t.sent)
            loop.run(lambda: subs[0].on_next(DefinedLease(maximum_request_count=n,
                                                          maximum_lease_time=timedelta(microseconds=ttl_us))))
            loop.settle()
            out.append([sim.parse_sent(b) for b in t.sent[before:]])
        return out
    finally:
        loop.finish()


def oracle_announce(n, ttl_us, frames):
    if len(frames) != 1 or frames[0]['t'] != 'Lease':
        return 'published lease not announced by exactly one LEASE frame: %s' % [f['t'] for f in frames]
    f = frames[0]
    if f['sid'] != 0:
        return 'LEASE on stream %d' % f['sid']
    if f['n'] != n:
        return 'announced count %d for a published count %d' % (f['n'], n)
    if (ttl_us % 1000 == 0 and f['ttl'] != ttl_us // 1000) or abs(1000 * f['ttl'] - ttl_us) > 500:
        return 'announced ttl %d ms for a published ttl of %d us' % (f['ttl'], ttl_us)
    return None


def _script(rng):
    n = rng.randint(1, 14)
    out = []
    for _ in range(n):
        dt = rng.choice([0, 1, 10, 999, 1000, 1001, 5000, 1000000])
        if rng.random() < 0.07 and sum(1 for x in out if x[0] == 'reconnect') < 3:
            out.append(('reconnect', dt))
        elif rng.random() < 0.35:
            out.append(('lease', rng.choice([0, 0, 1, 1, 2, 3, 5, 100, 0x7FFFFFFF]), rng.choice([0, 1, 1, 2, 5, 1000, 0x7FFFFFFF]), dt))
        else:
            out.append(('req', rng.choice(['fnf', 'rr', 'rs', 'rc']), rng.choice([0, 5, 40, 200]), dt))
    return out


def _one_segment(r, script, qmax, frag, corr, items):
    if r['sent']:
        corr.count('requester:some-sent')
    if r['queue']:
        corr.count('requester:some-left-queued')
    if r['refused']:
        corr.count('requester:queue-full')
    if r['sent'] and (r['queue'] or r['refused'] or len(r['sent']) > 1):
        corr.nontriv(('rq', tuple(script), qmax, frag, r['t0']))
    o = oracle_requester(r, qmax)
    if o:
        corr.oracle_failures.append({'what': o, 'kind': 'requester', 'script': script, 'qmax': qmax, 'frag': frag})
    evs = clist(['ELease %s %s %s' % (cZ(e[1]), cZ(e[2]), cZ(e[3])) if e[0] == 'lease'
                 else 'EReq %s %s' % (cN(e[1]), cZ(e[2])) for e in r['evs']])
    items.append(('CRequester %s %d%%nat %s %s %s %s' % (cZ(r['t0']), qmax, evs, clist([cN(x) for x in r['sent']]),
                                                     clist([cN(x) for x in r['queue']]), clist([cN(x) for x in r['refused']])),
                  {'kind': 'requester', 'script': script, 'qmax': qmax, 'frag': frag, 'impl': r}))
    if len(corr.samples) < 3 and r['sent'] and r['queue']:
        corr.samples.append({'script': script, 'qmax': qmax, 'sent_ids': r['sent'], 'queued_ids': r['queue'],
                             'refused_ids': r['refused']})


def correspond(ctx, corr, model_ok):
    from harness import battery
    battery.run(corr, ['lease-queue-across-reconnect'])
    corr.oracle_failures.extend(server_requester_oracle())
    corr.count('server endpoint as lease-honouring requester', 2)
    rng = ctx.rng
    items = []
    for i in range(ctx.scale(250, 4000)):
        script = _script(rng)
        qmax = rng.choice([0, 0, 1, 2, 3])
        frag = rng.random() < 0.4
        segs = run_requester(script, qmax, frag)
        corr.count('requester:reconnects=%d' % (len(segs) - 1))
        for r in segs:
            corr.evaluations += 1
            corr.count('requester:qmax=%d' % qmax)
            corr.count('requester:%s' % ('fragmented' if frag else 'unfragmented'))
            if r is not segs[0] and r['evs']:
                corr.count('requester:events-after-reconnect')
            _one_segment(r, script, qmax, frag, corr, items)
    # responder
    for _ in range(ctx.scale(15, 200)):
        leases = [(rng.choice([0, 1, 5, 1000, 0x7FFFFFFF]),
                   rng.choice([0, 1000, 500000, 1500, 2500, 999, 60000000, 86400000000 * 2 + 5000000, rng.randrange(0, 10 ** 9)]))
                  for _ in range(rng.randint(1, 4))]
        out = run_announce(leases, rng.random() < 0.5)
        for (n, ttl), frames in zip(leases, out):
            corr.evaluations += 1
            corr.count('announce')
            corr.nontriv(('ann', n, ttl))
            o = oracle_announce(n, ttl, frames)
            if o:
                corr.oracle_failures.append({'what': o, 'kind': 'announce', 'n': n, 'ttl_us': ttl})
            if len(frames) == 1 and frames[0]['t'] == 'Lease':
                items.append(('CAnnounce %s %s %s' % (cN(n), cZ(ttl), FR.coq_frame(frames[0])),
                              {'kind': 'announce', 'n': n, 'ttl_us': ttl, 'impl': frames}))
            else:
                corr.disagreements.append({'what': 'lease announcement outside the model', 'n': n, 'ttl_us': ttl, 'impl': frames})
    corr.rule = ('requester: random histories of 1..14 events: requests of the four kinds (payloads 0..200 bytes, with and without '
                 'fragmentation), LEASE frames with counts 0/1/2/3/5/100/2^31-1 and ttl 0/1/2/5/1000/2^31-1 ms, and connection '
                 'loss + reconnect (each connection is compared from a fresh lease state), separated by 0 us .. 1 s of virtual time '
                 '(so requests land exactly on / around expiry), request queue unbounded or bounded 1..3; non-trivial = something '
                 'was sent and something was queued, refused or several sent. responder: published leases with whole-ms, sub-ms, '
                 'multi-day ttl')
    if not model_ok:
        return
    shards = ['Definition cases : list case14 := [\n' + ';\n'.join(x[0] for x in ch) + '\n].'
              for ch in chunks(items, SHARD)]
    out = run_coq_cases(shards, HEADER, timeout=600)
    for si, (n, nf, idx) in enumerate(out):
        for i in idx:
            corr.disagreements.append(dict(items[si * SHARD + i][1], what='lease: implementation vs model/Lease.v'))


def search(ctx, budget_s):
    from harness.common import CorrResult
    c = CorrResult()
    correspond(ctx, c, False)
    return c.oracle_failures[:1]


def replay(obj):
    from harness import battery as _bat
    _r = _bat.replay(obj.get('case') if isinstance(obj.get('case'), dict) else obj)
    if _r is not None:
        return _r
    case = obj['case']
    if case['kind'] == 'server-requester':
        return bool(server_requester_oracle())
    if case['kind'] == 'requester':
        script = [tuple(s) for s in case['script']]
        o = None
        for seg in run_requester(script, case['qmax'], case['frag']):
            o = o or oracle_requester(seg, case['qmax'])
    else:
        out = run_announce([(case['n'], case['ttl_us'])], True)
        o = oracle_announce(case['n'], case['ttl_us'], out[0])
    if o:
        print('oracle:', o)
    return bool(o)


# ---------------------------------------------------------------------------------------------
# a SERVER endpoint as requester honouring leases (honor_lease=True on RSocketServer): the same rules as for a client

def run_server_requester(lenreq):
    from rsocket.rsocket_server import RSocketServer
    from rsocket.payload import Payload
    from reactivestreams.subscriber import DefaultSubscriber
    loop = sim.new_loop()
    sim.patch_clock(loop)
    T = sim.make_transport_class()
    t = T(lenreq=lenreq)
    box = {}
    try:
        loop.run(lambda: box.setdefault('s', RSocketServer(t, honor_lease=True)))
        loop.settle()
        s = box['s']

        def issue():
            s.request_response(Payload(b'q1'))
            s.fire_and_forget(Payload(b'q2'))
            s.request_stream(Payload(b'q3')).subscribe(DefaultSubscriber())
            s.request_channel(Payload(b'q4')).subscribe(DefaultSubscriber())
        loop.run(issue)
        loop.settle()
        stages = []

        def reqs():
            return [bytes(f.get('d') or b'') for f in (sim.parse_sent(b) for b in t.sent) if f['t'].startswith('Request') and f['t'] != 'RequestN']
        stages.append(reqs())
        t.inject_frame(FR.build({'t': 'Lease', 'sid': 0, 'ign': False, 'ttl': 60000, 'n': 2, 'md': b''}).serialize())
        loop.settle()
        stages.append(reqs())
        t.inject_frame(FR.build({'t': 'Lease', 'sid': 0, 'ign': False, 'ttl': 60000, 'n': 5, 'md': b''}).serialize())
        loop.settle()
        stages.append(reqs())
        return stages
    finally:
        loop.finish()


def server_requester_oracle():
    out = []
    for lenreq in (True, False):
        st = run_server_requester(lenreq)
        want = [[], [b'q1', b'q2'], [b'q1', b'q2', b'q3', b'q4']]
        if st != want:
            out.append({'what': 'server endpoint with honor_lease=True: requests on the wire before a lease / after LEASE(2) / after LEASE(5): '
                                '%s, expected %s' % (st, want), 'kind': 'server-requester', 'server_requester_case': lenreq})
    return out
