"""C01 — end-to-end payload delivery and request/response correlation.
Correspondence: a real RSocketClient and a real RSocketServer on one single-step loop, joined by a link the harness controls
(harness/net.py): random mixes of concurrent interactions of the five models started by either side, payloads from 0 bytes
to many fragments, fragment size 64 / 100 / none per endpoint, byte-stream framing with arbitrary read chunking (single
bytes, cuts inside the length prefix, several frames per read) and message framing, futures resolved late, publishers
emitting one element per step or in bursts.  Per direction, inside Coq: the complete frames the real receiver handed to
dispatch = model/Pipeline.v `receive` of the chunks it read, and stream by stream = `expected_rx` of the frames the real
sender queued.  Oracle (the property): every non-empty payload handed to the library is delivered exactly once, byte for
byte (data and metadata), in order within its stream, to the handler / subscriber / awaitable of its own interaction."""
from harness import internals
import random

from harness import frames as FR, net as NET
from harness.common import run_coq_cases, clist, cN, cbool, cbytes, copt

MODEL_TARGETS = ['model/Pipeline.vo', 'corr/C01Corr.vo', 'corr/Harness.vo', 'model/SendQueue.vo', 'model/Parser.vo',
                 'model/Fragmenter.vo', 'model/Endpoint.vo', 'model/Network.vo', 'corr/NetworkCorr.vo']
ASSUMPTIONS = [
    'the link is reliable and ordered (TCP / websocket): the harness delays and re-chunks, it never loses or reorders bytes',
    'applications are recording doubles; a payload whose data and metadata are both empty is excluded (the library\'s '
    '"no element")',
    'no cancellation and no application errors in these runs (C09 / C07 / C10 cover those endings)',
]
HEADER = ('From Coq Require Import NArith List Bool Init.Byte.\nFrom RSV Require Import lib.Bytes model.Frame model.Pipeline '
          'corr.C01Corr corr.Harness.\nImport ListNotations.\nOpen Scope N_scope.\nDefinition chk := chk01 Cbit.\n')
SIZES = [0, 1, 10, 40, 57, 58, 59, 64, 100, 130, 200, 420]


def payload_bytes(seed, tag, size):
    return tag + FR.pat(seed, 0, size)


class Run:
    def __init__(self, desc):
        self.desc = desc
        self.rng = random.Random(desc['seed'])
        self.net = NET.Net(desc['lenreq'], desc['frag_client'], desc['frag_server'], lease=desc.get('lease', False))
        if desc.get('gated'):
            # blocked writers: frames pile up in the send queues and leave when the harness grants permits
            for side in ('client', 'server'):
                self.net.t[side].gated = True
                self.net.t[side].permit(2)        # SETUP / first frames
        self.queued = {'client': [], 'server': []}
        self.k = 0
        self.inter = []           # interactions
        self.failures = []
        for side in ('client', 'server'):
            self._wrap_send(side)

    def _wrap_send(self, side):
        ep = self.net.ep[side]
        log = self.queued[side]
        orig = ep.send_frame

        def send_frame(frame):
            log.append(FR.describe(frame))
            return orig(frame)
        ep.send_frame = send_frame

    # ---- payloads
    def new_payload(self, kind):
        from rsocket.payload import Payload
        self.k += 1
        rng = self.rng
        tag = b'%s%d|' % (kind.encode(), self.k)
        if kind in ('E', 'U', 'R') and rng.random() < 0.15:
            # an element that is metadata only (data empty): still an element, only "both empty" means none
            md = payload_bytes(self.k + 1000, b'M' + tag, rng.choice([0, 5, 70]))
            return Payload(b'', md), (md, b'')
        size = rng.choice(SIZES)
        if rng.random() < 0.25:
            # total data length an exact multiple (2..4) of a fragment body size (fragment size 64 / 100, with / without the
            # 3-byte length prefix), and one byte either side of it
            total = rng.choice([2, 2, 3, 4]) * rng.choice([55, 58, 91, 94]) + rng.choice([0, 0, 0, -1, 1])
            size = max(0, total - len(tag))
        d = payload_bytes(self.k, tag, size)
        md = b'' if rng.random() < 0.6 else payload_bytes(self.k + 1000, b'M' + tag, rng.choice([0, 5, 70, 150]))
        return Payload(d, md), (md, d)

    # ---- starting interactions
    def start(self):
        from rsocket.payload import Payload
        rng = self.rng
        side = rng.choice(['client', 'server'])
        kind = rng.choice(['rr', 'rs', 'rc', 'fnf', 'push', 'rr', 'rs'])
        ep = self.net.ep[side]
        it = {'side': side, 'kind': kind, 'done': False}
        if kind == 'push':
            self.k += 1
            md = payload_bytes(self.k, b'push%d|' % self.k, rng.choice([0, 10, 100]))
            it['req'] = (md, b'')
            self.net.act(lambda: ep.metadata_push(md))
            it['done'] = True
        else:
            p, it['req'] = self.new_payload(kind)
            if kind == 'fnf':
                self.net.act(lambda: ep.fire_and_forget(p))
                it['done'] = True
            elif kind == 'rr':
                _, it['resp'] = self.new_payload('R')
                box = {}
                self.net.act(lambda: box.setdefault('f', ep.request_response(p)))
                it['fut'] = box['f']
            elif kind == 'rs':
                it['down'] = [self.new_payload('E')[1] for _ in range(rng.choice([0, 1, 2, 3, 5]))]
                it['down_style'] = rng.choice(['flag', 'separate'])
                it['sub'] = NET.RecSub(None, None)
                self.net.act(lambda: ep.request_stream(p).subscribe(it['sub']))
                it['down_sent'] = 0
            else:
                it['down'] = [self.new_payload('E')[1] for _ in range(rng.choice([0, 1, 2, 4]))]
                it['up'] = [self.new_payload('U')[1] for _ in range(rng.choice([0, 1, 2, 4]))]
                it['down_style'] = rng.choice(['flag', 'separate'])
                it['up_style'] = rng.choice(['flag', 'separate'])
                it['sub'] = NET.RecSub(None, None)
                it['pub'] = NET.RecPub(None, None)
                self.net.act(lambda: ep.request_channel(p, it['pub']).subscribe(it['sub']))
                it['down_sent'] = 0
                it['up_sent'] = 0
        self.inter.append(it)

    # ---- progress of an interaction (its responder exists once the request has been delivered and handled)
    def _emit(self, subscriber, items, idx, style):
        from rsocket.payload import Payload
        md, d = items[idx]
        last = idx == len(items) - 1
        flag = last and style == 'flag'
        self.net.act(lambda: subscriber.on_next(Payload(d, md), flag))
        return flag

    def progress(self, it, force=False):
        """one step of the application on either side of interaction it; returns True if something was done"""
        from rsocket.payload import Payload
        if it['done']:
            return False
        peer = self.net.apps[self.net.other(it['side'])]
        key = it['req'][1]
        kind = it['kind']
        if kind == 'rr':
            f = peer.futures.get(key)
            if f is not None and not f.done():
                md, d = it['resp']
                self.net.act(lambda: f.set_result(Payload(d, md)))
                return True
            if it['fut'].done():
                it['done'] = True
            return False
        did = False
        # responder -> requester direction
        pub = peer.pubs.get(key)
        if pub is not None and pub.subscriber is not None and not it.get('down_done'):
            if it['down_sent'] < len(it['down']):
                burst = self.rng.choice([1, 1, 2, 5])
                for _ in range(burst):
                    if it['down_sent'] >= len(it['down']) or it.get('down_done'):
                        break
                    if self._emit(pub.subscriber, it['down'], it['down_sent'], it['down_style']):
                        it['down_done'] = True
                    it['down_sent'] += 1
            else:
                self.net.act(lambda: pub.subscriber.on_complete())
                it['down_done'] = True
            did = True
        # requester -> responder direction of a channel
        held = False
        if kind == 'rc' and self.net.lease is not None and not it.get('request_left'):
            # known finding KF-C01-lease-channel-elements-before-request: while the REQUEST_CHANNEL is held back for want of a
            # lease the publisher's elements would overtake it; the random runs wait (the finding has its own replay)
            it['request_left'] = any(q['t'] == 'RequestChannel' and q.get('d') == it['req'][1][:len(q.get('d') or b'')]
                                     and q.get('d') for q in self.queued[it['side']])
            held = not it['request_left']
        if kind == 'rc' and not held and it['pub'].subscriber is not None and not it.get('up_done') and \
                (force or self.rng.random() < 0.7):
            s = it['pub'].subscriber
            if it['up_sent'] < len(it['up']):
                if self._emit(s, it['up'], it['up_sent'], it['up_style']):
                    it['up_done'] = True
                it['up_sent'] += 1
            else:
                self.net.act(lambda: s.on_complete())
                it['up_done'] = True
            did = True
        if it.get('down_done') and (kind == 'rs' or it.get('up_done')):
            it['done'] = True
        return did

    def grant(self, n):
        """a new lease is granted when nothing is in flight, so that what was sent under the previous lease has been counted
        against it on both sides"""
        net = self.net
        net.flush(self.rng)
        if net.lease.subscriber is None:
            return
        net.act(lambda: net.lease.grant(n))
        self.leases = getattr(self, 'leases', 0) + 1

    def run(self):
        rng = self.rng
        net = self.net
        try:
            budget = self.desc['interactions']
            if net.lease is not None:
                net.flush(rng)          # SETUP (with the lease flag) reaches the server
            for _ in range(self.desc['steps']):
                x = rng.random()
                if net.lease is not None and rng.random() < 0.12:
                    self.grant(rng.choice([1, 1, 2, 3]))
                elif x < 0.25 and budget > 0:
                    self.start()
                    budget -= 1
                elif x < 0.55:
                    live = [it for it in self.inter if not it['done']]
                    if live:
                        self.progress(rng.choice(live))
                elif self.desc.get('gated') and x < 0.75:
                    net.t[rng.choice(['client', 'server'])].permit(rng.choice([1, 1, 2, 3, 8]))
                    net.loop.settle()
                else:
                    to = rng.choice(['client', 'server'])
                    p = net.t[net.other(to)].pending()
                    if p:
                        n = rng.choice([1, 1, 1, 2, 3, 4, 7, 9, 30, 64, 65, 300, p]) if net.lenreq else rng.choice([1, 1, 2, 3])
                        net.deliver(to, max(1, min(n, p)))
            # drain: everything still planned happens, everything queued is written, everything written is delivered
            idle = 0
            for _ in range(6000):
                if self.desc.get('gated'):
                    for side in ('client', 'server'):
                        net.t[side].permit(rng.choice([1, 2, 5]))
                    net.loop.settle()
                net.flush(rng)
                if net.lease is not None and len(internals.queue_items(internals.request_queue(net.ep['client']))):
                    self.grant(rng.choice([1, 2, 1000]))
                    continue
                moved = False
                for it in [i for i in self.inter if not i['done']]:
                    moved = self.progress(it, force=True) or moved
                busy = moved or any(net.t[s].pending() for s in ('client', 'server')) or \
                    any(not internals.send_queue(net.ep[s]).empty() for s in ('client', 'server'))
                idle = 0 if busy else idle + 1
                if idle >= 3:
                    break
            net.flush(rng)
            self.check()
        finally:
            self.result = {'queued': self.queued, 'chunks': net.chunks, 'dispatched': net.dispatched,
                           'open': {s: sorted(net.ep[s]._stream_control._streams) for s in ('client', 'server')},
                           'escaped': list(net.loop.exceptions)}
            net.finish()
        return self

    # ---- the property
    def fail(self, what, **kw):
        d = {'what': what, 'run': self.desc}
        d.update(kw)
        self.failures.append(d)

    def check(self):
        net = self.net
        kinds = {'rr': 'rr', 'rs': 'rs', 'rc': 'rc', 'fnf': 'fnf', 'push': 'push'}
        for side in ('client', 'server'):
            mine = [it for it in self.inter if it['side'] == net.other(side)]
            seen = net.apps[side].seen
            want = sorted((kinds[it['kind']],) + it['req'] for it in mine)
            got = sorted(seen)
            if want != got:
                missing = [w for w in want if w not in got]
                extra = [g for g in got if g not in want]
                self.fail('requests-seen-by-handlers', side=side, missing=repr(missing)[:300], extra=repr(extra)[:300],
                          duplicates=len(got) - len(set(got)))
            # arrival order of requests follows the order in which the peer issued them (stream ids grow)
        for n, it in enumerate(self.inter):
            kind = it['kind']
            if kind == 'rr':
                f = it['fut']
                if not f.done():
                    self.fail('response-never-arrived', interaction=n)
                elif f.cancelled() or f.exception() is not None:
                    self.fail('request-failed', interaction=n, outcome=repr(f))
                else:
                    r = f.result()
                    got = (bytes(r.metadata or b''), bytes(r.data or b''))
                    if got != it['resp']:
                        self.fail('wrong-response', interaction=n, expected=repr(it['resp'])[:200], got=repr(got)[:200])
            elif kind in ('rs', 'rc'):
                self._check_sub('down', n, it, it['sub'].events, it['down'], it['down_style'])
                if kind == 'rc':
                    peer = net.apps[net.other(it['side'])]
                    s = peer.subs.get(it['req'][1])
                    if s is None:
                        self.fail('channel-handler-never-ran', interaction=n)
                    else:
                        self._check_sub('up', n, it, s.events, it['up'], it['up_style'])

    def _check_sub(self, which, n, it, events, items, style):
        want = []
        for i, (md, d) in enumerate(items):
            last = i == len(items) - 1
            want.append(('next', md, d, last and style == 'flag'))
        if not items or style == 'separate':
            want.append(('complete',))
        if events != want:
            self.fail('subscriber-saw-something-else', interaction=n, direction=which, kind=it['kind'],
                      expected=repr([(e[0],) + tuple(x[:12] if isinstance(x, bytes) else x for x in e[1:]) for e in want])[:400],
                      got=repr([(e[0],) + tuple(x[:12] if isinstance(x, bytes) else x for x in e[1:]) for e in events])[:400])


def classify(case):
    run = case.get('run') or {}
    if run.get('lease') and case.get('what') == 'subscriber-saw-something-else' and case.get('kind') == 'rc' \
            and case.get('direction') == 'up':
        return 'KF-C01-lease-channel-elements-before-request'
    return None


def known_lease_channel():
    """client honouring leases, no lease yet: request_channel with a publisher that emits at once; the PAYLOAD goes out
    before the held REQUEST_CHANNEL and the responder drops it"""
    from rsocket.payload import Payload
    net = NET.Net(True, None, None, lease=True)
    try:
        net.flush()
        ep = net.ep['client']
        pub, sub = NET.RecPub(None, None), NET.RecSub(None, None)
        net.act(lambda: ep.request_channel(Payload(b'req'), pub).subscribe(sub))
        net.act(lambda: pub.subscriber.on_next(Payload(b'first element'), False))
        net.flush()
        net.act(lambda: net.lease.grant(5))
        net.flush()
        s = net.apps['server'].subs.get(b'req')
        return s is not None and ('next', b'', b'first element', False) not in s.events
    finally:
        net.finish()


KNOWN = {'KF-C01-lease-channel-elements-before-request': known_lease_channel}


def _run(d):
    """one end-to-end run; a slice of the runs has the library's frame logging switched on (payloads are binary)"""
    from harness.common import debug_logging
    with debug_logging(d.get('debug_log', False)):
        return Run(d).run()


def mk_descs(rng, n):
    out = []
    for _ in range(n):
        out.append({'seed': rng.randrange(1 << 30), 'lenreq': rng.random() < 0.65,
                    'frag_client': rng.choice([None, 64, 64, 100]), 'frag_server': rng.choice([None, 64, 64, 100]),
                    'interactions': rng.randint(2, 8), 'steps': rng.randint(20, 120), 'lease': rng.random() < 0.25, 'gated': rng.random() < 0.45})
        out[-1]['debug_log'] = random.Random(out[-1]['seed'] ^ 0x5EED).random() < 0.15
    return out


def coq_cases(run):
    """two cases per run: client->server and server->client"""
    env = FR.Env()
    out = []
    r = run.result
    seeds = list(range(1, run.k + 1)) + list(range(1001, 1001 + run.k + 1))
    for s in seeds:
        env.add_pat(s, 420)
    for src, dst, frag in (('client', 'server', run.desc['frag_client']), ('server', 'client', run.desc['frag_server'])):
        queued = list(r['queued'][src])
        disp = [d for d in r['dispatched'][dst] if d.get('sid')]
        chunks = r['chunks'][dst]
        # stream 0 traffic (SETUP, KEEPALIVE, METADATA_PUSH) is compared too through `receive`
        disp_all = r['dispatched'][dst]
        lenreq = run.desc['lenreq']
        txt = '(%s, %s, %s, %s, %s)' % (
            copt(frag, cN), cbool(lenreq), clist([FR.coq_frame(q, env) for q in queued]),
            clist([FR.pbytes(c, env) for c in chunks]) if lenreq else '[]',
            clist([FR.coq_frame(d, env) for d in disp_all]))
        if lenreq:
            # `receive` yields every frame; the per-stream comparison filters by the stream ids of queued/dispatched
            pass
        out.append(txt)
    return out


def correspond(ctx, corr, model_ok):
    from harness import battery
    battery.run(corr, ['reconnect-producers-wire', 'endpoint-reads', 'gated-responder-error'])
    n = ctx.scale(80, 900)
    descs = mk_descs(ctx.rng, n)
    cases = []
    for d in descs:
        run = _run(d)
        corr.oracle_failures.extend(run.failures)
        if run.result['escaped']:
            corr.oracle_failures.append({'what': 'exception-escaped', 'run': d, 'detail': run.result['escaped'][:2]})
        corr.count('framing:' + ('stream' if d['lenreq'] else 'message'))
        corr.count('with lease', 1 if d.get('lease') else 0)
        corr.count('blocked writers', 1 if d.get('gated') else 0)
        corr.count('interactions', len(run.inter))
        for it in run.inter:
            corr.count('%s started by %s' % (it['kind'], it['side']))
        corr.count('chunks read', sum(len(v) for v in run.result['chunks'].values()))
        corr.nontriv((d['seed'],))
        for c in coq_cases(run):
            cases.append((c, d))
    corr.oracle_failures.extend(reconnect_oracle())
    corr.count('reconnect with a stale partial frame', 4)
    nets = network_runs(ctx, corr)
    corr.traces = len(descs) + len(nets)
    corr.rule = ('random concurrent mixes of 1..6 interactions of the five models from either side, payload sizes 0..420 bytes, '
                 'fragment sizes none/64/100 per endpoint, byte-stream framing re-chunked at random (1 byte .. everything) or '
                 'message framing, late futures and paced publishers; two Coq cases (one per direction) per run.  Network level: '
                 'two RECORDED real endpoints with the harness as the per-stream FIFO link (random requests of all five models from '
                 'both sides, deliveries with streams overtaking each other, publisher signals, answers, cancels, request-n, '
                 'raising handlers, loss of one side), replayed through net_run of model/Network.v in Coq')
    corr.samples = [c[0][:300] for c in cases[:2]]
    if not model_ok:
        return
    SH = 20
    shards = ['Definition cases : list case01 := [\n' + ';\n'.join(x[0] for x in cases[i:i + SH]) + '\n].'
              for i in range(0, len(cases), SH)]
    out = run_coq_cases(shards, HEADER, timeout=1200)
    for si, (m, nf, idx) in enumerate(out):
        corr.evaluations += m
        for i in idx:
            corr.disagreements.append({'what': 'end-to-end pipeline vs model/Pipeline.v', 'run': cases[si * SH + i][1],
                                       'direction': 'client->server' if (si * SH + i) % 2 == 0 else 'server->client'})
    network_corr(ctx, corr, nets)


NET_HEADER = ('From Coq Require Import NArith List Bool Init.Byte.\nFrom RSV Require Import lib.Bytes model.Frame model.Endpoint '
              'model.Network corr.NetworkCorr corr.Harness.\nImport ListNotations.\nOpen Scope N_scope.\n'
              'Definition chk := chk_net.\n')


def network_runs(ctx, corr):
    """two recorded real endpoints with the harness as the link (harness/netrec.py): oracle now, Coq replay later"""
    from harness import netrec
    nets = []
    for _ in range(ctx.scale(120, 2500)):
        n = netrec.run_one(ctx.rng.randrange(1 << 30))
        nets.append(n)
        corr.nontriv(('net', n.desc['seed']))
        corr.oracle_failures.extend(netrec.oracle(n))
        corr.count('network histories')
        corr.count('network steps', len(n.hist))
        for h in n.hist:
            corr.count('network:' + ('deliver' if h[1][0] == 'recv' else h[1][0]))
        corr.count('network: frames still under way at the end', len(n.link['A']) + len(n.link['B']))
    return nets


def network_corr(ctx, corr, nets, exact=True):
    SH = 60
    cases = [n.coq_case() for n in nets]
    shards = ['Definition cases : list case_net := [\n' + ';\n'.join(cases[i:i + SH]) + '\n].' for i in range(0, len(cases), SH)]
    out = run_coq_cases(shards, NET_HEADER, timeout=1200)
    for si, (m, nf, idx) in enumerate(out):
        corr.evaluations += m
        for i in idx:
            n = nets[si * SH + i]
            corr.disagreements.append({'what': 'two recorded endpoints vs model/Network.v (net_run replayed on the recorded history)',
                                       'run': n.desc, 'kind': 'network',
                                       'note': 'an event\'s effects, a delivered frame or the final content of a link differs'})
    if not exact:
        return
    # on how many of the recorded REAL histories are the premises of C01_network_exactly_once met (listening throughout, link
    # drained, something with content delivered)?  counted inside Coq with the decidable form of the premise; the
    # conclusion is recomputed on those pairs (a failure there would contradict the theorem, or mean the build is stale)
    hdr = NET_HEADER.replace('Definition chk := chk_net.', 'Definition chk := exact_vacuous.')
    met = sum(nf for (m, nf, idx) in run_coq_cases(shards, hdr, timeout=1200))      # chk = 'met nowhere'
    corr.count('network histories meeting the premises of C01_network_exactly_once on some stream', met)
    hdr = NET_HEADER.replace('Definition chk := chk_net.', 'Definition chk := exact_conclusion.')
    for si, (m, nf, idx) in enumerate(run_coq_cases(shards, hdr, timeout=1200)):
        for i in idx:
            corr.disagreements.append({'what': 'C01_network_exactly_once recomputed on a recorded history: conclusion fails',
                                       'run': nets[si * SH + i].desc, 'kind': 'network'})


def search(ctx, budget):
    import time
    t0 = time.time()
    found = []
    while time.time() - t0 < budget and not found:
        for d in mk_descs(ctx.rng, 20):
            run = _run(d)
            found.extend(run.failures)
        found.extend(reconnect_oracle())
        from harness import netrec
        for _ in range(40):
            found.extend(netrec.oracle(netrec.run_one(ctx.rng.randrange(1 << 30))))
    return found


def replay(obj):
    from harness import battery as _bat
    _r = _bat.replay(obj.get('case') if isinstance(obj.get('case'), dict) else obj)
    if _r is not None:
        return _r
    case = obj.get('case') or obj
    if 'reconnect_case' in case:
        return bool(reconnect_oracle())
    if case.get('kind') == 'network':
        from harness import netrec
        r = dict(case['run'])
        return bool(netrec.oracle(netrec.run_one(r.pop('seed'), **r)))
    run = _run(case['run'])
    return bool(run.failures)


# ---------------------------------------------------------------------------------------------
# a connection is lost in the middle of an inbound fragment train; on the next connection the same stream id carries a
# new interaction: nothing of the old train may leak into it

def reconnect_stale_partial(kind, lenreq=True):
    import asyncio
    from datetime import timedelta
    from harness import sim
    from rsocket.rsocket_client import RSocketClient
    from rsocket.request_handler import BaseRequestHandler
    from rsocket.payload import Payload
    loop = sim.new_loop()
    sim.patch_clock(loop)
    T = sim.make_transport_class()
    ts = [T(lenreq=lenreq, name='t1'), T(lenreq=lenreq, name='t2')]
    seen = []
    futs = []

    async def provider():
        for t in ts:
            yield t

    class H(BaseRequestHandler):
        async def request_response(self, payload):
            seen.append(('rr', bytes(payload.data or b'')))
            f = loop.create_future()
            futs.append(f)
            return f

        async def request_fire_and_forget(self, payload):
            seen.append(('fnf', bytes(payload.data or b'')))

        async def on_close(self, rsocket, exception=None):
            await rsocket.reconnect()
    box = {}

    def frags(fr):
        o = FR.build(fr)
        o.fragment_size_bytes = 64
        out = []
        for _ in range(100):
            g = o.get_next_fragment(lenreq)
            if g is None:
                break
            out.append(g.serialize())
        return out
    try:
        def mk():
            box['c'] = RSocketClient(provider(), handler_factory=H, keep_alive_period=timedelta(seconds=100000),
                                     max_lifetime_period=timedelta(seconds=500000))
            asyncio.create_task(box['c'].connect())
        loop.run(mk)
        loop.settle()
        c = box['c']
        res = {}
        if kind == 'peer-request':
            # the server's fragmented request is cut off after its first fragments
            old = {'t': 'RequestResponse', 'sid': 2, 'ign': False, 'follows': False, 'md': b'', 'd': b'OLD' + b'o' * 200}
            for b in frags(old)[:2]:
                ts[0].inject_frame(b)
            loop.settle()
        else:
            # my own request: the fragmented response is cut off after its first fragments
            box['f'] = None
            loop.run(lambda: box.__setitem__('f', c.request_response(Payload(b'first'))))
            loop.settle()
            old = {'t': 'Payload', 'sid': 1, 'ign': False, 'follows': False, 'complete': True, 'next': True, 'md': b'',
                   'd': b'OLD' + b'o' * 200}
            for b in frags(old)[:2]:
                ts[0].inject_frame(b)
            loop.settle()
        ts[0].inject_eof()
        loop.settle()
        res['reconnected'] = ts[1].connected
        if kind == 'peer-request':
            new = {'t': 'RequestFnf', 'sid': 2, 'ign': False, 'follows': False, 'md': b'', 'd': b'NEW' + b'n' * 150}
            for b in frags(new):
                ts[1].inject_frame(b)
            loop.settle()
            res['seen'] = list(seen)
            res['ok'] = seen == [('fnf', b'NEW' + b'n' * 150)]
        else:
            loop.run(lambda: box.__setitem__('g', c.request_response(Payload(b'second'))))
            loop.settle()
            sid = [sim.parse_sent(b) for b in ts[1].sent if sim.parse_sent(b)['t'] == 'RequestResponse'][-1]['sid']
            new = {'t': 'Payload', 'sid': sid, 'ign': False, 'follows': False, 'complete': True, 'next': True, 'md': b'',
                   'd': b'NEW' + b'n' * 150}
            for b in frags(new):
                ts[1].inject_frame(b)
            loop.settle()
            g = box['g']
            res['sid'] = sid
            res['ok'] = g.done() and not g.cancelled() and g.exception() is None and bytes(g.result().data) == b'NEW' + b'n' * 150
            res['got'] = repr(g)[:120]
        res['errors_sent'] = [sim.parse_sent(b) for b in ts[1].sent if sim.parse_sent(b)['t'] == 'Error']
        return res
    finally:
        loop.finish()


def reconnect_oracle():
    out = []
    for kind in ('peer-request', 'own-request'):
        for lenreq in (True, False):
            r = reconnect_stale_partial(kind, lenreq)
            if not r.get('reconnected') or not r.get('ok') or r.get('errors_sent'):
                out.append({'what': 'stale-partial-frame-leaks-into-next-connection', 'reconnect_case': [kind, lenreq],
                            'detail': repr(r)[:300]})
    return out
