"""C17 — reconnect yields a fresh, working connection.  Correspondence on the single-step virtual-time loop: a real
RSocketClient with a provider of harness transports is driven through random sequences of connect / request / server
response / connection loss (EOF or read error) / keepalive timeout / explicit reconnect / keepalive period, each followed
by letting the loop settle; the observable state is compared with model/Client.v."""
from harness import internals
import asyncio
from datetime import timedelta

from harness import frames as FR, sim
from harness.common import chunks, run_coq_cases, clist, cN, cbool

MODEL_TARGETS = ['model/Client.vo', 'corr/C17Corr.vo', 'corr/Harness.vo']
ASSUMPTIONS = [
    'settled-step granularity: every environment action is followed by running the loop until nothing is ready; interleavings '
    'inside the reconnect sequence are C16 (SETUP order) and C11 (loss at every point)',
    'the server acknowledges every keepalive probe at once except while a keepalive timeout is being provoked',
    'request-response stands for the pending interactions; the other interaction models are C11',
]
HEADER = ('From Coq Require Import NArith List Bool.\nFrom RSV Require Import model.Client corr.C17Corr corr.Harness.\n'
          'Import ListNotations.\nOpen Scope N_scope.\nDefinition chk := chk17.\n')
SHARD = 150
P_S, L_S = 1.0, 3.0


def run_actions(policy, acts, loss_kinds):
    from rsocket.rsocket_client import RSocketClient
    from rsocket.request_handler import BaseRequestHandler
    from rsocket.payload import Payload
    from rsocket.frame import KeepAliveFrame
    from rsocket.exceptions import RSocketProtocolError
    loop = sim.new_loop()
    sim.patch_clock(loop)
    T = sim.make_transport_class()
    transports = [T(lenreq=(i % 2 == 0), name='t%d' % i) for i in range(12)]
    taken = []

    async def provider():
        for x in transports:
            for _ in range(PROVIDER_SUSPENDS[0]):
                await asyncio.sleep(0)
            taken.append(x)
            yield x
    counts = {'close': 0, 'timeout': 0, 'expected_close': 0, 'ticks_alive': 0, 'expected_conn': 0}

    class H(BaseRequestHandler):
        async def on_close(self, rsocket, exception=None):
            counts['close'] += 1
            if policy['on_close']:
                await rsocket.reconnect()

        async def on_keepalive_timeout(self, since, rsocket):
            counts['timeout'] += 1
            if policy['on_timeout']:
                await rsocket.reconnect()
    box = {}
    futures = []      # (transport index at issue time, sid, future)
    probes_seen = {}  # transport idx -> frames scanned
    probes = 0
    auto_ack = [True]
    loss_i = [0]

    def cur():
        return len(taken) - 1

    def receiver_running():
        # the client's own _receiver_task reference can be lost across a reconnect; look at the tasks themselves
        for tk in asyncio.all_tasks(loop):
            co = tk.get_coro()
            if not tk.done() and getattr(co, '__qualname__', '').endswith('._receiver'):
                return True
        return False

    def scan_acks():
        """acknowledge keepalive probes of the current transport"""
        n = 0
        if not taken:
            return 0
        t = taken[-1]
        i = probes_seen.get(cur(), 0)
        while i < len(t.sent):
            d = sim.parse_sent(t.sent[i])
            i += 1
            if d['t'] == 'Keepalive' and d['respond']:
                n += 1
                if auto_ack[0]:
                    ka = KeepAliveFrame()
                    t.inject_frame(ka.serialize())
        probes_seen[cur()] = i
        return n

    def advance(dt):
        end = loop.time() + dt
        n = 0
        loop.run_until(end, on_step=lambda: None)
        n += scan_acks()
        loop.settle()
        return n
    try:
        c = None
        for a in acts:
            if a[0] == 'connect':
                if c is None:
                    def mk():
                        box['c'] = RSocketClient(provider(), handler_factory=H,
                                                 keep_alive_period=timedelta(seconds=P_S),
                                                 max_lifetime_period=timedelta(seconds=L_S))
                        asyncio.create_task(box['c'].connect())
                    loop.run(mk)
                    loop.settle()
                    c = box['c']
            elif c is None:
                continue
            elif a[0] == 'req':
                def rq():
                    f = c.request_response(Payload(b'q'))
                    futures.append((cur(), c._stream_control._current_stream_id, f))
                loop.run(rq)
                loop.settle()
            elif a[0] == 'respond':
                sid = a[1]
                if any(ti == cur() and s == sid and not f.done() for ti, s, f in futures) and c.is_server_alive() \
                        and receiver_running():
                    fr = FR.build({'t': 'Payload', 'sid': sid, 'ign': False, 'follows': False, 'complete': True, 'next': True,
                                   'md': b'', 'd': b'r'})
                    taken[-1].inject_frame(fr.serialize())
                    loop.settle()
            elif a[0] == 'loss':
                if receiver_running():
                    counts['expected_close'] += 1
                    if policy['on_close']:
                        counts['expected_conn'] += 1
                    k = loss_kinds[loss_i[0] % len(loss_kinds)]
                    loss_i[0] += 1
                    if k == 'eof':
                        taken[-1].inject_eof()
                    else:
                        taken[-1].close_raises = True      # a reset connection: close() raises too, as TransportTCP's does
                        taken[-1].inject_error()
                    loop.settle()
            elif a[0] == 'katimeout':
                if receiver_running() and c.is_server_alive():
                    if policy['on_timeout']:
                        counts['expected_close'] += 1
                        counts['expected_conn'] += 1
                    auto_ack[0] = False
                    before = counts['timeout']
                    for _ in range(40):
                        advance(L_S / 4)
                        if counts['timeout'] > before:
                            break
                    auto_ack[0] = True
                    scan_acks()
                    loop.settle()
            elif a[0] == 'reconnect':
                counts['expected_conn'] += 1
                if receiver_running():
                    counts['expected_close'] += 1
                loop.run(lambda: asyncio.create_task(c.reconnect()))
                loop.settle()
            elif a[0] == 'tick':
                if not c.is_server_alive() or not receiver_running():
                    continue      # no time passes on a dead connection (the detector would keep firing every lifetime)
                counts['ticks_alive'] += 1
                scan_acks()
                loop.settle()
                n = 0
                for _ in range(4):
                    n += advance(P_S / 4)
                if n:
                    probes_count[0] += 1
            scan_acks()
            loop.settle()
        if c is None:
            return None

        def tags(t):
            out = []
            for b in t.sent:
                d = sim.parse_sent(b)
                if d['t'] == 'Setup':
                    out.append('setup')
                elif d['t'] == 'RequestResponse':
                    out.append(d['sid'])
                elif d['t'] == 'Keepalive':
                    continue
                else:
                    out.append('other:' + d['t'])
            return out
        connected = receiver_running()
        failed = []
        pending = []
        for ti, sid, f in futures:
            if f.done() and not f.cancelled() and f.exception() is not None:
                failed.append((ti, sid))
            elif not f.done() and ti == cur():
                pending.append(sid)
        obs = {'conn': len(taken), 'connected': connected, 'alive': c.is_server_alive(), 'pending': pending,
               'wire': tags(taken[-1]), 'history': [(i, tags(t)) for i, t in enumerate(taken[:-1])],
               'closed': [i for i, t in enumerate(taken) for _ in range(t.closed)], 'failed': failed,
               'on_close': counts['close'], 'timeouts': counts['timeout'], 'probes': probes_count[0],
               'stale_pending': [(ti, sid) for ti, sid, f in futures if not f.done() and ti != cur()],
               'expected_on_close': counts['expected_close'], 'ticks_alive': counts['ticks_alive'],
               'expected_conn': 1 + counts['expected_conn']}
        return obs
    finally:
        loop.finish()


probes_count = [0]
PROVIDER_SUSPENDS = [0]


def run_case(policy, acts, loss_kinds):
    probes_count[0] = 0
    return run_actions(policy, acts, loss_kinds)


def oracle(policy, acts, o):
    """C17's clauses on the observation"""
    for i, w in o['history'] + [(o['conn'] - 1, o['wire'])]:
        if w and w[0] != 'setup':
            return 'connection %d: first frame is %s, not SETUP' % (i, w[0])
        if w.count('setup') > 1:
            return 'connection %d: SETUP written %d times' % (i, w.count('setup'))
        ids = [x for x in w if isinstance(x, int)]
        if ids and ids != list(range(1, 2 * len(ids), 2)):
            return 'connection %d: stream ids do not restart from 1: %s' % (i, ids)
        if any(isinstance(x, str) and x.startswith('other') for x in w):
            return 'connection %d: unexpected frames %s' % (i, w)
    if o['conn'] != o['expected_conn']:
        return 'the client is on transport number %d, but %d connections should have been made' % (o['conn'], o['expected_conn'])
    if o['connected'] and o['alive'] and (not o['wire'] or o['wire'][0] != 'setup'):
        return 'the connection in use (transport %d) has no SETUP on it: %s' % (o['conn'] - 1, o['wire'])
    if o['connected'] and o['alive']:
        unsent = [sid for sid in o['pending'] if sid not in o['wire']]
        if unsent:
            return 'requests issued on the live connection were not written: %s' % unsent
    if o['on_close'] != o['expected_on_close']:
        return 'close notification delivered %d times for %d ended connections' % (o['on_close'], o['expected_on_close'])
    if o['probes'] != o['ticks_alive']:
        return 'keepalive probes seen in %d of %d keep-alive periods on live connections' % (o['probes'], o['ticks_alive'])
    if len(set(o['failed'])) != len(o['failed']):
        return 'a pending request was failed twice'
    if o['stale_pending']:
        return 'requests pending on an earlier connection were left hanging: %s' % o['stale_pending']
    for i in range(o['conn'] - 1):
        if o['closed'].count(i) != 1:
            return 'old transport %d closed %d times' % (i, o['closed'].count(i))
    return None


def reconnect_with_request_while_connecting(suspends, cause):
    """oracle-only scenario (below the model's settled-step granularity): the next transport's connect() suspends and a
    request is issued meanwhile; returns what was written on the second transport"""
    from rsocket.rsocket_client import RSocketClient
    from rsocket.request_handler import BaseRequestHandler
    from rsocket.payload import Payload
    loop = sim.new_loop()
    sim.patch_clock(loop)
    T = sim.make_transport_class()
    ts = [T(lenreq=True, name='a'), T(lenreq=True, connect_suspends=suspends, name='b')]

    async def provider():
        yield ts[0]
        for _ in range(suspends):          # obtaining the next transport takes a while, too
            await asyncio.sleep(0)
        yield ts[1]

    class H(BaseRequestHandler):
        async def on_close(self, rsocket, exception=None):
            await rsocket.reconnect()
    box = {}
    try:
        def mk():
            box['c'] = RSocketClient(provider(), handler_factory=H, keep_alive_period=timedelta(seconds=1000),
                                     max_lifetime_period=timedelta(seconds=5000))
            asyncio.create_task(box['c'].connect())
        loop.run(mk)
        loop.settle()
        c = box['c']
        if cause == 'eof':
            ts[0].inject_eof()
        else:
            loop.run(lambda: asyncio.create_task(c.reconnect()))
        issued = 0
        for _ in range(30):
            loop.tick()
            # while the next connection is being set up (provider or transport.connect() suspended)
            if not ts[1].connected and internals.has_send_queue(c) and issued < 6 and (ts[0].closed or cause != 'eof'):
                try:
                    loop.run(lambda: c.fire_and_forget(Payload(b'during-connect')))
                    issued += 1
                except Exception:
                    pass
        loop.settle()
        return issued, [sim.parse_sent(b)['t'] for b in ts[1].sent]
    finally:
        loop.finish()


def _acts(rng):
    n = rng.randint(2, 14)
    out = [('connect',)]
    issued = 0
    for _ in range(n):
        x = rng.random()
        if x < 0.35:
            out.append(('req',))
            issued += 1
        elif x < 0.5:
            out.append(('respond', rng.choice([1, 1, 3, 5])))
        elif x < 0.65:
            out.append(('loss',))
        elif x < 0.75:
            out.append(('katimeout',))
        elif x < 0.87:
            out.append(('reconnect',))
        else:
            out.append(('tick',))
    return out


def _coq(policy, acts, o):
    def tag(x):
        return 'WSetup' if x == 'setup' else 'WReq %s' % cN(x if isinstance(x, int) else 0)
    A = {'connect': 'AConnect', 'req': 'AReq', 'loss': 'ALoss', 'katimeout': 'AKaTimeout', 'reconnect': 'AReconnect',
         'tick': 'ATick'}
    al = clist([A[a[0]] if a[0] != 'respond' else 'ARespond %s' % cN(a[1]) for a in acts])
    ob = ('{| o_conn := %d; o_connected := %s; o_alive := %s; o_pending := %s; o_wire := %s; o_history := %s; o_closed := %s; '
          'o_failed := %s; o_on_close := %d; o_timeouts := %d; o_probes := %d |}' % (
              o['conn'], cbool(o['connected']), cbool(o['alive']), clist([cN(x) for x in o['pending']]),
              clist([tag(x) for x in o['wire']]),
              clist(['(%d%%nat, %s)' % (i, clist([tag(x) for x in w])) for i, w in o['history']]),
              clist(['%d%%nat' % i for i in o['closed']]), clist(['(%d%%nat, %s)' % (i, cN(s)) for i, s in o['failed']]),
              o['on_close'], o['timeouts'], o['probes']))
    return '({| reconnect_on_close := %s; reconnect_on_timeout := %s |}, %s, %s)' % (
        cbool(policy['on_close']), cbool(policy['on_timeout']), al, ob)


def correspond(ctx, corr, model_ok):
    from harness import battery
    battery.run(corr, ['reconnect-setup', 'late-requests', 'lease-queue-across-reconnect', 'second-connection-keepalive'])
    rng = ctx.rng
    items = []
    for i in range(ctx.scale(160, 3000)):
        policy = {'on_close': rng.random() < 0.75, 'on_timeout': rng.random() < 0.6}
        acts = _acts(rng)
        loss_kinds = [rng.choice(['eof', 'err']) for _ in range(6)]
        o = run_case(policy, acts, loss_kinds)
        if o is None:
            continue
        corr.evaluations += 1
        for a in acts:
            corr.count('action:' + a[0])
        corr.count('reconnections:%s' % (o['conn'] - 1 if o['conn'] < 4 else '3+'))
        if o['conn'] > 1:
            corr.nontriv((tuple(sorted(policy.items())), tuple(acts), tuple(loss_kinds)))
        orc = oracle(policy, acts, o)
        if orc:
            corr.oracle_failures.append({'what': orc, 'policy': policy, 'acts': acts, 'loss_kinds': loss_kinds, 'obs': o})
        items.append((_coq(policy, acts, o), {'policy': policy, 'acts': acts, 'loss_kinds': loss_kinds, 'impl': o}))
        if len(corr.samples) < 3 and o['conn'] >= 3 and o['failed']:
            corr.samples.append({'policy': policy, 'actions': [a[0] for a in acts], 'observed': o})
    for suspends in (1, 2, 4):
        for cause in ('eof', 'explicit'):
            issued, w = reconnect_with_request_while_connecting(suspends, cause)
            corr.evaluations += 1
            corr.count('request-while-connecting:issued=%d' % issued)
            if w and w[0] != 'Setup':
                corr.oracle_failures.append({'what': 'first frame on the new transport is %s, not SETUP (request issued while '
                                                     'connecting): %s' % (w[0], w), 'scenario': 'while-connecting',
                                             'suspends': suspends, 'cause': cause, 'policy': {}, 'acts': [], 'loss_kinds': []})
    corr.oracle_failures.extend(katimeout_oracle())
    corr.count('keepalive timeout -> reconnect with a suspending connect()', 3)
    from harness.props import c01
    for f in c01.reconnect_oracle():
        corr.oracle_failures.append({'what': f['what'] + ' ' + f['detail'][:200], 'scenario': 'stale-partial',
                                     'policy': {}, 'acts': [], 'loss_kinds': []})
    corr.count('reconnect with a partially reassembled frame left over', 4)
    from harness.props import c07
    for f in c07.reconnect_oracle():
        corr.oracle_failures.append({'what': f['what'] + ' ' + f['detail'][:200], 'scenario': 'reconnect-window',
                                     'reconnect_case': f['reconnect_case'], 'policy': {}, 'acts': [], 'loss_kinds': []})
    corr.evaluations += 24
    corr.count('reconnect windows with a request per loop iteration', 24)
    from harness.props import c08
    for f in c08.reconnect_wire_oracle():
        corr.oracle_failures.append({'what': f['what'], 'scenario': 'reconnect-producers', 'reconnect_wire_case': f['reconnect_wire_case'],
                                     'policy': {}, 'acts': [], 'loss_kinds': []})
    corr.evaluations += 18
    corr.count('reconnect with local producers of the old connection still in flight', 18)
    corr.rule = ('random sequences of 2..14 actions (request-response, server response, connection loss by EOF or read error, '
                 'provoked keepalive timeout, explicit reconnect on a healthy or dead connection, keepalive period) under four handler '
                 'policies (on_close / on_keepalive_timeout call reconnect or not); 1..6 consecutive reconnects; non-trivial = at least '
                 'one reconnection happened; distinct by (policy, actions, loss kinds)')
    if not model_ok:
        return
    shards = ['Definition cases : list case17 := [\n' + ';\n'.join(x[0] for x in ch) + '\n].'
              for ch in chunks(items, SHARD)]
    out = run_coq_cases(shards, HEADER, timeout=600)
    for si, (n, nf, idx) in enumerate(out):
        for i in idx:
            corr.disagreements.append(dict(items[si * SHARD + i][1], what='client connection manager vs model/Client.v'))


def search(ctx, budget_s):
    from harness.common import CorrResult
    c = CorrResult()
    correspond(ctx, c, False)
    return c.oracle_failures[:1]


def replay(obj):
    from harness import battery as _bat
    _r = _bat.replay(obj.get('case') if isinstance(obj.get('case'), dict) else obj)
    if _r is not None:
        return _r
    case = obj['case']
    if case.get('scenario') == 'katimeout-reconnect':
        return bool(katimeout_oracle())
    if case.get('scenario') == 'reconnect-producers':
        from harness.props import c08
        return bool(c08.reconnect_wire_oracle())
    if case.get('scenario') == 'stale-partial':
        from harness.props import c01
        return bool(c01.reconnect_oracle())
    if case.get('scenario') == 'reconnect-window':
        from harness.props import c07
        cs, ns, cause = case['reconnect_case']
        r = c07.reconnect_requests(cs, ns, cause)
        return bool(r['lost']) or not r['reconnected']
    if case.get('scenario') == 'while-connecting':
        issued, w = reconnect_with_request_while_connecting(case['suspends'], case['cause'])
        bad = bool(w) and w[0] != 'Setup'
        if bad:
            print('oracle: first frame on the new transport is', w[0])
        return bad
    acts = [tuple(a) for a in case['acts']]
    o = run_case(case['policy'], acts, case['loss_kinds'])
    orc = oracle(case['policy'], acts, o)
    if orc:
        print('oracle:', orc)
    return bool(orc)


def katimeout_reconnect(connect_suspends):
    """the server falls silent; on_keepalive_timeout reconnects; the next transport's connect() takes a few iterations.
    The fresh connection must send SETUP, serve a request and send keep-alives again."""
    from rsocket.rsocket_client import RSocketClient
    from rsocket.request_handler import BaseRequestHandler
    from rsocket.payload import Payload
    loop = sim.new_loop()
    sim.patch_clock(loop)
    T = sim.make_transport_class()
    ts = [T(lenreq=True, name='a'), T(lenreq=True, connect_suspends=connect_suspends, name='b')]

    async def provider():
        for x in ts:
            yield x

    class H(BaseRequestHandler):
        async def on_keepalive_timeout(self, since, rsocket):
            await rsocket.reconnect()
    box = {}
    try:
        def mk():
            box['c'] = RSocketClient(provider(), handler_factory=H, keep_alive_period=timedelta(seconds=1),
                                     max_lifetime_period=timedelta(seconds=3))
            asyncio.create_task(box['c'].connect())
        loop.run(mk)
        loop.settle()
        c = box['c']
        loop.run_until(loop.time() + 7.5)        # silence: the timeout fires, the handler reconnects
        loop.settle()
        loop.run(lambda: box.setdefault('f', c.request_response(Payload(b'after'))))
        loop.settle()
        loop.run_until(loop.time() + 2.5)        # keep-alives of the new connection (its server answers them)
        new = [sim.parse_sent(b) for b in ts[1].sent]
        return {'connected': ts[1].connected, 'first': new[0]['t'] if new else None,
                'request_sent': any(f['t'] == 'RequestResponse' and f.get('d') == b'after' for f in new),
                'keepalives': sum(1 for f in new if f['t'] == 'Keepalive')}
    finally:
        loop.finish()


def katimeout_oracle():
    out = []
    for s in (0, 1, 3):
        r = katimeout_reconnect(s)
        if not r['connected'] or r['first'] != 'Setup' or not r['request_sent'] or r['keepalives'] < 1:
            out.append({'what': 'after a keepalive timeout the reconnected client is not a working connection: %r' % (r,),
                        'scenario': 'katimeout-reconnect', 'suspends': s, 'policy': {}, 'acts': [], 'loss_kinds': []})
    return out
