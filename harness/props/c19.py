"""C19 — routed dispatch is exact and the authentication gate cannot be bypassed.
Correspondence: real RequestRouter tables built with the real decorators, real RoutingRequestHandler request methods
driven directly with payloads whose composite metadata is built by the real helpers, against model/Routing.v;
oracle = the four clauses of the property evaluated on what the implementation did."""
import asyncio
import itertools
import logging
import time

from harness.common import chunks, run_coq_cases, cN, cbool, cbytes, clist, copt

MODEL_TARGETS = ['model/Routing.vo', 'corr/C19Corr.vo', 'corr/Harness.vo']
ASSUMPTIONS = [
    'route handlers declare ordinary (positional-or-keyword / keyword-only) parameters: no *args, **kwargs or '
    'positional-only parameters (those make the keyword call of RequestRouter.route raise TypeError)',
    'registered route names are None or str that can be encoded as UTF-8 (no lone surrogates); a name is modelled by '
    'its UTF-8 encoding, a tag by its bytes (valid UTF-8 or not)',
    'the verifier, payload deserializer/serializer and route coroutines either return or raise an Exception '
    '(not a BaseException such as CancelledError), and do not touch the router',
    'composite metadata is abstracted to its parsed item kinds (routing tags / authentication / other); the byte level '
    'is property C18',
]
HEADER = ('From Coq Require Import NArith List Init.Byte.\nFrom RSV Require Import lib.Bytes model.Routing '
          'corr.C19Corr corr.Harness.\nImport ListNotations.\nOpen Scope N_scope.\n')
SHARD = 250
KNOWN = {}     # no known finding: every clause of C19 holds of the code

DECOS = ['response', 'stream', 'channel', 'fire_and_forget', 'metadata_push']
DECO_COQ = {'response': 'DResponse', 'stream': 'DStream', 'channel': 'DChannel', 'fire_and_forget': 'DFnf',
            'metadata_push': 'DPush'}
METHS = ['request_channel', 'request_fire_and_forget', 'request_response', 'request_stream', 'on_metadata_push']
METH_COQ = {'request_channel': 'MChannel', 'request_fire_and_forget': 'MFnf', 'request_response': 'MResponse',
            'request_stream': 'MStream', 'on_metadata_push': 'MPush'}
# the specification's reading of "its interaction type": which decorator serves which request method
METH_DECO = {'request_channel': 'channel', 'request_fire_and_forget': 'fire_and_forget', 'request_response': 'response',
             'request_stream': 'stream', 'on_metadata_push': 'metadata_push'}
# ... and what an error looks like for the requester of that interaction
METH_ERR = {'request_channel': 'EChannelStream', 'request_fire_and_forget': 'ESwallowed', 'request_response': 'EFuture',
            'request_stream': 'EStream', 'on_metadata_push': 'ESwallowed'}
# attribute names of the router's dicts / Handlers fields in the order of C19Corr.chk19r
DICT_ATTRS = ['_channel_routes', '_stream_routes', '_response_routes', '_fnf_routes', '_metadata_push']
UNK_ATTRS = ['response', 'stream', 'channel', 'fire_and_forget', 'metadata_push']

ANNOTS = ['empty', 'payload', 'composite', 'other1', 'other2', 'otherstr']
OTHER_ID = {'other1': 1, 'other2': 2, 'otherstr': 9}
DOES = ['future', 'payload', 'other', 'raise']
DOES_COQ = {'future': 'HRetFuture', 'payload': 'HRetPayload', 'other': 'HRetOther', 'raise': 'HRaise'}


# ------------------------------------------------------------------------------------------------
# harness-side doubles

class Rejected(Exception):
    pass


class DesError(Exception):
    pass


class SerError(Exception):
    pass


class HandlerError(Exception):
    pass


class Cls1:
    pass


class Cls2:
    pass


class Des:
    def __init__(self, cid, payload):
        self.cid, self.payload = cid, payload


class Ser:
    def __init__(self, value):
        self.value = value


def _cls_id(cls):
    if cls is Cls1:
        return 1
    if cls is Cls2:
        return 2
    if cls == 'Payload':       # a string annotation (from __future__ import annotations): not the Payload class
        return 9
    return 99


class World:
    """Mutable per-case knobs and recordings shared by the doubles."""

    def __init__(self):
        self.calls = []          # (hid, [arg kinds])
        self.returned = {}       # hid -> object the coroutine returned
        self.verifier_calls = []  # (route, credential id, accepted)
        self.desfail = set()
        self.ser_ok = True
        self.payload = None
        self.logged = 0

    def reset(self, desfail, ser_ok):
        self.calls, self.returned, self.verifier_calls = [], {}, []
        self.desfail, self.ser_ok, self.logged = set(desfail), ser_ok, 0


def _make_function(world, h):
    """A real coroutine function with the signature described by h['params'], recording what it is called with."""
    from rsocket.payload import Payload
    from rsocket.extensions.composite_metadata import CompositeMetadata
    names, decl = [], []
    for i, (named, an) in enumerate(h['params']):
        nm = 'composite_metadata' if named else 'p%d' % i
        names.append(nm)
        ann = {'empty': '', 'payload': ': Payload', 'composite': ': CompositeMetadata', 'other1': ': Cls1',
               'other2': ': Cls2', 'otherstr': ": 'Payload'"}[an]
        decl.append(nm + ann)
    src = 'async def h%d(%s):\n    return __rec(%d, [%s])\n' % (h['hid'], ', '.join(decl), h['hid'], ', '.join(names))

    def rec(hid, values):
        kinds = []
        for v in values:
            if isinstance(v, CompositeMetadata):
                kinds.append('cm')
            elif v is world.payload:
                kinds.append('payload')
            elif isinstance(v, Des) and v.payload is world.payload:
                kinds.append(('des', v.cid))
            else:
                kinds.append('?%r' % (v,))
        world.calls.append((hid, kinds))
        does = h['does']
        if does == 'raise':
            raise HandlerError(hid)
        if does == 'future':
            r = asyncio.get_event_loop().create_future()
            r.set_result(Payload(b'fut'))
        elif does == 'payload':
            r = Payload(b'pl')
        else:
            r = ('other', hid)
        world.returned[hid] = r
        return r
    ns = {'Payload': Payload, 'CompositeMetadata': CompositeMetadata, 'Cls1': Cls1, 'Cls2': Cls2, '__rec': rec}
    exec(src, ns)
    return ns['h%d' % h['hid']]


def build_router(world, prog):
    """Apply the real decorators; returns (router, raised flags, dict view, unknown view)."""
    from rsocket.routing.request_router import RequestRouter

    def des(cls, payload):
        cid = _cls_id(cls)
        if cid in world.desfail:
            raise DesError(cid)
        return Des(cid, payload)

    def ser(cls, value):
        if not world.ser_ok:
            raise SerError()
        return Ser(value)
    router = RequestRouter(payload_deserializer=des, payload_serializer=ser)
    fns = {}
    raised = []
    for r in prog:
        h = r['h']
        fn = fns.get(h['hid'])
        if fn is None:
            fn = fns[h['hid']] = _make_function(world, h)
        try:
            if r['k'] == 'reg':
                getattr(router, r['d'])(r['route'])(fn)
            else:
                getattr(router, r['d'] + '_unknown')()(fn)
            raised.append(False)
        except Exception:
            raised.append(True)
    hid_of = {id(fn): hid for hid, fn in fns.items()}
    return router, raised, hid_of


def router_view(router, hid_of):
    # a handler this program never registered (one leaking in from another route table) is shown as 999999
    dicts = [[(k, hid_of.get(id(v.method), 999999)) for k, v in getattr(router, a).items()] for a in DICT_ATTRS]
    unk = []
    for a in UNK_ATTRS:
        ri = getattr(router._unknown, a)
        unk.append(None if ri is None else hid_of.get(id(ri.method), 999999))
    return dicts, unk


def tag_bytes(t):
    return bytes.fromhex(t)


def build_metadata(md):
    """md: {'raw': hex} | {'none': True} | {'items': [...]}; items ('route', [hex tags]) | ('auth', id) | ('other', k)."""
    from rsocket.extensions.helpers import composite, route, authenticate_bearer, authenticate_simple, metadata_item, \
        data_mime_type
    from rsocket.extensions.mimetypes import WellKnownMimeTypes
    if md.get('none'):
        return None
    if 'raw' in md:
        return bytes.fromhex(md['raw'])
    items = []
    for it in md['items']:
        if it[0] == 'route':
            items.append(route(*[tag_bytes(t) for t in it[1]]))
        elif it[0] == 'auth':
            a = it[1]
            items.append(authenticate_bearer('tok%d' % a) if a % 2 == 0 else authenticate_simple(str(a), 'pw'))
        else:
            k = it[1]
            items.append([metadata_item(b'x', WellKnownMimeTypes.TEXT_PLAIN), metadata_item(b'yy', b'foo/bar'),
                          data_mime_type(WellKnownMimeTypes.APPLICATION_JSON)][k % 3])
    raw = composite(*items)
    return raw + bytes.fromhex(md.get('tail', ''))


def cred_id(authentication):
    from rsocket.extensions.authentication import AuthenticationBearer, AuthenticationSimple
    if isinstance(authentication, AuthenticationBearer):
        return int(authentication.token[3:])
    if isinstance(authentication, AuthenticationSimple):
        return int(authentication.username)
    return -1


def _stage(exc):
    """Which step of _parse_and_route the exception came out of (by the frames of its traceback)."""
    names = []
    tb = exc.__traceback__
    while tb is not None:
        names.append((tb.tb_frame.f_code.co_name, tb.tb_frame.f_code.co_filename))
        tb = tb.tb_next
    fn = [n for n, f in names]
    if '_parse_composite_metadata' in fn:
        return 'parse'
    if 'require_route' in fn:
        return 'require_route'
    if '_verify_authentication' in fn:
        return 'verify'
    if any(n == 'route' and f.endswith('request_router.py') for n, f in names):
        return 'route'
    return 'elsewhere'


def classify_exception(exc):
    from rsocket.exceptions import RSocketUnknownRoute
    st = _stage(exc)
    if st == 'parse':
        return 'WParse'
    if st == 'require_route':
        if isinstance(exc, IndexError):
            return 'WEmptyTags'
        if isinstance(exc, UnicodeDecodeError):
            return 'WBadTag'
        if str(exc) == 'No route found in request':
            return 'WNoRoute'
    if st == 'verify':
        if isinstance(exc, Rejected):
            return 'WAuthRejected'
        if str(exc) == 'Authentication required but not provided':
            return 'WAuthMissing'
    if st == 'route':
        if isinstance(exc, RSocketUnknownRoute):
            return 'WUnknownRoute'
        if isinstance(exc, DesError):
            return 'WDeserialize'
        if isinstance(exc, HandlerError):
            return 'WHandler'
        if isinstance(exc, SerError):
            return 'WSerialize'
        if isinstance(exc, KeyError):
            return 'WNoTable'
    return '?%s:%s:%s' % (st, type(exc).__name__, exc)


class _Capture(logging.Handler):
    def __init__(self, world):
        super().__init__()
        self.world = world

    def emit(self, record):
        self.world.logged += 1


class Runner:
    """One event loop, one World; builds routers and drives requests on the real classes."""

    def __init__(self):
        self.world = World()
        self.loop = asyncio.new_event_loop()
        self._routers = {}

    def close(self):
        try:
            self.loop.run_until_complete(asyncio.sleep(0))
        finally:
            self.loop.close()

    def router_for(self, key, prog):
        if key not in self._routers:
            self._routers[key] = build_router(self.world, prog)
        return self._routers[key]

    def run(self, router, req):
        """req: dict(meth, md, v, desfail, ser_ok).  Returns the observation dict."""
        from rsocket.routing.routing_request_handler import RoutingRequestHandler
        from rsocket.payload import Payload
        from rsocket.streams.error_stream import ErrorStream
        from rsocket.streams.null_subscrier import NullSubscriber
        from rsocket.logger import logger
        world = self.world
        world.reset(req['desfail'], req['ser_ok'])
        seen = {}

        class Probe(RoutingRequestHandler):
            async def _parse_and_route(self, frame_type, payload):
                try:
                    return await super()._parse_and_route(frame_type, payload)
                except Exception as e:
                    seen['exc'] = e
                    raise

        v = req['v']
        verifier = None
        if v is not None:
            ok, denied = set(v[0]), set(v[1])

            async def verifier(route, authentication):
                a = cred_id(authentication)
                good = a in ok and route not in denied
                world.verifier_calls.append((route, a, good))
                if not good:
                    raise Rejected(a)
        handler = Probe(router, authentication_verifier=verifier)
        payload = Payload(b'data', build_metadata(req['md']))
        world.payload = payload
        lg = logger()
        cap = _Capture(world)
        old_disable = logging.root.manager.disable
        old_prop, old_level = lg.propagate, lg.level
        logging.disable(logging.NOTSET)
        lg.addHandler(cap)
        lg.propagate = False
        lg.setLevel(logging.ERROR)
        obs = {'escaped': None}
        try:
            try:
                ret = self.loop.run_until_complete(getattr(handler, req['meth'])(payload))
            except Exception as e:   # nothing may escape a request method
                obs['escaped'] = '%s: %s' % (type(e).__name__, e)
                ret = None
        finally:
            lg.removeHandler(cap)
            lg.propagate, lg.level = old_prop, old_level
            logging.disable(old_disable)
        exc = seen.get('exc')
        obs['calls'] = list(world.calls)
        obs['verifier_calls'] = list(world.verifier_calls)
        obs['logged'] = world.logged
        obs['exc'] = None if exc is None else '%s: %s' % (type(exc).__name__, exc)
        obs['route_id'] = getattr(exc, 'route_id', None)
        if obs['escaped'] is not None:
            obs['res'] = ('?', 'escaped ' + obs['escaped'])
        elif exc is not None:
            why = classify_exception(exc)
            if isinstance(ret, asyncio.Future) and ret.done() and ret.exception() is exc:
                kind = 'EFuture'
            elif isinstance(ret, ErrorStream) and ret._exception is exc:
                kind = 'EStream'
            elif isinstance(ret, tuple) and len(ret) == 2 and isinstance(ret[0], ErrorStream) \
                    and ret[0]._exception is exc and isinstance(ret[1], NullSubscriber):
                kind = 'EChannelStream'
            elif ret is None:
                kind = 'ESwallowed'
            else:
                kind = '?%r' % (ret,)
            obs['res'] = ('err', kind, why)
        else:
            hid = world.calls[-1][0] if world.calls else None
            r0 = world.returned.get(hid)
            if ret is None:
                d = 'DNone'
            elif ret is r0:
                d = 'DAsIs'
            elif isinstance(ret, asyncio.Future) and ret.done() and ret.exception() is None and ret.result() is r0:
                d = 'DFuture'
            elif isinstance(ret, asyncio.Future) and ret.done() and ret.exception() is None \
                    and isinstance(ret.result(), Ser) and ret.result().value is r0:
                d = 'DFutureSer'
            else:
                d = '?%r' % (ret,)
            obs['res'] = ('ok', d)
        return obs


# ------------------------------------------------------------------------------------------------
# Coq printers

def cname(s):
    return cbytes(s.encode('utf-8'))


def c_annot(a):
    return {'empty': 'AnEmpty', 'payload': 'AnPayload', 'composite': 'AnComposite'}.get(a) or \
        '(AnOther %s)' % cN(OTHER_ID[a])


def c_handler(h):
    return '(H %s %s %s)' % (cN(h['hid']), clist(['P %s %s' % (cbool(n), c_annot(a)) for n, a in h['params']]),
                             DOES_COQ[h['does']])


def c_reg(r):
    if r['k'] == 'reg':
        return 'Reg %s %s %s' % (DECO_COQ[r['d']], copt(r['route'], cname), c_handler(r['h']))
    return 'RegUnknown %s %s' % (DECO_COQ[r['d']], c_handler(r['h']))


def c_prog(prog):
    return clist([c_reg(r) for r in prog])


def c_tag(t):
    b = tag_bytes(t)
    try:
        b.decode('utf-8')
    except UnicodeDecodeError:
        return 'BadTag'
    return 'Tag %s' % cbytes(b)


def c_metadata(md):
    if md.get('none') or 'raw' in md or md.get('tail'):
        return 'MUnparseable'
    ents = []
    for it in md['items']:
        if it[0] == 'route':
            ents.append('ERoute %s' % clist([c_tag(t) for t in it[1]]))
        elif it[0] == 'auth':
            ents.append('EAuth %s' % cN(it[1]))
        else:
            ents.append('EOther')
    return '(MItems %s)' % clist(ents)


def c_vspec(v):
    if v is None:
        return 'None'
    return '(Some (%s, %s))' % (clist([cN(a) for a in v[0]]), clist([cname(r) for r in v[1]]))


def c_arg(k):
    if k == 'cm':
        return 'VComposite'
    if k == 'payload':
        return 'VPayload'
    return '(VDeserialized %s)' % cN(k[1])


def c_outcome(obs):
    """None when the observation cannot be expressed in the model's vocabulary."""
    res = obs['res']
    calls = obs['calls']
    if len(calls) > 1 or res[0] == '?' or any(str(x).startswith('?') for x in res[1:]):
        return None
    if calls and any(isinstance(k, str) and k.startswith('?') for k in calls[0][1]):
        return None
    if calls:
        hid, kinds = calls[0]
        r = '(Delivered %s)' % res[1] if res[0] == 'ok' else '(Failed %s %s)' % (res[1], res[2])
        return '(Ran %s %s %s)' % (cN(hid), clist([c_arg(k) for k in kinds]), r)
    if res[0] == 'ok':
        return None     # "succeeded" without calling anything: not expressible
    return '(ErrorOn %s %s)' % (res[1], res[2])


def c_case(pi, req, obs):
    return '(%d%%nat, %s, %s, %s, %s, %s, %s)' % (pi, METH_COQ[req['meth']], c_metadata(req['md']), c_vspec(req['v']),
                                                clist([cN(c) for c in req['desfail']]), cbool(req['ser_ok']),
                                                c_outcome(obs))


# ------------------------------------------------------------------------------------------------
# the property itself, on what the implementation did

def spec_selected(prog, raised, meth, name):
    """The handler C19 names for (interaction type, route name): the function registered under that type's decorator
    for exactly that name, else that type's unknown-route handler (the last one set), else None."""
    d = METH_DECO[meth]
    for r, bad in zip(prog, raised):
        if r['k'] == 'reg' and r['d'] == d and not bad and r['route'] == name:
            return r['h']
    unk = None
    for r, bad in zip(prog, raised):
        if r['k'] == 'unk' and r['d'] == d and not bad:
            unk = r['h']
    return unk


def spec_first_route(md):
    """(state, route): state in 'unparseable' | 'noroute' | 'emptytags' | 'badtag' | 'ok'."""
    if md.get('none') or 'raw' in md or md.get('tail'):
        return 'unparseable', None
    for it in md['items']:
        if it[0] == 'route':
            if not it[1]:
                return 'emptytags', None
            try:
                return 'ok', tag_bytes(it[1][0]).decode('utf-8')
            except UnicodeDecodeError:
                return 'badtag', None
    return 'noroute', None


def spec_arg(p):
    named, an = p
    if named or an == 'composite':
        return 'cm'
    if an in OTHER_ID:
        return ('des', OTHER_ID[an])
    return 'payload'


def oracle(prog, raised, req, obs, view_before, view_after):
    """Returns a message when a clause of C19 is false of what the implementation did, else None."""
    meth, md, v = req['meth'], req['md'], req['v']
    calls, res = obs['calls'], obs['res']
    if obs['escaped']:
        return 'the request method let an exception escape: %s' % obs['escaped']
    if view_before != view_after:
        return 'the request changed the route tables'
    if len(calls) > 1:
        return 'more than one route handler ran: %s' % [c[0] for c in calls]
    state, name = spec_first_route(md)
    sel = spec_selected(prog, raised, meth, name) if state == 'ok' else None
    has_auth = state != 'unparseable' and any(it[0] == 'auth' for it in md['items'])
    first_cred = next((it[1] for it in md['items'] if it[0] == 'auth'), None) if has_auth else None
    accepted = v is None or (has_auth and first_cred in v[0] and name not in v[1])
    # gate
    if calls and v is not None:
        if not has_auth:
            return 'a handler ran for a request without authentication entry although a verifier is configured'
        if not obs['verifier_calls'] or not all(c[2] for c in obs['verifier_calls']):
            return 'a handler ran although the verifier did not accept (calls: %s)' % obs['verifier_calls']
        if obs['verifier_calls'][0][0] != name:
            return 'the verifier was asked about route %r, the request is for %r' % (obs['verifier_calls'][0][0], name)
    # exactness
    if calls:
        hid = calls[0][0]
        if sel is None:
            return 'handler %d ran but no handler is registered for (%s, %r) and there is no unknown-route handler' % (
                hid, meth, name)
        if hid != sel['hid']:
            return 'handler %d ran, the handler for (%s, %r) is %d' % (hid, meth, name, sel['hid'])
        want = [spec_arg(p) for p in sel['params']]
        if calls[0][1] != want:
            return 'handler %d received %s, its parameters ask for %s' % (hid, calls[0][1], want)
    # delivery / error on that request alone
    expect_run = sel is not None and accepted and \
        not any(spec_arg(p)[0] == 'des' and spec_arg(p)[1] in req['desfail'] for p in sel['params'])
    if expect_run and not calls:
        return 'handler %d for (%s, %r) did not run: %s' % (sel['hid'], meth, name, obs['exc'])
    if not expect_run and calls:
        return 'handler %d ran for (%s, %r) which must fail' % (calls[0][0], meth, name)
    if not calls:
        if res[0] != 'err' or res[1] != METH_ERR[meth]:
            return 'request without runnable handler did not end in %s: %s' % (METH_ERR[meth], res)
        if obs['logged'] != 1:
            return 'failed request logged %d times' % obs['logged']
    elif res[0] == 'err' and res[1] != METH_ERR[meth]:
        return 'failing handler did not end in %s: %s' % (METH_ERR[meth], res)
    return None


# ------------------------------------------------------------------------------------------------
# generators

def hx(s):
    return (s.encode('utf-8') if isinstance(s, str) else bytes(s)).hex()


def mkh(hid, params=None, does='payload'):
    return {'hid': hid, 'params': [tuple(p) for p in (params if params is not None else [(False, 'empty')])],
            'does': does}


def REG(d, route, h):
    return {'k': 'reg', 'd': d, 'route': route, 'h': h}


def UNK(d, h):
    return {'k': 'unk', 'd': d, 'h': h}


PLAIN = [(False, 'empty'), (True, 'empty')]


def fixed_programs():
    progs = {}
    progs['empty'] = []
    full = []
    for i, d in enumerate(DECOS):
        full += [REG(d, 'a', mkh(10 * i + 1, PLAIN)), REG(d, 'b', mkh(10 * i + 2, PLAIN, 'future')),
                 UNK(d, mkh(10 * i + 3, [(False, 'payload')], 'other'))]
    progs['full'] = full
    progs['sparse'] = [REG('response', 'a', mkh(1)), REG('stream', 'b', mkh(2)), REG('channel', 'a', mkh(3)),
                       REG('fire_and_forget', 'b', mkh(4)), REG('metadata_push', 'a', mkh(5)),
                       REG('metadata_push', 'b', mkh(6))]
    progs['unknown_only'] = [UNK('response', mkh(1)), UNK('fire_and_forget', mkh(2)), UNK('metadata_push', mkh(3))]
    progs['disjoint'] = [REG('response', 'a', mkh(1)), REG('stream', 'b', mkh(2)), REG('metadata_push', 'b', mkh(3)),
                         UNK('channel', mkh(4)), UNK('stream', mkh(5))]
    shared = mkh(7, PLAIN)
    progs['quirks'] = [REG('response', None, mkh(1)), REG('response', '', mkh(2)), REG('response', 'a', mkh(3)),
                       REG('response', 'a', mkh(4)), UNK('response', mkh(5)), UNK('response', mkh(6)),
                       REG('stream', 'a', shared), REG('channel', 'a', shared), UNK('fire_and_forget', shared),
                       REG('stream', 'b', mkh(8)), REG('stream', '', mkh(9)), REG('metadata_push', 'b', mkh(11)),
                       REG('metadata_push', 'b', mkh(12)), UNK('metadata_push', mkh(13)),
                       REG('fire_and_forget', 'ü€', mkh(14))]
    return progs


def styles_program():
    """Handlers with every parameter style and every return behaviour, under every decorator."""
    styles = [(n, a) for n in (False, True) for a in ANNOTS]
    lists = [[]] + [[s] for s in styles]
    lists += [[(False, 'payload'), (True, 'payload'), (False, 'composite')],
              [(False, 'other1'), (False, 'other2'), (False, 'empty')],
              [(True, 'other1'), (False, 'otherstr'), (False, 'composite')],
              [(False, 'composite'), (False, 'composite'), (False, 'other2'), (False, 'other1')]]
    prog, names, hid = [], [], 100
    for i, ps in enumerate(lists):
        nm = 's%d' % i
        names.append(nm)
        for j, d in enumerate(DECOS):
            prog.append(REG(d, nm, mkh(hid, ps, DOES[(i + j) % 4])))
            hid += 1
    for j, d in enumerate(DECOS):
        for does in DOES:
            nm = 'r_' + does
            if nm not in names:
                names.append(nm)
            prog.append(REG(d, nm, mkh(hid, [(False, 'other1')], does)))
            hid += 1
        prog.append(UNK(d, mkh(hid, [(False, 'other2'), (True, 'empty')], DOES[j % 4])))
        hid += 1
    return prog, names


def random_program(rng, nid):
    names = ['a', 'b', 'c', '', None, 'ü€']
    prog = []
    hs = []
    for _ in range(rng.randint(0, 14)):
        if hs and rng.random() < 0.15:
            h = rng.choice(hs)
        else:
            nps = rng.choice([0, 1, 1, 2, 3])
            ps = []
            for k in range(nps):
                ps.append((rng.random() < 0.25 and not any(p[0] for p in ps), rng.choice(ANNOTS)))
            h = mkh(nid(), ps, rng.choice(DOES))
            hs.append(h)
        d = rng.choice(DECOS)
        if rng.random() < 0.3:
            prog.append(UNK(d, h))
        else:
            prog.append(REG(d, rng.choice(names), h))
    return prog


ROUTE_VARIANTS = [
    ('none', []),
    ('empty-tags', [[]]),
    ('a', [['a']]), ('b', [['b']]), ('zz', [['zz']]), ('empty-string', [['']]),
    ('a,b', [['a', 'b']]), ('zz,a', [['zz', 'a']]),
    ('[a][b]', [['a'], ['b']]), ('[zz][a]', [['zz'], ['a']]), ('[][a]', [[], ['a']]),
    ('bad', [[b'\xff\xfe']]), ('a,bad', [['a', b'\xff']]), ('bad,a', [[b'\xc3', 'a']]),
    ('utf8', [['ü€']]),
]
# (verifier, authentication entries)
ALL_IDS = [1, 2, 3, 4]
AUTH_VARIANTS = [
    (None, []), (None, [1]),
    (([], []), []), (([], []), [1]),
    ((ALL_IDS, []), []), ((ALL_IDS, []), [2]), ((ALL_IDS, []), [3, 1]),
    (([1], []), [1]), (([1], []), [2]), (([1], []), [2, 1]), (([1], []), [1, 2]),
    (([1, 2], ['a']), [1]), (([1, 2], ['zz', 'b']), [2]),
]
UNPARSEABLE = [{'none': True}, {'raw': '05'}, {'raw': 'fe0000'}, {'raw': 'fc00000100'},
               {'items': [('route', [hx('a')]), ('auth', 1)], 'tail': 'fe00'},
               {'items': [('auth', 1), ('route', [hx('a')])], 'tail': '03'}]


def layout(routes, auths, k):
    """Place routing entries, authentication entries and other entries: k selects route first / last / middle."""
    R = [('route', [hx(t) for t in tags]) for tags in routes]
    A = [('auth', a) for a in auths]
    O1, O2 = ('other', k), ('other', k + 1)
    k = k % 4
    if k == 0:
        return R + A
    if k == 1:
        return A + R
    if k == 2:
        return [O1] + R[:1] + [O2] + A + R[1:]
    return A[:1] + [O1] + R + A[1:] + [O2]


def gen_requests(ctx, prog_names):
    """Yields (program key, request) over the cross product."""
    rng = ctx.rng
    layouts = [0, 1, 2, 3] if ctx.thorough else None
    for pk in prog_names:
        for meth in METHS:
            for rname, routes in ROUTE_VARIANTS:
                for v, auths in AUTH_VARIANTS:
                    for k in (layouts or [rng.randrange(4)]):
                        yield pk, {'meth': meth, 'md': {'items': layout(routes, auths, k)}, 'v': v, 'desfail': [],
                                   'ser_ok': True, 'tagkind': rname, 'layout': k}
            for md in UNPARSEABLE:
                for v in (None, (ALL_IDS, [])):
                    yield pk, {'meth': meth, 'md': md, 'v': v, 'desfail': [], 'ser_ok': True, 'tagkind': 'unparseable',
                               'layout': -1}
            # empty metadata
            yield pk, {'meth': meth, 'md': {'items': []}, 'v': None, 'desfail': [], 'ser_ok': True, 'tagkind': 'none',
                       'layout': 0}


def gen_style_requests(ctx, names):
    for meth in METHS:
        for nm in names + ['zz']:
            for desfail in ([], [1], [2], [9], [1, 2, 9]):
                for ser_ok in (True, False):
                    if not ser_ok and desfail:
                        continue
                    yield 'styles', {'meth': meth, 'md': {'items': layout([[nm]], [1], 1)}, 'v': (ALL_IDS, []),
                                     'desfail': desfail, 'ser_ok': ser_ok, 'tagkind': 'style', 'layout': 1}


def gen_random_requests(rng, n):
    tags = ['a', 'b', 'c', 'zz', '', 'ü€', b'\xff']
    for _ in range(n):
        items = []
        for _ in range(rng.randint(0, 5)):
            x = rng.random()
            if x < 0.4:
                items.append(('route', [hx(rng.choice(tags)) for _ in range(rng.choice([0, 1, 1, 1, 2, 3]))]))
            elif x < 0.7:
                items.append(('auth', rng.choice(ALL_IDS)))
            else:
                items.append(('other', rng.randrange(3)))
        v = rng.choice([None, ([], []), (ALL_IDS, []), ([1], []), ([1, 2], ['a']), ([2, 3], ['b', '']), ([4], [])])
        yield {'meth': rng.choice(METHS), 'md': {'items': items}, 'v': v,
               'desfail': rng.choice([[], [], [1], [2], [9], [1, 2]]), 'ser_ok': rng.random() < 0.8,
               'tagkind': 'random', 'layout': -2}


# ------------------------------------------------------------------------------------------------

def _observe(runner, key, prog, req):
    router, raised, hid_of = runner.router_for(key, prog)
    before = router_view(router, hid_of)
    obs = runner.run(router, req)
    after = router_view(router, hid_of)
    return raised, obs, before, after


def _distribution(corr, req, obs):
    corr.count('method:' + req['meth'])
    corr.count('route:' + req['tagkind'])
    corr.count('verifier:' + ('none' if req['v'] is None else 'configured'))
    res = obs['res']
    if obs['calls']:
        corr.count('outcome:ran/' + (res[1] if res[0] == 'ok' else 'handler-error'))
    else:
        corr.count('outcome:' + (res[2] if res[0] == 'err' else '?'))


def correspond(ctx, corr, model_ok):
    rng = ctx.rng
    corr.oracle_failures.extend(session_oracle())
    corr.count('one connection, several requests (gate per request; non-ASCII route names)', 40)
    corr.oracle_failures.extend(variants_oracle())
    corr.count('verifier handed over in 4 forms x 4 request types; handlers raising 6 exception types x 3 request types', 50)
    runner = Runner()
    progs = fixed_programs()
    sprog, snames = styles_program()
    progs['styles'] = sprog
    counter = itertools.count(1000)
    n_rand = ctx.scale(12, 120)
    for i in range(n_rand):
        progs['rand%d' % i] = random_program(rng, lambda: next(counter))
    keys = list(progs)
    index = {k: i for i, k in enumerate(keys)}

    work = []
    cross = ['empty', 'full', 'sparse', 'unknown_only', 'disjoint', 'quirks']
    work += list(gen_requests(ctx, cross))
    n_cross = len(work)
    work += list(gen_style_requests(ctx, snames))
    for i in range(n_rand):
        for req in gen_random_requests(rng, ctx.scale(40, 120)):
            work.append(('rand%d' % i, req))

    items = []     # (coq text, replayable case)
    sampled = set()
    try:
        # registration cases
        reg_items = []
        for k in keys:
            router, raised, hid_of = runner.router_for(k, progs[k])
            dicts, unk = router_view(router, hid_of)
            corr.evaluations += 1
            corr.count('registration-program')
            if any(raised):
                corr.nontriv(('reg', k, tuple(raised)))
            reg_items.append(('(%s, %s, %s, %s)' % (
                c_prog(progs[k]), clist([cbool(b) for b in raised]),
                clist([clist(['(%s, %s)' % (cname(n), cN(h)) for n, h in d]) for d in dicts]),
                clist([copt(u, cN) for u in unk])), {'program': progs[k], 'raised': raised, 'dicts': dicts, 'unknown': unk}))
        for pk, req in work:
            raised, obs, before, after = _observe(runner, pk, progs[pk], req)
            corr.evaluations += 1
            _distribution(corr, req, obs)
            o = oracle(progs[pk], raised, req, obs, before, after)
            case = {'program': progs[pk], 'request': req}
            if o:
                corr.oracle_failures.append({'what': o, 'case': case, 'impl': obs})
            if obs['calls'] or (obs['res'][0] == 'err' and obs['res'][2] not in ('WNoRoute', 'WParse')):
                corr.nontriv((pk if not pk.startswith('rand') else repr(progs[pk]), req['meth'], repr(req['md']),
                              repr(req['v']), tuple(req['desfail']), req['ser_ok']))
            co = c_outcome(obs)
            if co is None:
                corr.disagreements.append({'what': 'implementation behaviour outside the model\'s vocabulary',
                                           'case': case, 'impl': obs})
                continue
            items.append((c_case(index[pk], req, obs), dict(case, impl=obs)))
            cat = ('ran' if obs['calls'] else obs['res'][2]) if obs['res'][0] in ('ok', 'err') else '?'
            if pk == 'disjoint' and req['v'] is not None and req['layout'] >= 2 and cat not in sampled \
                    and cat in ('ran', 'WAuthRejected', 'WUnknownRoute', 'WAuthMissing', 'WEmptyTags'):
                sampled.add(cat)
                corr.samples.append({'table': pk, 'method': req['meth'], 'metadata': req['md']['items'],
                                     'verifier(accepted ids, denied routes)': req['v'],
                                     'impl': {'ran': obs['calls'], 'result': obs['res']}})
    finally:
        runner.close()
    corr.exhaustive = True
    corr.extra['exhaustive_window'] = (
        '%d requests: 6 route tables x 5 request methods x %d routing-entry shapes x %d (verifier, credentials) '
        'combinations%s + 6 unparseable metadata values' % (
            n_cross, len(ROUTE_VARIANTS), len(AUTH_VARIANTS), ' x 4 entry layouts' if ctx.thorough else ' (layout drawn)'))
    corr.rule = ('route tables built by the real decorators (empty, all types x 2 routes + unknown handlers, sparse, '
                 'unknown-only, disjoint, one with None/empty/duplicate routes, overwritten unknown handlers and a function '
                 'shared by decorators, one with every parameter style x return behaviour, %d random programs); requests '
                 'driven through the five real RoutingRequestHandler methods with composite metadata from the real helpers: '
                 'routing entry absent / empty tag list / known / unknown / empty string / several tags / several entries / '
                 'invalid UTF-8, placed first / last / between other entries, with no / accepted / rejected / second-only-valid '
                 'credentials and no / accept-all / reject-all / per-credential / per-route verifier, failing deserializer '
                 'and serializer; non-trivial = a handler ran or the failure is past the route lookup; distinct by '
                 '(table, method, metadata, verifier, deserializer, serializer)') % n_rand
    if not model_ok:
        return
    progs_def = 'Definition progs : list (list reg) := [\n' + ';\n'.join(c_prog(progs[k]) for k in keys) + '\n].\n'
    shards = []
    owners = []
    shards.append('Definition chk := chk19r.\nDefinition cases : list case19r := [\n' +
                  ';\n'.join(x[0] for x in reg_items) + '\n].')
    owners.append(reg_items)
    for ch in chunks(items, SHARD):
        shards.append(progs_def + 'Definition chk := chk19 progs.\nDefinition cases : list case19 := [\n' +
                      ';\n'.join(x[0] for x in ch) + '\n].')
        owners.append(ch)
    out = run_coq_cases(shards, HEADER, timeout=900)
    for si, (n, nf, idx) in enumerate(out):
        for i in idx:
            what = 'RequestRouter decorators vs model/Routing.v register' if si == 0 else \
                'RoutingRequestHandler/RequestRouter.route vs model/Routing.v dispatch'
            corr.disagreements.append(dict(owners[si][i][1], what=what))


def classify(case):
    return None


def _run_case(case):
    runner = Runner()
    try:
        raised, obs, before, after = _observe(runner, 'x', case['program'], case['request'])
        return oracle(case['program'], raised, case['request'], obs, before, after), obs
    finally:
        runner.close()


def search(ctx, budget_s):
    so = session_oracle() + variants_oracle()
    if so:
        return so[:1]
    t0 = time.time()
    rng = ctx.rng
    counter = itertools.count(1000)
    while time.time() - t0 < budget_s:
        prog = random_program(rng, lambda: next(counter))
        runner = Runner()
        try:
            for req in gen_random_requests(rng, 60):
                raised, obs, before, after = _observe(runner, 'x', prog, req)
                o = oracle(prog, raised, req, obs, before, after)
                if o:
                    return [{'what': o, 'case': {'program': prog, 'request': req}, 'impl': obs}]
        finally:
            runner.close()
    return []


def _fix(case):
    """JSON turned tuples into lists."""
    for r in case['program']:
        r['h']['params'] = [tuple(p) for p in r['h']['params']]
    req = case['request']
    if 'items' in req['md']:
        req['md']['items'] = [tuple(it) for it in req['md']['items']]
    if req['v'] is not None:
        req['v'] = (list(req['v'][0]), list(req['v'][1]))
    return case


def shrink(fc):
    case = fc['case']
    prog = list(case['program'])
    req = case['request']

    def fails(p):
        try:
            return _run_case({'program': p, 'request': req})[0]
        except Exception:
            return None
    i = 0
    while i < len(prog):
        cand = prog[:i] + prog[i + 1:]
        if fails(cand):
            prog = cand
        else:
            i += 1
    o, obs = _run_case({'program': prog, 'request': req})
    return {'what': o, 'case': {'program': prog, 'request': req}, 'impl': obs}


def replay(obj):
    if obj['case'].get('session'):
        return bool(session_oracle())
    if obj['case'].get('variants'):
        return bool(variants_oracle())
    case = _fix(obj['case']['case'])
    o, obs = _run_case(case)
    if o:
        print('oracle:', o)
    return bool(o)


# ------------------------------------------------------------------------------------------------
# one connection, several requests: the authentication gate decides per (route, credentials) every time; route names
# that are not ASCII are dispatched exactly (built by the real helpers, handled by the real RoutingRequestHandler)

def session_oracle():
    import asyncio as _a
    from rsocket.routing.request_router import RequestRouter
    from rsocket.routing.routing_request_handler import RoutingRequestHandler
    from rsocket.extensions.helpers import composite, route, authenticate_simple
    from rsocket.payload import Payload
    from rsocket.helpers import create_response
    out = []
    loop = _a.new_event_loop()
    try:
        ran = []
        router = RequestRouter()
        names = ['public.x', 'admin.y', 'aé', 'aéé', 'données', 'météo', 'événement']

        def reg(name):
            @router.response(name)
            async def rr():
                ran.append(('response', name))
                return create_response(b'secret of ' + name.encode())

            @router.fire_and_forget(name)
            async def fnf():
                ran.append(('fnf', name))

            @router.stream(name)
            async def st():
                ran.append(('stream', name))
                from rsocket.streams.empty_stream import EmptyStream
                return EmptyStream()

            @router.metadata_push(name)
            async def push():
                ran.append(('push', name))
        for nm in names:
            reg(nm)

        async def verifier(route_name, authentication):
            user = bytes(authentication.username)
            if user == b'alice' and not route_name.startswith('admin.'):
                return
            if user == b'root':
                return
            raise PermissionError('%s may not call %s' % (user, route_name))
        handler = RoutingRequestHandler(router, authentication_verifier=verifier)      # ONE connection

        def call(meth, name, user):
            md = bytes(composite(route(name), authenticate_simple(user, 'pw')))
            p = Payload(b'data', md)
            before = len(ran)
            res = loop.run_until_complete(getattr(handler, meth)(p))
            if isinstance(res, _a.Future):
                try:
                    loop.run_until_complete(_a.wait_for(_a.shield(res), 0.01))
                except Exception:
                    pass
            return ran[before:]
        meths = {'request_response': 'response', 'request_fire_and_forget': 'fnf', 'request_stream': 'stream',
                 'on_metadata_push': 'push'}
        for meth, tag in meths.items():
            a = call(meth, 'public.x', 'alice')
            if a != [(tag, 'public.x')]:
                out.append({'what': 'session: an authorised request was not dispatched to its handler: %s %r' % (meth, a),
                            'session': True})
            b = call(meth, 'admin.y', 'alice')          # same credentials, a route the verifier rejects
            if b:
                out.append({'what': 'session: handler %r ran for a request the verifier rejects (same credentials were accepted '
                                    'for another route earlier on this connection)' % (b,), 'session': True})
            c = call(meth, 'admin.y', 'root')
            if c != [(tag, 'admin.y')]:
                out.append({'what': 'session: an authorised request was not dispatched: %s %r' % (meth, c), 'session': True})
        for nm in names[2:]:
            for meth, tag in meths.items():
                d = call(meth, nm, 'root')
                if d != [(tag, nm)]:
                    out.append({'what': 'session: request for route %r reached %r' % (nm, d), 'session': True})
    finally:
        loop.close()
    return out


def variants_oracle():
    """(a) the authentication gate for every way a verifier can be handed over (coroutine function, object with an async
    __call__, functools.partial, a plain function returning an awaitable); (b) a registered handler that raises — whatever it
    raises — is the request's own failure: it ran once, and the unknown-route handler of that type did not run for it"""
    import asyncio as _a
    import functools
    from rsocket.routing.request_router import RequestRouter
    from rsocket.routing.routing_request_handler import RoutingRequestHandler
    from rsocket.extensions.helpers import composite, route, authenticate_simple
    from rsocket.payload import Payload
    from rsocket.helpers import create_response
    from rsocket.streams.empty_stream import EmptyStream
    out = []
    loop = _a.new_event_loop()
    old_disable = logging.root.manager.disable
    logging.disable(logging.CRITICAL)        # every rejected request is logged with a traceback by the library
    try:
        ran = []

        async def verify(route_name, authentication, *_):
            if bytes(authentication.username) != b'root':
                raise PermissionError('rejected')

        class CallableVerifier:
            async def __call__(self, route_name, authentication):
                await verify(route_name, authentication)

        def returns_awaitable(route_name, authentication):
            return verify(route_name, authentication)
        verifiers = {'coroutine function': verify, 'object with async __call__': CallableVerifier(),
                     'functools.partial': functools.partial(verify), 'function returning an awaitable': returns_awaitable}
        EXC = {'KeyError': KeyError('missing'), 'LookupError': LookupError('x'), 'IndexError': IndexError(3),
               'ValueError': ValueError('v'), 'AttributeError': AttributeError('a'), 'RuntimeError': RuntimeError('r')}

        def mk_router():
            router = RequestRouter()

            @router.response('ok')
            async def rr():
                ran.append(('response', 'ok'))
                return create_response(b'fine')

            @router.fire_and_forget('ok')
            async def fnf():
                ran.append(('fnf', 'ok'))

            @router.stream('ok')
            async def st():
                ran.append(('stream', 'ok'))
                return EmptyStream()

            @router.metadata_push('ok')
            async def push():
                ran.append(('push', 'ok'))
            for en, ex in EXC.items():
                def reg(en=en, ex=ex):
                    @router.response('raise.' + en)
                    async def rr2():
                        ran.append(('response', 'raise.' + en))
                        raise ex

                    @router.fire_and_forget('raise.' + en)
                    async def fnf2():
                        ran.append(('fnf', 'raise.' + en))
                        raise ex

                    @router.stream('raise.' + en)
                    async def st2():
                        ran.append(('stream', 'raise.' + en))
                        raise ex
                reg()

            @router.response_unknown()
            async def u1():
                ran.append(('response', 'UNKNOWN'))
                return create_response(b'catch-all')

            @router.fire_and_forget_unknown()
            async def u2():
                ran.append(('fnf', 'UNKNOWN'))

            @router.stream_unknown()
            async def u3():
                ran.append(('stream', 'UNKNOWN'))
                return EmptyStream()
            return router

        def call(handler, meth, name, user):
            md = bytes(composite(route(name), authenticate_simple(user, 'pw')))
            before = len(ran)
            res = None
            try:
                res = loop.run_until_complete(getattr(handler, meth)(Payload(b'data', md)))
                if isinstance(res, _a.Future):
                    try:
                        res = ('result', loop.run_until_complete(_a.wait_for(_a.shield(res), 0.01)))
                    except Exception as e:
                        res = ('error', type(e).__name__)
            except Exception as e:
                res = ('raised', type(e).__name__)
            return ran[before:], res
        meths = {'request_response': 'response', 'request_fire_and_forget': 'fnf', 'request_stream': 'stream',
                 'on_metadata_push': 'push'}
        for vname, v in verifiers.items():
            handler = RoutingRequestHandler(mk_router(), authentication_verifier=v)
            for meth, tag in meths.items():
                a, _ = call(handler, meth, 'ok', 'mallory')
                if a:
                    out.append({'what': 'verifier given as %s: handler %r ran for a request it rejects' % (vname, a), 'variants': True})
                b, _ = call(handler, meth, 'ok', 'root')
                if b != [(tag, 'ok')]:
                    out.append({'what': 'verifier given as %s: accepted request dispatched to %r' % (vname, b), 'variants': True})
        handler = RoutingRequestHandler(mk_router())
        for en in EXC:
            for meth, tag in list(meths.items())[:3]:
                a, res = call(handler, meth, 'raise.' + en, 'root')
                if a != [(tag, 'raise.' + en)]:
                    out.append({'what': 'a handler raising %s: handlers that ran for that one request: %r' % (en, a), 'variants': True})
                if meth == 'request_response' and (not isinstance(res, tuple) or res[0] == 'result'):
                    out.append({'what': 'a request-response handler raising %s was answered with %r instead of an error' % (en, res),
                                'variants': True})
    finally:
        logging.disable(old_disable)
        loop.close()
    return out
