"""C03 — fragmentation and reassembly are exact and respect the size limit.
Correspondence: real get_next_fragment loop (FrameFragmenter + new_frame_fragment), Frame.serialize, parse_or_ignore and
FrameFragmentCache.append against model/Fragmenter.v; oracle = the clauses of the property on the implementation."""
from harness import internals
import time

from harness import frames as FR
from harness.common import chunks, run_coq_cases, cN, cbool, clist, copt

MODEL_TARGETS = ['model/Fragmenter.vo', 'model/Frame.vo', 'corr/C03Corr.vo', 'corr/Harness.vo']
ASSUMPTIONS = [
    'fragment sizes >= 64 (RSocketBase._assert_valid_fragment_size rejects smaller ones)',
    'a reassembled frame keeps the FOLLOWS flag of its first fragment set; no handler reads it (compared modulo that flag)',
]
HEADER = ('From Coq Require Import NArith List Init.Byte.\nFrom RSV Require Import lib.Bytes model.Frame model.Fragmenter '
          'corr.C03Corr corr.Harness.\nImport ListNotations.\nOpen Scope N_scope.\nDefinition chk := chk03.\n')
SHARD = 150
FTYPES = ['Payload', 'RequestResponse', 'RequestFnf', 'RequestStream', 'RequestChannel']
HDR = {'Payload': 6, 'RequestResponse': 6, 'RequestFnf': 6, 'RequestStream': 10, 'RequestChannel': 10}


def mk(t, sid, md, d, complete=False, n=7, ign=False):
    fr = {'t': t, 'sid': sid, 'ign': ign, 'follows': False, 'md': md, 'd': d}
    if t in ('RequestStream', 'RequestChannel'):
        fr['n'] = n
    if t in ('RequestChannel', 'Payload'):
        fr['complete'] = complete
    if t == 'Payload':
        fr['next'] = True
    return fr


def impl_fragments(fr, size, lenreq):
    from rsocket.frame import parse_or_ignore
    from rsocket.frame_fragment_cache import FrameFragmentCache
    o = FR.build(fr)
    o.fragment_size_bytes = size
    frs = []
    for _ in range(100000):
        g = o.get_next_fragment(lenreq)
        if g is None:
            break
        frs.append(g)
    else:
        raise RuntimeError('fragment generator does not terminate')
    desc = [FR.describe(g) for g in frs]
    sers = [g.serialize() for g in frs]
    cache = FrameFragmentCache()
    out = None
    raised = None
    for s in sers:
        p = parse_or_ignore(s)
        try:
            out = cache.append(p)
        except Exception as e:
            raised = type(e).__name__
            break
    reasm = FR.describe(out) if out is not None else None
    return desc, sers, reasm, len(internals.cache_dict(cache)), raised


def oracle(fr, size, lenreq, desc, sers, reasm, cache_left, raised):
    """The clauses of C03 on the implementation's output; returns (message, finding_tag) or None."""
    md, d = fr['md'], fr['d']
    if raised:
        return 'reassembly raised %s' % raised, None
    if not desc:
        return 'no fragment emitted', None
    if b''.join(x['md'] for x in desc) != md or b''.join(x['d'] for x in desc) != d:
        return 'fragments do not carry exactly the original metadata and data in order', None
    seen_data = False
    for x in desc:
        if seen_data and x['md']:
            return 'metadata after data', None
        if x['d']:
            seen_data = True
    if desc[0]['t'] != fr['t']:
        return 'first fragment has type %s, not %s' % (desc[0]['t'], fr['t']), None
    if 'n' in fr and desc[0].get('n') != fr['n']:
        return 'first fragment lost the initial request-n', None
    for x in desc[1:]:
        if x['t'] != 'Payload':
            return 'continuation fragment is %s, not PAYLOAD' % x['t'], None
    for i, x in enumerate(desc):
        last = i == len(desc) - 1
        if x['follows'] != (not last):
            return 'follows flag wrong on fragment %d of %d' % (i, len(desc)), None
        if not last and x.get('complete'):
            return 'complete flag on a non-final fragment', None
        if x['sid'] != fr['sid']:
            return 'fragment on another stream', None
    if bool(desc[-1].get('complete')) != bool(fr.get('complete')):
        return 'complete flag of the last fragment differs from the frame', None
    if size is None and len(desc) != 1:
        return 'unfragmented configuration produced %d frames' % len(desc), None
    if size is not None:
        budget1 = size - HDR[fr['t']] - (3 if lenreq else 0)
        if len(md) + len(d) <= budget1 and len(desc) != 1:
            return 'a frame that fits was split into %d fragments' % len(desc), None
    # reassembly
    exp = FR.norm(dict(fr, follows=len(desc) > 1))
    if fr['t'] == 'Payload':
        exp['next'] = bool(md or d)   # an empty payload is 'no element': the sender never puts NEXT on it
    if reasm is None or cache_left:
        return 'receiver did not reassemble the frame (cache entries left: %d)' % cache_left, None
    if reasm != exp:
        diff = [k for k in exp if reasm.get(k) != exp.get(k)]
        return 'reassembled frame differs in %s' % diff, None
    # size limit (last: this is where the known finding lives)
    if size is not None:
        for x, s in zip(desc, sers):
            w = len(s) + (3 if lenreq else 0)
            if w > size:
                if x['md'] and w <= size + 3:
                    return ('fragment carrying metadata is %d bytes on the wire, limit %d (metadata length field not '
                            'budgeted)' % (w, size)), 'KF-C03-md-length-field'
                return 'fragment is %d bytes on the wire, limit %d' % (w, size), None
    return None


def classify(case):
    return case.get('finding')


def _grid(size, lenreq, t):
    b1 = size - HDR[t] - (3 if lenreq else 0)
    b2 = size - 6 - (3 if lenreq else 0)
    pts = {0, 1, 2, b1 - 1, b1, b1 + 1, b1 + b2 - 1, b1 + b2, b1 + b2 + 1, b1 + 2 * b2, b1 + 2 * b2 + 1, b2, b2 - 1, b2 + 1,
           2 * b2, 3 * b2 + b1}
    return sorted(p for p in pts if p >= 0)


def _coq_case(fr, size, lenreq, desc, sers, reasm, env):
    return '(%s, %s, %s, %s, %s, %s)' % (
        FR.coq_frame(fr, env), copt(size, cN), cbool(lenreq), clist([FR.coq_frame(x, env) for x in desc]),
        clist([cN(len(s)) for s in sers]), 'None' if reasm is None else '(Some %s)' % FR.coq_frame(reasm, env))


def _one(fr, size, lenreq, corr, items, env, record=True):
    desc, sers, reasm, left, raised = impl_fragments(fr, size, lenreq)
    corr.evaluations += 1
    o = oracle(fr, size, lenreq, desc, sers, reasm, left, raised)
    if o:
        corr.oracle_failures.append({'what': o[0], 'finding': o[1], 'frame': fr, 'size': size, 'lenreq': lenreq})
    corr.count('fragments:%s' % (len(desc) if len(desc) < 4 else '4+'))
    corr.count('type:' + fr['t'])
    if len(desc) > 1:
        corr.nontriv((fr['t'], len(fr['md']), len(fr['d']), size, lenreq, fr.get('complete')))
    if record and raised is None:
        items.append((_coq_case(fr, size, lenreq, desc, sers, reasm, env),
                      {'frame': fr, 'size': size, 'lenreq': lenreq, 'impl_fragments': desc, 'impl_reassembled': reasm}))
        if len(corr.samples) < 3 and len(desc) == 3:
            corr.samples.append({'type': fr['t'], 'md_len': len(fr['md']), 'd_len': len(fr['d']), 'size': size,
                                 'lenreq': lenreq, 'fragment_lens': [len(s) for s in sers],
                                 'flags': [(x['follows'], x.get('complete')) for x in desc]})


def correspond(ctx, corr, model_ok):
    from harness import battery
    battery.run(corr, ['stale-partial-across-reconnect'])
    rng = ctx.rng
    items = []
    sizes = [64, 65, 70, 128] if not ctx.thorough else [64, 65, 66, 70, 127, 128, 1000]
    # boundary grid (all pairs of boundary lengths), every type, both framings
    for t in FTYPES:
        for size in sizes[:2] if not ctx.thorough else sizes[:4]:
            for lenreq in (True, False):
                g = _grid(size, lenreq, t)
                for ml in g:
                    for dl in g:
                        if not ctx.thorough and rng.random() < 0.55:
                            continue
                        env = FR.Env()
                        md = env.add_pat(3, ml) if ml >= 48 else FR.pat(3, 0, ml)
                        d = env.add_pat(9, dl) if dl >= 48 else FR.pat(9, 0, dl)
                        _one(mk(t, rng.choice([1, 2, 5, 0x7FFFFFFF]), md, d, complete=rng.random() < 0.5,
                                n=rng.choice([1, 7, 0x7FFFFFFF])), size, lenreq, corr, items, env)
    # random
    for _ in range(ctx.scale(300, 6000)):
        t = rng.choice(FTYPES)
        size = rng.choice(sizes + [None])
        lenreq = rng.random() < 0.5
        env = FR.Env()
        hi = 3 * (size or 64)
        ml = rng.choice([0, 0, rng.randint(0, hi), rng.randint(0, 20)])
        dl = rng.choice([0, rng.randint(0, hi), rng.randint(0, 20), rng.randint(0, 6 * (size or 64))])
        md = env.add_pat(rng.randrange(1, 200), ml) if ml >= 48 else FR.pat(3, 0, ml)
        d = env.add_pat(rng.randrange(1, 200), dl) if dl >= 48 else FR.pat(9, 0, dl)
        _one(mk(t, rng.randrange(1, 1 << 31), md, d, complete=rng.random() < 0.5, n=rng.randrange(1, 1 << 31),
                ign=rng.random() < 0.1), size, lenreq, corr, items, env)
    # large payload
    for n in ([70000] if not ctx.thorough else [70000, 300000, 1 << 20]):
        env = FR.Env()
        _one(mk('Payload', 3, env.add_pat(5, 300), env.add_pat(11, n), complete=True), 64, True, corr, items, env,
             record=(n <= 70000))
    # exhaustive oracle window on the implementation (thorough): every (|md|,|d|) in [0, 2*budget+2]^2
    if ctx.thorough:
        cnt = 0
        for t in FTYPES:
            for size in (64, 65):
                for lenreq in (True, False):
                    b = size - 6 - (3 if lenreq else 0)
                    for ml in range(0, 2 * b + 3):
                        for dl in range(0, 2 * b + 3):
                            fr = mk(t, 1, FR.pat(3, 0, ml), FR.pat(9, 0, dl), complete=(ml + dl) % 2 == 0)
                            desc, sers, reasm, left, raised = impl_fragments(fr, size, lenreq)
                            o = oracle(fr, size, lenreq, desc, sers, reasm, left, raised)
                            cnt += 1
                            if o:
                                corr.oracle_failures.append({'what': o[0], 'finding': o[1], 'frame': fr, 'size': size,
                                                             'lenreq': lenreq})
        corr.extra['oracle_exhaustive_window'] = cnt
        corr.evaluations += cnt
    corr.oracle_failures.extend(endpoint_size_oracle())
    corr.count('endpoints with fragmentation: every request API, responses and elements in both roles, judged on the wire', 8)
    nb = ctx.scale(60, 1500)
    corr.oracle_failures.extend(burst_oracle(rng, nb))
    corr.count('bursts through the real sender', nb)
    corr.evaluations += nb
    corr.rule = ('five fragmentable frame types x fragment sizes x both framing modes x (|metadata|,|data|) over all pairs of '
                 'boundary lengths (0,1,budget-1,budget,budget+1, 2 and 3 fragments +-1) plus random lengths up to 6 fragments '
                 'and a 70000-byte payload; real get_next_fragment/serialize/parse_or_ignore/FrameFragmentCache; non-trivial = '
                 'more than one fragment; distinct by (type,|md|,|d|,size,framing,complete).  Bursts: 2..5 large frames queued back to '
                 'back on one stream through the REAL sender with the writer blocked at random moments and another stream in '
                 'between, the wire fed to a real FrameFragmentCache: what comes out per stream must be what was queued')
    # the same known-finding witness must not flood the report: keep one per finding
    if not model_ok:
        return
    shards = ['Definition cases : list case03 := [\n' + ';\n'.join(x[0] for x in ch) + '\n].'
              for ch in chunks(items, SHARD)]
    out = run_coq_cases(shards, HEADER, timeout=900)
    for si, (n, nf, idx) in enumerate(out):
        for i in idx:
            corr.disagreements.append(dict(items[si * SHARD + i][1], what='fragmenter/cache vs model/Fragmenter.v'))


def burst_scripts(rng, n):
    """several large frames queued back to back on ONE stream (a publisher emitting a burst), the writer blocked at
    different moments, other streams in between: the fragments travel through the real sender and the receiver's cache"""
    out = []
    for _ in range(n):
        size = rng.choice([64, 64, 65, 100])
        lenreq = rng.random() < 0.5
        sid = rng.choice([1, 2, 7])
        script = []
        k = rng.randint(2, 5)
        for i in range(k):
            t = 'Payload' if i or rng.random() < 0.6 else rng.choice(['RequestResponse', 'RequestStream', 'RequestChannel'])
            dl = rng.choice([10, size - 6, 2 * size, 3 * size + 5, rng.randint(0, 4 * size)])
            ml = rng.choice([0, 0, 5, size, rng.randint(0, 2 * size)])
            script.append(('enq', mk(t, sid, FR.pat(3 + i, 0, ml), FR.pat(9 + i, 0, dl), complete=(i == k - 1))))
            r = rng.random()
            if r < 0.3:
                script.append(('permit', rng.randint(1, 3)))
            elif r < 0.45:
                script.append(('enq', mk('Payload', sid + 2, b'', FR.pat(40 + i, 0, rng.randint(0, 3 * size)))))
            elif r < 0.55:
                script.append(('tick',))
        out.append((script, size, lenreq))
    return out


def burst_oracle(rng, n):
    from harness.props import c05
    fails = []
    for script, size, lenreq in burst_scripts(rng, n):
        labels, wire = c05.run_history(script, size, lenreq)
        o = c05.oracle(labels, wire, size, lenreq)
        if o:
            fails.append({'what': 'fragments through the real sender and the receiver\'s cache: ' + o, 'kind': 'burst',
                          'script': script, 'size': size, 'lenreq': lenreq})
    return fails


def known_md_length_field():
    """KF-C03-md-length-field replayed: 58 bytes of metadata, size 64, no length prefix -> 67 bytes on the wire."""
    fr = mk('Payload', 1, FR.pat(3, 0, 58), b'')
    desc, sers, reasm, left, raised = impl_fragments(fr, 64, False)
    return any(len(s) > 64 for s in sers)


KNOWN = {'KF-C03-md-length-field': known_md_length_field}


def search(ctx, budget_s):
    from harness.common import CorrResult
    t0 = time.time()
    rng = ctx.rng
    while time.time() - t0 < budget_s:
        c = CorrResult()
        for _ in range(400):
            t = rng.choice(FTYPES)
            size = rng.choice([64, 65, 100, None])
            hi = 4 * (size or 64)
            fr = mk(t, 1, FR.pat(3, 0, rng.choice([0, rng.randint(0, hi)])), FR.pat(9, 0, rng.randint(0, hi)),
                    complete=rng.random() < 0.5)
            _one(fr, size, rng.random() < 0.5, c, [], None, record=False)
        bad = [x for x in c.oracle_failures if x.get('finding') is None]
        if bad:
            return bad[:1]
        bad = burst_oracle(rng, 40)
        if bad:
            return bad[:1]
        bad = endpoint_size_oracle()
        if bad:
            return bad[:1]
    return []


def _unrepr(x):
    import ast
    if isinstance(x, str) and x.startswith(("b'", 'b"')):
        return ast.literal_eval(x)
    if isinstance(x, list):
        return [_unrepr(y) for y in x]
    if isinstance(x, dict):
        return {k: _unrepr(v) for k, v in x.items()}
    return x


def replay(obj):
    from harness import battery as _bat
    _r = _bat.replay(obj.get('case') if isinstance(obj.get('case'), dict) else obj)
    if _r is not None:
        return _r
    import ast
    case = obj['case']
    if case.get('kind') == 'endpoint-size':
        return bool(endpoint_size_oracle())
    if case.get('kind') == 'burst':
        from harness.props import c05
        script = [tuple(_unrepr(st)) for st in case['script']]
        labels, wire = c05.run_history(script, case['size'], case['lenreq'])
        o = c05.oracle(labels, wire, case['size'], case['lenreq'])
        if o:
            print('oracle:', o)
        return bool(o)
    fr = case['frame']
    for k, v in list(fr.items()):
        if isinstance(v, str) and v.startswith(("b'", 'b"')):
            fr[k] = ast.literal_eval(v)
    desc, sers, reasm, left, raised = impl_fragments(fr, case['size'], case['lenreq'])
    o = oracle(fr, case['size'], case['lenreq'], desc, sers, reasm, left, raised)
    if o:
        print('oracle:', o[0])
    return bool(o) and o[1] is None


# ---------------------------------------------------------------------------------------------
# every way a payload can leave an ENDPOINT with fragmentation configured: the five request APIs, responses, stream and
# channel elements in both roles.  What is judged is what reaches the transport.

def run_endpoint_sizes(role, size, lenreq, n_bytes):
    import asyncio
    from datetime import timedelta
    from harness import sim
    from rsocket.rsocket_client import RSocketClient
    from rsocket.rsocket_server import RSocketServer
    from rsocket.request_handler import BaseRequestHandler
    from rsocket.helpers import single_transport_provider, create_future
    from rsocket.payload import Payload
    from rsocket.streams.stream_from_generator import StreamFromGenerator
    from reactivestreams.subscriber import DefaultSubscriber
    loop = sim.new_loop()
    sim.patch_clock(loop)
    T = sim.make_transport_class()
    t = T(lenreq=lenreq)
    big = lambda tag: tag + FR.pat(17, 0, n_bytes - len(tag))       # noqa: E731
    sent_payloads = []

    def src(tag):
        def g():
            for i in range(2):
                p = big(b'%s%d|' % (tag, i))
                sent_payloads.append(p)
                yield Payload(p), i == 1
        return StreamFromGenerator(g)

    class H(BaseRequestHandler):
        async def request_response(self, payload):
            f = create_future()
            p = big(b'resp|')
            sent_payloads.append(p)
            f.set_result(Payload(p))
            return f

        async def request_stream(self, payload):
            return src(b'selem')

        async def request_channel(self, payload):
            return src(b'celem'), DefaultSubscriber()
    box = {}
    try:
        def mk():
            if role == 'client':
                box['e'] = RSocketClient(single_transport_provider(t), handler_factory=H, fragment_size_bytes=size,
                                         keep_alive_period=timedelta(seconds=1000), max_lifetime_period=timedelta(seconds=5000))
                asyncio.create_task(box['e'].connect())
            else:
                box['e'] = RSocketServer(t, handler_factory=H, fragment_size_bytes=size)
        loop.run(mk)
        loop.settle()
        e = box['e']
        t.sent.clear()

        def requests():
            for tag, call in ((b'rr|', lambda p: e.request_response(p)), (b'fnf|', lambda p: e.fire_and_forget(p)),
                              (b'rs|', lambda p: e.request_stream(p).subscribe(DefaultSubscriber())),
                              (b'rc|', lambda p: e.request_channel(p, src(b'mine')).subscribe(DefaultSubscriber())),
                              (b'rc2|', lambda p: e.request_channel(p).initial_request_n(7).subscribe(DefaultSubscriber()))):
                p = big(tag)
                sent_payloads.append(p)
                call(Payload(p))
        loop.run(requests)
        loop.settle()
        # the peer: asks for everything our channel publisher has, and makes requests of its own that we answer
        peer_first = 2 if role == 'client' else 1
        mine = [sim.parse_sent(b) for b in t.sent]
        for f in mine:
            if f['t'] == 'RequestChannel' and not f.get('follows') or (f['t'] == 'RequestChannel'):
                t.inject_frame(FR.build({'t': 'RequestN', 'sid': f['sid'], 'ign': False, 'n': 100}).serialize())
        for k, ty in enumerate(('RequestResponse', 'RequestStream', 'RequestChannel')):
            fr = {'t': ty, 'sid': peer_first + 2 * k, 'ign': False, 'follows': False, 'md': b'', 'd': b'peer'}
            if ty != 'RequestResponse':
                fr['n'] = 100
            if ty == 'RequestChannel':
                fr['complete'] = False
            t.inject_frame(FR.build(fr).serialize())
        loop.settle()
        return [bytes(b) for b in t.sent], sent_payloads
    finally:
        loop.finish()


def endpoint_size_oracle():
    from rsocket.frame import parse_or_ignore
    from rsocket.frame_fragment_cache import FrameFragmentCache
    out = []
    for role in ('client', 'server'):
        for size, lenreq, n_bytes in ((64, True, 300), (64, False, 300), (100, True, 95), (64, False, 116)):
            wire, payloads = run_endpoint_sizes(role, size, lenreq, n_bytes)
            bad = []
            cache = FrameFragmentCache()
            got = []
            for b in wire:
                if len(b) + (3 if lenreq else 0) > size:
                    d = FR.describe(parse_or_ignore(b))
                    bad.append('%s frame of %d bytes on the wire (stream %d), fragment size %d' % (d['t'], len(b) + (3 if lenreq else 0), d['sid'], size))
                fobj = parse_or_ignore(b)
                d = FR.describe(fobj)
                if d['t'] in FTYPES:
                    r = cache.append(fobj)
                    if r is not None:
                        got.append(bytes(FR.describe(r).get('d') or b''))
            missing = [p[:12] for p in payloads if p not in got]
            if missing:
                bad.append('payloads not reassembled intact from the wire: %r' % missing[:4])
            if bad:
                out.append({'what': 'endpoint with fragment size %d: %s' % (size, '; '.join(bad[:3])), 'kind': 'endpoint-size',
                            'endpoint_size_case': [role, size, lenreq, n_bytes]})
    return out
