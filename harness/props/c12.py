"""C12 — hostile input and failing application code are contained.
Correspondence: a real server / client endpoint on the single-step loop is fed hostile histories (frames for unknown and
finished streams, reused ids, protocol-violating types, raising handlers, undecodable ERROR text, raw random bytes and empty
messages in both framings, truncated fragments) mixed with legal traffic; every atomic section is replayed through
model/Endpoint.v.  Oracle (the property itself): no exception escapes, receiver and sender stay alive, whatever is sent
in reaction to a frame is on that frame's stream, and AFTERWARDS a probe request from the peer and a probe request of
our own are both served correctly."""
from harness import epcheck as E, sim, endpoint as EP

MODEL_TARGETS = E.MODEL_TARGETS + ['model/Parser.vo']
ASSUMPTIONS = [
    'hostile frames are injected as bytes through the transport\'s own FrameParser (length-prefixed or message framing)',
    'one label = one call of _handle_next_frame with an application handler that does not suspend',
    'undecodable byte strings are skipped by the parser (C04 proves the byte loop total for every decoder verdict)',
]
KEEP, KEYS = 'keep_service', True


def probe(sc):
    """after the hostile history: is a request of the peer, and one of ours, still served?"""
    from rsocket.payload import Payload
    rec = sc.rec
    res = {}
    sid = sc.peer_next + 100
    oid = len(rec.objs)
    before = len(rec.t.sent)
    sc._inject({'t': 'RequestResponse', 'sid': sid, 'ign': False, 'follows': False, 'md': b'', 'd': b'probe'}, ('future',))
    fut = rec.app.get(oid, {}).get('fut') if len(rec.objs) > oid else None
    if fut is None:
        res['peer_probe'] = 'the request handler was not reached'
    else:
        rec.label('appresolve', oid, ('result', b'', b'answer'))
        rec.act(lambda: fut.set_result(Payload(b'answer')))
        rec.settle()
        got = [sim.parse_sent(b) for b in rec.t.sent[before:]]
        ok = [g for g in got if g.get('t') == 'Payload' and g.get('sid') == sid and g.get('d') == b'answer'
              and g.get('complete') and g.get('next')]
        if len(ok) != 1:
            res['peer_probe'] = 'answer frames for the probe: %r' % ([(g.get('t'), g.get('sid')) for g in got],)
    oid2 = len(rec.objs)
    box = {}
    rec.label('reqresponse', b'', b'ping')
    rec.act(lambda: box.setdefault('f', rec.ep.request_response(Payload(b'ping'))))
    rec.settle()
    if len(rec.objs) <= oid2:
        res['own_probe'] = 'request_response did not register a stream'
    else:
        sid2 = rec.objs[oid2].stream_id
        sc._inject({'t': 'Payload', 'sid': sid2, 'ign': False, 'follows': False, 'complete': True, 'next': True,
                    'md': b'', 'd': b'pong'})
        f = box['f']
        if not f.done() or f.cancelled() or f.exception() is not None or b'pong' not in bytes(f.result().data):
            # (the peer may fragment its answer, or have sent stray fragments on this id before: its own answer is then its own mess)
            res['own_probe'] = 'own request not answered: %r' % (f,)
    ep = rec.ep
    for name in ('_receiver_task', '_sender_task'):
        t = getattr(ep, name, None)
        if t is None or t.done():
            res[name] = 'task is gone: %r' % (t,)
    if rec.loop.exceptions:
        res['escaped'] = rec.loop.exceptions[:3]
    return res


def oracle(sc):
    out = []
    res = getattr(sc, 'post_result', None) or {}
    for k, v in res.items():
        out.append(E.failure('not-served:' + k, sc, detail=v))
    # containment: what is sent while handling a frame is on that frame's stream
    steps = EP.steps_of_log(sc.rec.log)
    for i, (lab, utf8, effs, tk, ck) in enumerate(steps):
        if lab[0] != 'recv':
            continue
        sid = lab[1]['sid']
        for e in effs:
            if e[0] == 'enq' and e[1]['sid'] != sid:
                out.append(E.failure('reaction-on-other-stream', sc, step=i, frame=repr(lab[1])[:200], sent=repr(e[1])[:200]))
    return out


def _descs(ctx, n):
    return E.mk_descs(ctx.rng, n, hostile=0.55, garbage=0.35, with_close=False, steps=(4, 16), frag=0.2)


def correspond(ctx, corr, model_ok):
    n = ctx.scale(160, 1500)
    runs, crashed = E.run_all(_descs(ctx, n), post=probe)
    corr.oracle_failures.extend(crashed)
    for sc in runs:
        corr.oracle_failures.extend(oracle(sc))
        corr.count('raw-byte injections', sc.raw_injected)
        corr.count('fragmented', sc.fragmented)
    if model_ok:
        E.trace_corr(corr, runs, KEEP, KEYS, 'C12 hostile traces vs model/Endpoint.v')
    corr.rule = ('hostile histories (well-formed but illegal frames, raw bytes, raising handlers) of 4..16 steps on a real '
                 'endpoint in both roles and framings, each followed by two probe requests; every atomic section replayed '
                 'through the model')
    corr.samples = [repr(EP.steps_of_log(sc.rec.log)[:3])[:400] for sc in runs[:3]]


def search(ctx, budget):
    import time
    t0 = time.time()
    found = []
    while time.time() - t0 < budget and not found:
        runs, crashed = E.run_all(_descs(ctx, 40), post=probe)
        found.extend(crashed)
        for sc in runs:
            found.extend(oracle(sc))
    return found


def replay(obj):
    case = obj.get('case') or obj
    runs, crashed = E.run_all([case['scenario']], post=probe)
    return bool(crashed) or any(oracle(sc) for sc in runs)
