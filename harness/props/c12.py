"""C12 — hostile input and failing application code are contained.
Correspondence: a real server / client endpoint on the single-step loop is fed hostile histories (frames for unknown and
finished streams, reused ids, protocol-violating types, raising handlers, undecodable ERROR text, raw random bytes and empty
messages in both framings, truncated fragments) mixed with legal traffic; every atomic section is replayed through
model/Endpoint.v.  Oracle (the property itself): no exception escapes, receiver and sender stay alive, whatever is sent
in reaction to a frame is on that frame's stream, and AFTERWARDS a probe request from the peer and a probe request of
our own are both served correctly."""
from harness import internals
from harness import epcheck as E, sim, endpoint as EP

MODEL_TARGETS = E.MODEL_TARGETS + ['model/Parser.vo']
ASSUMPTIONS = [
    'hostile frames are injected as bytes through the transport\'s own FrameParser (length-prefixed or message framing)',
    'one label = one call of _handle_next_frame with an application handler that does not suspend',
    'undecodable byte strings are skipped by the parser (C04 proves the byte loop total for every decoder verdict)',
]
KEEP, KEYS = 'keep_service', True


def probe(sc):
    """after the hostile history: is a request of the peer, and one of ours, still served?"""
    from rsocket.payload import Payload
    rec = sc.rec
    res = {}
    sid = sc.peer_next + 100
    oid = len(rec.objs)
    before = len(rec.t.sent)
    sc._inject({'t': 'RequestResponse', 'sid': sid, 'ign': False, 'follows': False, 'md': b'', 'd': b'probe'}, ('future',))
    fut = rec.app.get(oid, {}).get('fut') if len(rec.objs) > oid else None
    if fut is None:
        res['peer_probe'] = 'the request handler was not reached'
    else:
        rec.label('appresolve', oid, ('result', b'', b'answer'))
        rec.act(lambda: fut.set_result(Payload(b'answer')))
        rec.settle()
        got = [sim.parse_sent(b) for b in rec.t.sent[before:]]
        ok = [g for g in got if g.get('t') == 'Payload' and g.get('sid') == sid and g.get('d') == b'answer'
              and g.get('complete') and g.get('next')]
        if len(ok) != 1:
            res['peer_probe'] = 'answer frames for the probe: %r' % ([(g.get('t'), g.get('sid')) for g in got],)
    oid2 = len(rec.objs)
    box = {}
    before2 = len(rec.t.sent)
    rec.label('reqresponse', b'', b'ping')
    rec.act(lambda: box.setdefault('f', rec.ep.request_response(Payload(b'ping'))))
    rec.settle()
    if len(rec.objs) <= oid2:
        res['own_probe'] = 'request_response did not register a stream'
    else:
        sid2 = rec.objs[oid2].stream_id
        wrote = [g for g in (sim.parse_sent(b) for b in rec.t.sent[before2:]) if g.get('t') == 'RequestResponse' and g.get('sid') == sid2]
        if not wrote:
            res['own_probe'] = 'own request on stream %d was never written (wedged behind something the peer sent)' % sid2
        if sid2 in internals.cache_keys(rec.ep):
            # the hostile peer had already sent a stray first fragment on this very id: whatever it now answers is
            # glued onto its own earlier bytes — its own mess, not a containment failure
            pass
        else:
            sc._inject({'t': 'Payload', 'sid': sid2, 'ign': False, 'follows': False, 'complete': True, 'next': True,
                        'md': b'', 'd': b'pong'})
            f = box['f']
            if not f.done() or f.cancelled() or f.exception() is not None or b'pong' not in bytes(f.result().data):
                res['own_probe'] = 'own request not answered: %r' % (f,)
    ep = rec.ep
    for name in ('_receiver_task', '_sender_task'):
        t = getattr(ep, name, None)
        if t is None or t.done():
            res[name] = 'task is gone: %r' % (t,)
    if rec.loop.exceptions:
        res['escaped'] = rec.loop.exceptions[:3]
    return res


def oracle(sc):
    out = []
    res = getattr(sc, 'post_result', None) or {}
    for k, v in res.items():
        out.append(E.failure('not-served:' + k, sc, detail=v))
    if getattr(sc.rec, 'broken_frames', 0):
        out.append(E.failure('half-parsed-frame-dispatched-as-valid', sc, count=sc.rec.broken_frames))
    # containment: what is sent while handling a frame is on that frame's stream
    steps = EP.steps_of_log(sc.rec.log)
    for i, (lab, utf8, effs, tk, ck) in enumerate(steps):
        if lab[0] != 'recv':
            continue
        sid = lab[1]['sid']
        for e in effs:
            if e[0] == 'enq' and e[1]['sid'] != sid:
                out.append(E.failure('reaction-on-other-stream', sc, step=i, frame=repr(lab[1])[:200], sent=repr(e[1])[:200]))
    return out


def _descs(ctx, n):
    return E.mk_descs(ctx.rng, n, hostile=0.55, garbage=0.35, with_close=False, steps=(4, 16), frag=0.2, debug_log=0.3)


def correspond(ctx, corr, model_ok):
    from harness import battery
    battery.run(corr, ['endpoint-reads', 'failing-source-wire'])
    n = ctx.scale(160, 1500)
    runs, crashed = E.run_all(_descs(ctx, n), post=probe)
    corr.oracle_failures.extend(crashed)
    for sc in runs:
        corr.oracle_failures.extend(oracle(sc))
        corr.count('raw-byte injections', sc.raw_injected)
        corr.count('frame logging at DEBUG', 1 if sc.desc.get('debug_log') else 0)
        corr.count('fragmented', sc.fragmented)
    corr.oracle_failures.extend(reused_id_oracle())
    corr.count('a request re-using the id of a stream that is still active (all 16 type pairs, both roles)', 32)
    from harness import battery as _b
    _b.run(corr, ['aiohttp-websocket'])
    corr.oracle_failures.extend(failing_responder_oracle())
    corr.count('failing library publishers / futures (factory, first step, later step)', 14)
    if model_ok:
        E.trace_corr(corr, runs, KEEP, KEYS, 'C12 hostile traces vs model/Endpoint.v')
    corr.rule = ('hostile histories (well-formed but illegal frames, raw bytes, raising handlers) of 4..16 steps on a real '
                 'endpoint in both roles and framings, each followed by two probe requests; every atomic section replayed '
                 'through the model')
    corr.samples = [repr(EP.steps_of_log(sc.rec.log)[:3])[:400] for sc in runs[:3]]


def reused_id_oracle():
    """a protocol-violating sequence with a prescribed answer: a request on an id whose stream is still active is answered
    with one ERROR[REJECTED] on that stream, reaches no handler, creates nothing and leaves the active stream as it was
    (scenario and judgement shared with C13)"""
    from harness.props import c13
    out = []
    for first in c13.REQT:
        for second in c13.REQT:
            for role in ('server', 'client'):
                sc, res = c13.dup_scenario(first, second, role, first == second)
                o = c13.dup_oracle(first, second, res)
                if o:
                    out.append({'what': 'hostile sequence: ' + o, 'reused_id_case': [first, second, role]})
    return out


def search(ctx, budget):
    import time
    t0 = time.time()
    found = list(reused_id_oracle())
    while time.time() - t0 < budget and not found:
        runs, crashed = E.run_all(_descs(ctx, 40), post=probe)
        found.extend(crashed)
        for sc in runs:
            found.extend(oracle(sc))
        found.extend(failing_responder_oracle())
    return found


def replay(obj):
    from harness import battery as _bat
    _r = _bat.replay(obj.get('case') if isinstance(obj.get('case'), dict) else obj)
    if _r is not None:
        return _r
    case = obj.get('case') or obj
    if 'responder_case' in case:
        return bool(failing_responder_oracle())
    if 'reused_id_case' in case:
        return bool(reused_id_oracle())
    if 'websocket_case' in case:
        return bool(websocket_oracle())
    runs, crashed = E.run_all([case['scenario']], post=probe)
    return bool(crashed) or any(oracle(sc) for sc in runs)


# ---------------------------------------------------------------------------------------------
# failing application code behind the library's own publishers / futures: every point at which it can raise

def run_failing_responder(kind, where, lenreq):
    """server handler answers request-stream with StreamFromGenerator / StreamFromAsyncGenerator whose factory raises
    (where='factory'), whose generator raises at its first step ('first') or after two elements ('later'); or answers
    request-response with a future that fails.  A healthy request on another stream follows."""
    import asyncio
    from harness import sim, frames as FR
    from rsocket.rsocket_server import RSocketServer
    from rsocket.request_handler import BaseRequestHandler
    from rsocket.payload import Payload
    from rsocket.streams.stream_from_generator import StreamFromGenerator
    from rsocket.streams.stream_from_async_generator import StreamFromAsyncGenerator
    loop = sim.new_loop()
    T = sim.make_transport_class()
    t = T(lenreq=lenreq)

    def gen_factory():
        if where == 'factory':
            raise RuntimeError('factory failed')

        def g():
            if where == 'first':
                raise RuntimeError('first step failed')
            yield Payload(b'e0'), False
            yield Payload(b'e1'), False
            raise RuntimeError('later step failed')
        return g()

    def agen_factory():
        if where == 'factory':
            raise RuntimeError('factory failed')

        async def g():
            if where == 'first':
                raise RuntimeError('first step failed')
            yield Payload(b'e0'), False
            yield Payload(b'e1'), False
            raise RuntimeError('later step failed')
        return g()

    class H(BaseRequestHandler):
        async def request_stream(self, payload):
            if bytes(payload.data) == b'ok':
                def good():
                    yield Payload(b'fine'), True
                return StreamFromGenerator(good)
            return StreamFromGenerator(gen_factory) if kind == 'gen' else StreamFromAsyncGenerator(agen_factory)

        async def request_response(self, payload):
            f = loop.create_future()
            if bytes(payload.data) == b'ok':
                f.set_result(Payload(b'fine'))
            else:
                f.set_exception(RuntimeError('future failed'))
            return f
    box = {}
    try:
        loop.run(lambda: box.setdefault('s', RSocketServer(t, handler_factory=H)))
        loop.settle()
        req = 'RequestResponse' if kind == 'future' else 'RequestStream'

        def fr(sid, d):
            f = {'t': req, 'sid': sid, 'ign': False, 'follows': False, 'md': b'', 'd': d}
            if req == 'RequestStream':
                f['n'] = 10
            return f
        t.inject_frame(FR.build(fr(1, b'bad')).serialize())
        loop.settle()
        t.inject_frame(FR.build(fr(3, b'ok')).serialize())
        loop.settle()
        for _ in range(10):
            loop.tick()
        wire = [sim.parse_sent(b) for b in t.sent]
        s = box['s']
        return {'errors_on_1': [w for w in wire if w.get('sid') == 1 and w['t'] == 'Error'],
                'other_frames_on_1': [w['t'] for w in wire if w.get('sid') == 1 and w['t'] != 'Error'],
                'served_3': any(w.get('sid') == 3 and w['t'] == 'Payload' and w.get('d') == b'fine' for w in wire),
                'registered': sorted(s._stream_control._streams), 'escaped': list(loop.exceptions)[:2],
                'receiver_alive': s._receiver_task is not None and not s._receiver_task.done()}
    finally:
        loop.finish()


def failing_responder_oracle():
    out = []
    for kind, wheres in (('gen', ('factory', 'first', 'later')), ('agen', ('factory', 'first', 'later')), ('future', ('now',))):
        for where in wheres:
            for lenreq in (True, False):
                r = run_failing_responder(kind, where, lenreq)
                n_elems = 2 if where == 'later' else 0
                ok = (len(r['errors_on_1']) == 1 and r['served_3'] and 1 not in r['registered'] and r['receiver_alive']
                      and not r['escaped'] and r['other_frames_on_1'] == ['Payload'] * n_elems)
                if not ok:
                    out.append({'what': 'failing-publisher-not-contained', 'responder_case': [kind, where, lenreq],
                                'detail': repr(r)[:400]})
    return out


# ---------------------------------------------------------------------------------------------
# the aiohttp websocket transports (server and client side) over a fake websocket object: binary garbage, empty messages and
# NON-BINARY websocket messages (TEXT, PING ...) from the peer are ignored; requests around them are served

def run_websocket(side):
    import asyncio
    from datetime import timedelta
    import aiohttp
    from rsocket.frame_builders import to_setup_frame, to_request_response_frame
    from rsocket.helpers import create_response, single_transport_provider
    from rsocket.payload import Payload
    from rsocket.request_handler import BaseRequestHandler
    from rsocket.rsocket_server import RSocketServer
    from rsocket.rsocket_client import RSocketClient
    from rsocket.transports.aiohttp_websocket import TransportAioHttpWebsocket, TransportAioHttpClient
    from rsocket.frame import parse_or_ignore

    class FakeWS:
        def __init__(self):
            self.inq = asyncio.Queue()
            self.sent = []
            self.closed = False

        def __aiter__(self):
            return self

        async def __anext__(self):
            m = await self.inq.get()
            if m is None:
                raise StopAsyncIteration
            return m

        async def send_bytes(self, data):
            self.sent.append(bytes(data))

        async def close(self, *a, **k):
            self.closed = True

        def binary(self, b):
            self.inq.put_nowait(aiohttp.WSMessage(aiohttp.WSMsgType.BINARY, b, None))

        def other(self, ty, data):
            self.inq.put_nowait(aiohttp.WSMessage(ty, data, None))

    class H(BaseRequestHandler):
        async def request_response(self, payload):
            return create_response(b'answer to ' + bytes(payload.data))

    async def main():
        ws = FakeWS()
        res = {'answered': [], 'reader_alive': True}
        if side == 'server':
            t = TransportAioHttpWebsocket(ws)
            ep = RSocketServer(t, handler_factory=H)
            reader = asyncio.create_task(t.handle_incoming_ws_messages())
            ws.binary(to_setup_frame(None, b'a/b', b'c/d', timedelta(seconds=30), timedelta(minutes=10)).serialize())
            first = 1
        else:
            t = TransportAioHttpClient(websocket=ws)
            ep = RSocketClient(single_transport_provider(t), handler_factory=H, keep_alive_period=timedelta(seconds=1000),
                               max_lifetime_period=timedelta(seconds=5000))
            await ep.connect()
            reader = t._message_handler
            first = 2

        async def ask(sid, data):
            ws.binary(to_request_response_frame(sid, Payload(data)).serialize())
            for _ in range(60):
                await asyncio.sleep(0)
                for b in ws.sent:
                    f = parse_or_ignore(b)
                    if f is not None and f.stream_id == sid and type(f).__name__ == 'PayloadFrame':
                        res['answered'].append(sid)
                        return
        await ask(first, b'one')
        ws.binary(b'\\x00\\x01\\x02')
        ws.binary(b'')
        ws.binary(b'\\x00\\x00\\x00\\x05\\xfc\\x00garbage')
        await ask(first + 2, b'two')
        ws.other(aiohttp.WSMsgType.TEXT, 'hello, is this a chat server?')
        await ask(first + 4, b'three')
        ws.other(aiohttp.WSMsgType.PING, b'')
        ws.other(aiohttp.WSMsgType.PONG, b'')
        await ask(first + 6, b'four')
        await asyncio.sleep(0)
        res['reader_alive'] = not reader.done()
        res['want'] = [first, first + 2, first + 4, first + 6]
        ws.inq.put_nowait(None)
        try:
            await asyncio.wait_for(ep.close(), 1)
        except Exception:
            pass
        return res
    return asyncio.run(main())


def websocket_oracle():
    out = []
    try:
        import aiohttp      # noqa: F401
    except ImportError:
        return out
    for side in ('server', 'client'):
        r = run_websocket(side)
        if r['answered'] != r['want'] or not r['reader_alive']:
            out.append({'what': 'aiohttp websocket transport (%s side): requests answered %s of %s around garbage / empty / TEXT / PING '
                                'messages; still reading: %s' % (side, r['answered'], r['want'], r['reader_alive']),
                        'websocket_case': side})
    return out
