"""C05 — per-stream wire order and fragment contiguity under multiplexing.
Correspondence: a real RSocketServer on a gated harness transport (the gate is the blocked writer): frames of all kinds
are queued on 1..4 streams at arbitrary moments relative to the sender's progress; the recorded history (send_frame calls
and the instants at which the sender takes a frame off the queue) and the frames written are compared with
model/SendQueue.v.  Oracle: per-stream projection of the wire = concatenation of the fragment lists in queue order,
and a real FrameFragmentCache fed the wire hands out exactly the queued frames per stream."""
from harness import internals
import asyncio

from harness import frames as FR, sim
from harness.common import chunks, run_coq_cases, clist, cN, cbool, copt
from harness.props import c03

MODEL_TARGETS = ['model/SendQueue.vo', 'corr/C05Corr.vo', 'corr/Harness.vo']
ASSUMPTIONS = [
    'a sender step is recorded when the sender hands a frame to transport.send_frame (it has then left the queue); the write '
    'itself may be delayed arbitrarily by the gate',
    'frames are queued through send_frame with the endpoint fragment size (as send_payload / the request builders do)',
]
HEADER = ('From Coq Require Import NArith List Init.Byte.\nFrom RSV Require Import lib.Bytes model.Frame model.Fragmenter '
          'model.SendQueue corr.C05Corr corr.Harness.\nImport ListNotations.\nOpen Scope N_scope.\nDefinition chk := chk05.\n')
SHARD = 100


def run_history(script, size, lenreq):
    """script: list of ('enq', frame-dict) | ('permit', n) | ('tick',).  Returns (labels, wire descriptors)."""
    from rsocket.rsocket_server import RSocketServer
    loop = sim.new_loop()
    T = sim.make_transport_class()
    t = T(lenreq=lenreq)
    t.gated = True
    log = []
    t.log = log
    box = {}
    try:
        loop.run(lambda: box.setdefault('s', RSocketServer(t, fragment_size_bytes=size)))
        loop.settle()
        s = box['s']
        for step in script:
            if step[0] == 'enq':
                fr = step[1]

                def act():
                    o = FR.build(fr)
                    if hasattr(o, 'fragment_size_bytes') and fr['t'] in c03.FTYPES:
                        o.fragment_size_bytes = size
                    log.append(('enq', fr))
                    s.send_frame(o)
                loop.run(act)
            elif step[0] == 'prio':
                fr = step[1]

                def actp():
                    log.append(('prio', fr))
                    s.send_priority_frame(FR.build(fr))
                loop.run(actp)
            elif step[0] == 'permit':
                t.permit(step[1])
                loop.tick()
            else:
                loop.tick()
        # drain
        idle = 0
        for _ in range(600):
            before = len(t.sent)
            t.permit(1)
            loop.settle()
            if internals.send_queue(s).empty() and len(t.sent) == before:
                idle += 1
                if idle >= 2:
                    break
            else:
                idle = 0
        t._permits = 0
        labels = []
        wire = []
        for e in log:
            if e[0] in ('enq', 'prio'):
                labels.append((e[0], e[1]))
            elif e[0] == 'send-begin':
                labels.append(('send',))
            elif e[0] == 'wire':
                wire.append(e[2])
        return labels, wire
    finally:
        loop.finish()


def oracle(labels, wire_bytes, size, lenreq):
    from rsocket.frame import parse_or_ignore
    from rsocket.frame_fragment_cache import FrameFragmentCache
    wire = [sim.parse_sent(b) for b in wire_bytes]
    enq = [l[1] for l in labels if l[0] == 'enq']
    prio = [l[1] for l in labels if l[0] == 'prio']
    # priority frames (stream 0 keepalives here) jump the queue by design; each must be written exactly once
    w0 = [w for w in wire if w['sid'] == 0]
    if sorted(repr(sorted(x.items())) for x in w0) != sorted(repr(sorted(FR.norm(x).items())) for x in prio):
        return 'priority frames queued %d, written %d (lost or duplicated)' % (len(prio), len(w0))
    sids = sorted({f['sid'] for f in enq})
    for sid in sids:
        exp = []
        for f in [x for x in enq if x['sid'] == sid]:
            if f['t'] in c03.FTYPES:
                desc, _, _, _, _ = c03.impl_fragments(f, size, lenreq)
                exp += desc
            else:
                exp.append(f)
        got = [w for w in wire if w['sid'] == sid]
        expn = [FR.norm(x) for x in exp]
        if got != expn[:len(got)]:
            k = next(i for i in range(len(got)) if i >= len(expn) or got[i] != expn[i])
            return ('stream %d: frame %d on the wire is %s, expected %s (queue order / fragment contiguity broken)' %
                    (sid, k, _short(got[k]), _short(expn[k]) if k < len(expn) else 'nothing'))
        if len(got) != len(expn):
            return 'stream %d: %d frames written, %d expected' % (sid, len(got), len(expn))
    # receiver: reassembly per stream gives back the queued frames
    cache = FrameFragmentCache()
    out = {}
    for b in wire_bytes:
        fobj = parse_or_ignore(b)
        d = FR.describe(fobj)
        if d['t'] in c03.FTYPES:
            try:
                r = cache.append(fobj)
            except Exception as e:
                return 'receiver raised %s while reassembling' % type(e).__name__
            if r is not None:
                out.setdefault(d['sid'], []).append(FR.describe(r))
        else:
            out.setdefault(d['sid'], []).append(d)
    for sid in sids:
        exp = []
        for f in [x for x in enq if x['sid'] == sid]:
            e = FR.norm(dict(f))
            if f['t'] == 'Payload':
                e['next'] = bool(f['md'] or f['d'])
            exp.append(e)
        got = [dict(x, follows=False) for x in out.get(sid, [])]
        if got != [dict(x, follows=False) for x in exp]:
            return 'stream %d: the receiver reassembled %s, queued were %s' % (
                sid, [_short(x) for x in got], [_short(x) for x in exp])
    return None


def _short(f):
    return '%s(sid=%d,md=%d,d=%d%s%s)' % (f['t'], f['sid'], len(f.get('md', b'') or b''), len(f.get('d', b'') or b''),
                                          ',F' if f.get('follows') else '', ',C' if f.get('complete') else '')


def _frame(rng, sid, size, env):
    x = rng.random()
    big = (size or 64)
    if x < 0.6:
        ml = rng.choice([0, 0, 0, 5, big, 2 * big])
        dl = rng.choice([0, 3, big - 10, big, 2 * big, 3 * big + 7])
        md = env.add_pat(rng.randrange(1, 200), ml) if ml >= 48 else FR.pat(3, 0, ml)
        d = env.add_pat(rng.randrange(1, 200), dl) if dl >= 48 else FR.pat(9, 0, dl)
        return c03.mk(rng.choice(['Payload', 'Payload', 'RequestResponse', 'RequestStream', 'RequestChannel', 'RequestFnf']),
                      sid, md, d, complete=rng.random() < 0.3)
    if x < 0.7:
        return {'t': 'Payload', 'sid': sid, 'ign': False, 'follows': False, 'complete': True, 'next': False, 'md': b'', 'd': b''}
    if x < 0.8:
        return {'t': 'Cancel', 'sid': sid, 'ign': False}
    if x < 0.9:
        return {'t': 'RequestN', 'sid': sid, 'ign': False, 'n': rng.randint(1, 100)}
    return {'t': 'Error', 'sid': sid, 'ign': False, 'code': 0x201, 'd': b'boom'}


def correspond(ctx, corr, model_ok):
    rng = ctx.rng
    items = []
    corr.oracle_failures.extend(handler_level_oracle())
    corr.oracle_failures.extend(stream0_order_oracle())
    corr.count('stream 0: LEASE and METADATA_PUSH queued in a burst behind a blocked writer', 4)
    corr.count('handler level: blocked writer, cancel/error behind a partly written fragmented frame', 24)
    for i in range(ctx.scale(400, 4000)):
        size = rng.choice([64, 64, 65, 100, None])
        lenreq = rng.random() < 0.5
        nstreams = rng.randint(1, 4)
        env = FR.Env()
        script = []
        for _ in range(rng.randint(2, 10)):
            x = rng.random()
            if x < 0.08:
                script.append(('prio', {'t': 'Keepalive', 'sid': 0, 'ign': False, 'respond': False, 'pos': rng.randint(0, 9),
                                        'd': b'k%d' % rng.randint(0, 99)}))
            elif x < 0.55:
                script.append(('enq', _frame(rng, 2 * rng.randint(1, nstreams), size, env)))
            elif x < 0.85:
                script.append(('permit', rng.randint(1, 3)))
            else:
                script.append(('tick',))
        labels, wire = run_history(script, size, lenreq)
        corr.evaluations += 1
        enq = [l[1] for l in labels if l[0] == 'enq']
        multi = sum(1 for f in enq if f['t'] == 'Payload' and size and len(f['md']) + len(f['d']) > size)
        same = any(sum(1 for g in enq if g['sid'] == f['sid']) > 1 for f in enq)
        corr.count('streams:%d' % len({f['sid'] for f in enq}))
        corr.count('fragmented-frames:%s' % (multi if multi < 3 else '3+'))
        if multi and same:
            corr.nontriv((tuple(repr(x) for x in script), size, lenreq))
        o = oracle(labels, wire, size, lenreq)
        if o:
            corr.oracle_failures.append({'what': o, 'script': script, 'size': size, 'lenreq': lenreq})
        ls = clist(['QEnq %s' % FR.coq_frame(l[1], env) if l[0] == 'enq' else
                    'QPrio %s' % FR.coq_frame(l[1], env) if l[0] == 'prio' else 'QSend' for l in labels])
        w = clist([FR.coq_frame(sim.parse_sent(b), env) for b in wire])
        items.append(('(%s, %s, %s, %s)' % (copt(size, cN), cbool(lenreq), ls, w),
                      {'script': script, 'size': size, 'lenreq': lenreq, 'labels': [l[0] for l in labels],
                       'wire': [_short(sim.parse_sent(b)) for b in wire]}))
        if len(corr.samples) < 3 and multi >= 2 and same:
            corr.samples.append({'size': size, 'history': [(l[0], _short(l[1])) if l[0] != 'send' else 'send' for l in labels],
                                 'wire': [_short(sim.parse_sent(b)) for b in wire]})
    corr.rule = ('random histories on a real server with a gated transport: 2..10 steps of send_frame (payloads of 0..3+ fragments '
                 'with/without metadata and complete flag, completions, CANCEL, REQUEST_N, ERROR on 1..4 streams), write permits '
                 '(1..3) and idle loop iterations, then drained; fragment sizes 64/65/100/none, both framings. non-trivial = a '
                 'multi-fragment frame and a second frame on the same stream')
    if not model_ok:
        return
    shards = ['Definition cases : list case05 := [\n' + ';\n'.join(x[0] for x in ch) + '\n].'
              for ch in chunks(items, SHARD)]
    out = run_coq_cases(shards, HEADER, timeout=600)
    for si, (n, nf, idx) in enumerate(out):
        for i in idx:
            corr.disagreements.append(dict(items[si * SHARD + i][1], what='send queue: implementation vs model/SendQueue.v'))


def handler_level_oracle():
    """the same property through the library's own handlers: a blocked writer, a fragmented request partly written, then
    cancel() / a publisher error queued behind it (real requesters and responders on two real endpoints): per stream
    the fragment train is not interrupted and CANCEL / ERROR come after everything queued before them"""
    from harness.props import c08
    return [dict(f, what='handler level: ' + f['what']) for f in c08.gated_oracle()]


def search(ctx, budget_s):
    from harness.common import CorrResult
    c = CorrResult()
    correspond(ctx, c, False)
    return c.oracle_failures[:1]


def replay(obj):
    import ast
    case = obj['case']
    if 'gated_case' in case:
        return bool(handler_level_oracle())
    if 'stream0_case' in case:
        return bool(stream0_order_oracle())
    script = []
    for st in case['script']:
        if st[0] in ('enq', 'prio'):
            fr = st[1]
            for k, v in list(fr.items()):
                if isinstance(v, str) and v.startswith(("b'", 'b"')):
                    fr[k] = ast.literal_eval(v)
            script.append((st[0], fr))
        else:
            script.append(tuple(st))
    labels, wire = run_history(script, case['size'], case['lenreq'])
    o = oracle(labels, wire, case['size'], case['lenreq'])
    if o:
        print('oracle:', o)
    return bool(o)


# ---------------------------------------------------------------------------------------------
# stream 0: LEASE, METADATA_PUSH and KEEPALIVE answers queued by one endpoint reach the wire in the order they were queued
# (only SETUP — and a keepalive probe while a frame is partly written — may jump the queue)

def run_stream0_order(role, lenreq):
    import asyncio
    from datetime import timedelta
    from harness import net as NET
    from rsocket.rsocket_client import RSocketClient
    from rsocket.rsocket_server import RSocketServer
    from rsocket.helpers import single_transport_provider
    loop = sim.new_loop()
    sim.patch_clock(loop)
    T = sim.make_transport_class()
    t = T(lenreq=lenreq)
    lease = NET.LeasePub()
    box = {}
    try:
        def mk():
            if role == 'server':
                box['e'] = RSocketServer(t, lease_publisher=lease)
            else:
                box['e'] = RSocketClient(single_transport_provider(t), lease_publisher=lease, honor_lease=True,
                                         keep_alive_period=timedelta(seconds=1000), max_lifetime_period=timedelta(seconds=5000))
                asyncio.create_task(box['e'].connect())
        loop.run(mk)
        loop.settle()
        e = box['e']
        if role == 'server':         # the lease publisher is subscribed when a SETUP asking for leases arrives
            from harness import frames as FR2
            t.inject_frame(FR2.build({'t': 'Setup', 'sid': 0, 'ign': False, 'lease': True, 'major': 1, 'minor': 0, 'ka': 100000,
                                      'ml': 500000, 'resume': None, 'mdenc': b'a/b', 'denc': b'c/d', 'md': b'', 'd': b''}).serialize())
            loop.settle()
        if lease.subscriber is None:
            return None
        t.gated = True

        def burst():
            e.metadata_push(b'push-1')
            lease.grant(5, 60000)
            lease.grant(1, 60000)
            e.metadata_push(b'push-2')
            lease.grant(7, 60000)
        loop.run(burst)
        for _ in range(12):
            t.permit(1)
            loop.settle()
        return [sim.parse_sent(b) for b in t.sent]
    finally:
        loop.finish()


def stream0_order_oracle():
    out = []
    for role in ('server', 'client'):
        for lenreq in (True, False):
            wire = run_stream0_order(role, lenreq)
            if wire is None:
                out.append({'what': 'the lease publisher was never subscribed (%s)' % role, 'stream0_case': [role, lenreq]})
                continue
            seq = [('push', bytes(f['md'])) if f['t'] == 'MetadataPush' else ('lease', f['n']) for f in wire
                   if f['t'] in ('MetadataPush', 'Lease')]
            want = [('push', b'push-1'), ('lease', 5), ('lease', 1), ('push', b'push-2'), ('lease', 7)]
            bad = None
            if seq != want:
                bad = 'stream 0 frames reached the wire as %s, queued as %s' % (seq, want)
            elif role == 'client' and wire and wire[0]['t'] != 'Setup':
                bad = 'first frame of the client is %s' % wire[0]['t']
            if bad:
                out.append({'what': 'LEASE / METADATA_PUSH order on stream 0 (%s): %s' % (role, bad), 'stream0_case': [role, lenreq]})
    return out
