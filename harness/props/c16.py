"""C16 — setup handshake.  Correspondence on the single-step loop with harness transports:
(a) random client configurations -> the first frame written (decoded from the wire) vs Setup.setup_frame;
(b) connect() with a provider / transport.connect() that suspend 0..3 times and requests issued at every tick ->
    observed history (application actions, transport-ready, sender steps) and the frames written vs Setup.crun;
(c) SETUP / RESUME frames fed to a real server (lease publisher or not, on_setup raising or not) -> on_setup calls and
    ERROR frames vs Setup.server_decision."""
from harness import internals
import asyncio
from datetime import timedelta

from harness import frames as FR, sim
from harness.common import chunks, run_coq_cases, clist, cZ, cN, cbool, cbytes

MODEL_TARGETS = ['model/Setup.vo', 'corr/C16Corr.vo', 'corr/Harness.vo']
ASSUMPTIONS = [
    'IEEE float arithmetic of round(total_seconds()*1000) is validated (exact on whole ms, within 0.5 ms otherwise), not proved',
    'one loop iteration = one tick; within a tick the library handles run before the injected application action',
    'a lease requested with a publisher present subscribes the publisher before on_setup runs (also when on_setup then raises)',
]
HEADER = ('From Coq Require Import ZArith NArith List Init.Byte.\nFrom RSV Require Import lib.Bytes model.Frame model.Setup '
          'corr.C16Corr corr.Harness.\nImport ListNotations.\nOpen Scope N_scope.\nDefinition chk := chk16.\n')
SHARD = 200


def _enc_variants(rng):
    from rsocket.extensions.mimetypes import WellKnownMimeTypes
    x = rng.random()
    if x < 0.3:
        m = rng.choice(list(WellKnownMimeTypes))
        return m, m.value.name
    name = bytes(rng.randrange(33, 127) for _ in range(rng.choice([1, 5, 16, 64, 127])))
    if x < 0.6:
        return name.decode(), name
    return name, name


def _period_us(rng):
    x = rng.random()
    if x < 0.35:
        return rng.choice([1, 500, 1000, 2000, 60000, 600000, 3600000]) * 1000
    if x < 0.6:
        return rng.randrange(0, 4000000) * 1000 + rng.choice([1, 499, 500, 501, 999])
    if x < 0.8:
        return rng.randrange(0, 10 ** 7)
    return rng.choice([0, 999, 1001, 86400 * 10 ** 6, 86400 * 10 ** 6 * 3 + 7000, 4294967 * 10 ** 6])


def run_setup_frame(cfg):
    from rsocket.rsocket_client import RSocketClient
    from rsocket.helpers import single_transport_provider
    from rsocket.payload import Payload
    loop = sim.new_loop()
    sim.patch_clock(loop)
    T = sim.make_transport_class()
    t = T(lenreq=cfg['lenreq'])
    try:
        def mk():
            c = RSocketClient(single_transport_provider(t), honor_lease=cfg['lease'],
                              data_encoding=cfg['denc_arg'], metadata_encoding=cfg['mdenc_arg'],
                              keep_alive_period=timedelta(microseconds=cfg['ka_us']),
                              max_lifetime_period=timedelta(microseconds=cfg['ml_us']),
                              setup_payload=(Payload(cfg['payload'][1], cfg['payload'][0]) if cfg['payload'] else None))
            asyncio.create_task(c.connect())
        loop.run(mk)
        for _ in range(20):
            loop.tick()
            if t.sent:
                break
        return sim.parse_sent(t.sent[0]) if t.sent else None
    finally:
        loop.finish()


def oracle_setup(cfg, first):
    if first is None:
        return 'no frame written'
    if first['t'] != 'Setup':
        return 'first frame is %s, not SETUP' % first['t']
    if (first['major'], first['minor']) != (1, 0):
        return 'SETUP announces version %s.%s' % (first['major'], first['minor'])
    for k, usv in (('ka', cfg['ka_us']), ('ml', cfg['ml_us'])):
        ms = first[k]
        if usv % 1000 == 0 and ms != usv // 1000:
            return 'SETUP announces %s = %d ms for a configured period of %d us' % (k, ms, usv)
        if abs(1000 * ms - usv) > 500:
            return 'SETUP announces %s = %d ms for a configured period of %d us' % (k, ms, usv)
    if first['mdenc'] != cfg['mdenc'] or first['denc'] != cfg['denc']:
        return 'SETUP MIME types differ from the configuration'
    if first['lease'] != cfg['lease']:
        return 'SETUP lease flag differs from honor_lease'
    md, d = cfg['payload'] if cfg['payload'] else (b'', b'')
    if first['md'] != (md or b'') or first['d'] != (d or b''):
        return 'SETUP payload differs from the configured setup payload'
    if first['sid'] != 0 or first['resume'] is not None:
        return 'SETUP not on stream 0 / unexpected resume'
    return None


def run_order(script, provider_suspends, connect_suspends, lenreq):
    """script: dict tick -> list of app actions ('fnf'|'push'|'rr'|'rs').  Returns (labels, wire tags)."""
    from rsocket.rsocket_client import RSocketClient
    from rsocket.payload import Payload
    loop = sim.new_loop()
    sim.patch_clock(loop)
    T = sim.make_transport_class()
    t = T(lenreq=lenreq, connect_suspends=connect_suspends)

    async def provider():
        for _ in range(provider_suspends):
            await asyncio.sleep(0)
        yield t

    box = {}
    labels = []
    counter = [0]
    try:
        def mk():
            box['c'] = RSocketClient(provider(), keep_alive_period=timedelta(seconds=1000),
                                     max_lifetime_period=timedelta(seconds=5000))
            asyncio.create_task(box['c'].connect())
        loop.run(mk)
        c = box['c']
        ready = False
        seen = 0
        for tick in range(14):
            acts = script.get(tick, [])

            def do():
                for a in acts:
                    if not internals.has_send_queue(c):
                        continue
                    counter[0] += 1
                    n = counter[0]
                    data = b'#%d' % n
                    if a == 'fnf':
                        c.fire_and_forget(Payload(data))
                    elif a == 'push':
                        c.metadata_push(data)
                    elif a == 'rr':
                        c.request_response(Payload(data))
                    done.append(n)
            done = []
            loop.run(do)
            # what the library did during this tick, then the application action (it ran last)
            if not ready and internals.next_transport(c).done():
                ready = True
                labels.append('ready')
            while seen < len(t.sent):
                labels.append('send')
                seen += 1
            for n in done:
                labels.append(('app', n))
        loop.settle()
        while seen < len(t.sent):
            labels.append('send')
            seen += 1
        wire = []
        for b in t.sent:
            d = sim.parse_sent(b)
            if d['t'] == 'Setup':
                wire.append('setup')
            else:
                body = d.get('d') or d.get('md') or b''
                wire.append(int(body[1:]) if body[:1] == b'#' else -1)
        return labels, wire
    finally:
        loop.finish()


def oracle_order(labels, wire):
    if wire and wire[0] != 'setup':
        return 'first frame on the connection is not SETUP: %s' % wire[:4]
    if wire.count('setup') > 1:
        return 'SETUP written %d times' % wire.count('setup')
    nums = [x for x in wire if x != 'setup']
    if nums != sorted(nums) or len(set(nums)) != len(nums):
        return 'frames queued while connecting were reordered or duplicated: %s' % wire
    apps = [l[1] for l in labels if isinstance(l, tuple)]
    if len(wire) > 1 + len(apps) or (len(apps) and wire and set(nums) != set(apps)):
        return 'frames lost or invented: queued %s, written %s' % (apps, wire)
    return None


def run_server(fr, has_pub, raises, lenreq):
    from rsocket.rsocket_server import RSocketServer
    from rsocket.request_handler import BaseRequestHandler
    from rsocket.lease import LeasePublisher
    loop = sim.new_loop()
    sim.patch_clock(loop)
    T = sim.make_transport_class()
    t = T(lenreq=lenreq)
    calls = []
    subs = []

    class H(BaseRequestHandler):
        async def on_setup(self, data_encoding, metadata_encoding, payload):
            calls.append((bytes(data_encoding), bytes(metadata_encoding), bytes(payload.metadata or b''), bytes(payload.data or b'')))
            if raises == 'protocol':        # any exception out of on_setup rejects the setup, whatever its own code
                from rsocket.exceptions import RSocketProtocolError
                from rsocket.error_codes import ErrorCode
                raise RSocketProtocolError(ErrorCode.APPLICATION_ERROR, data='not for you')
            if raises == 'inuse':
                from rsocket.exceptions import RSocketStreamIdInUse
                raise RSocketStreamIdInUse(7)
            if raises:
                raise RuntimeError('rejected by application')

    class Pub(LeasePublisher):
        def subscribe(self, subscriber):
            subs.append(1)

    try:
        # whether the server ITSELF honours leases as a requester has no bearing on how it answers a SETUP: vary it
        import zlib
        honor = bool(zlib.crc32(repr(sorted((k, repr(v)) for k, v in fr.items())).encode()) & 1)
        loop.run(lambda: RSocketServer(t, handler_factory=H, lease_publisher=(Pub() if has_pub else None), honor_lease=honor))
        loop.settle()
        t.inject_frame(FR.build(fr).serialize())
        loop.settle()
        sent = [sim.parse_sent(b) for b in t.sent]
        return calls, sent, len(subs)
    finally:
        loop.finish()


def observed_outcome(calls, sent, raises):
    errs = [x for x in sent if x['t'] == 'Error']
    if errs:
        return ('error', errs[0]['sid'], errs[0]['code'], len(errs), len(calls))
    if calls:
        return ('accept', calls[0], len(calls))
    return ('dropped',)


def oracle_server(fr, has_pub, raises, calls, sent, nsubs):
    errs = [x for x in sent if x['t'] == 'Error']
    others = [x for x in sent if x['t'] not in ('Error',)]
    if others:
        return 'server sent %s in reaction to a setup/resume frame' % [x['t'] for x in others]
    if fr['sid'] != 0:
        return None if not calls and not errs else 'setup/resume on a non-zero stream was acted upon'
    if fr['t'] == 'Resume':
        exp = 4
    elif fr['resume'] is not None:
        exp = 2
    elif fr['lease'] and not has_pub:
        exp = 2
    elif raises:
        exp = 3
    else:
        exp = None
    if exp is None:
        if errs or len(calls) != 1:
            return 'acceptable SETUP: on_setup called %d times, errors %s' % (len(calls), [(e['sid'], e['code']) for e in errs])
        if calls[0] != (fr['denc'], fr['mdenc'], fr['md'], fr['d']):
            return 'on_setup received %s' % (calls[0],)
        return None
    if len(errs) != 1 or errs[0]['sid'] != 0 or errs[0]['code'] != exp:
        return 'expected one ERROR code %d on stream 0, got %s' % (exp, [(e['sid'], e['code']) for e in errs])
    if exp != 3 and calls:
        return 'on_setup was called for an unsupported setup'
    return None


def _coq_cfg(cfg):
    pl = 'None' if not cfg['payload'] else '(Some (%s, %s))' % (cbytes(cfg['payload'][0] or b''), cbytes(cfg['payload'][1] or b''))
    return ('{| ka_us := %s; ml_us := %s; honor_lease := %s; md_enc := %s; d_enc := %s; setup_payload := %s |}' %
            (cZ(cfg['ka_us']), cZ(cfg['ml_us']), cbool(cfg['lease']), cbytes(cfg['mdenc']), cbytes(cfg['denc']), pl))


def correspond(ctx, corr, model_ok):
    from harness import battery
    battery.run(corr, ['slow-connect-keepalive', 'stream0-order'])
    rng = ctx.rng
    items = []
    corr.oracle_failures.extend(reconnect_setup_oracle())
    corr.count('three connections of one client (loss / explicit reconnect): SETUP first and identical on each', 6)
    # (a) SETUP fields
    for _ in range(ctx.scale(150, 3000)):
        mdarg, mdname = _enc_variants(rng)
        darg, dname = _enc_variants(rng)
        cfg = {'ka_us': _period_us(rng), 'ml_us': _period_us(rng), 'lease': rng.random() < 0.4,
               'mdenc_arg': mdarg, 'denc_arg': darg, 'mdenc': mdname, 'denc': dname,
               'payload': (None if rng.random() < 0.4 else
                           (bytes(rng.getrandbits(8) for _ in range(rng.choice([0, 1, 9]))),
                            bytes(rng.getrandbits(8) for _ in range(rng.choice([0, 1, 30]))))),
               'lenreq': rng.random() < 0.5}
        first = run_setup_frame(cfg)
        corr.evaluations += 1
        corr.count('setup-fields:%s' % ('whole-ms' if cfg['ka_us'] % 1000 == 0 else 'sub-ms'))
        corr.nontriv(('cfg', cfg['ka_us'], cfg['ml_us'], cfg['mdenc'], cfg['denc'], cfg['lease'], cfg['payload']))
        o = oracle_setup(cfg, first)
        if o:
            corr.oracle_failures.append({'what': o, 'kind': 'setup', 'cfg': {k: repr(v) for k, v in cfg.items()}})
        if first is None or first['t'] != 'Setup':
            corr.disagreements.append({'what': 'no SETUP frame', 'cfg': {k: repr(v) for k, v in cfg.items()}})
            continue
        items.append(('CSetup %s %s %s %s' % (_coq_cfg(cfg), cN(first['ka']), cN(first['ml']), FR.coq_frame(first)),
                      {'kind': 'setup', 'cfg': {k: repr(v) for k, v in cfg.items()}, 'impl_first': first}))
        if len(corr.samples) < 1:
            corr.samples.append({'cfg': {k: repr(v) for k, v in cfg.items() if k not in ('mdenc_arg', 'denc_arg')},
                                 'announced_ms': (first['ka'], first['ml'])})
    # (b) order
    for _ in range(ctx.scale(150, 3000)):
        ps, cs = rng.randint(0, 3), rng.randint(0, 3)
        script = {}
        for tick in range(10):
            if rng.random() < 0.5:
                script[tick] = [rng.choice(['fnf', 'push', 'rr']) for _ in range(rng.randint(1, 3))]
        labels, wire = run_order(script, ps, cs, rng.random() < 0.5)
        corr.evaluations += 1
        corr.count('order:provider-suspends-%d:connect-suspends-%d' % (ps, cs))
        queued_before_ready = 0
        for l in labels:
            if l == 'ready':
                break
            if isinstance(l, tuple):
                queued_before_ready += 1
        corr.count('order:queued-before-ready:%s' % (queued_before_ready if queued_before_ready < 3 else '3+'))
        if queued_before_ready:
            corr.nontriv(('order', tuple(labels)))
        o = oracle_order(labels, wire)
        if o:
            corr.oracle_failures.append({'what': o, 'kind': 'order', 'script': {str(k): v for k, v in script.items()},
                                         'provider_suspends': ps, 'connect_suspends': cs, 'labels': labels, 'wire': wire})
        cl = clist(['LTransportReady' if l == 'ready' else 'LSend' if l == 'send' else 'LApp %s' % cN(l[1]) for l in labels])
        cw = clist(['TSetup' if w == 'setup' else 'TOther %s' % cN(max(w, 0)) for w in wire])
        items.append(('COrder %s %s' % (cl, cw), {'kind': 'order', 'labels': labels, 'wire': wire,
                                                  'script': {str(k): v for k, v in script.items()},
                                                  'provider_suspends': ps, 'connect_suspends': cs}))
        if len(corr.samples) < 3 and queued_before_ready >= 2:
            corr.samples.append({'history': [str(l) for l in labels[:14]], 'wire': wire[:8]})
    # (c) server decision
    for _ in range(ctx.scale(150, 2000)):
        if rng.random() < 0.8:
            fr = FR.gen_frame(rng, None, t='Setup', big=False)
            fr['sid'] = 0 if rng.random() < 0.85 else rng.choice([1, 2, 7])
            fr['ign'] = False
            for k in ('md', 'd'):
                fr[k] = fr[k][:20]
            if fr['resume'] is not None and rng.random() < 0.5:
                fr['resume'] = None
        else:
            fr = FR.gen_frame(rng, None, t='Resume', big=False)
            fr['sid'] = 0 if rng.random() < 0.85 else 3
            fr['ign'] = False
            fr['token'] = fr['token'][:16]
        has_pub, raises = rng.random() < 0.5, rng.choice([False, False, False, True, 'protocol', 'inuse'])
        calls, sent, nsubs = run_server(fr, has_pub, raises, rng.random() < 0.5)
        corr.evaluations += 1
        o = oracle_server(fr, has_pub, raises, calls, sent, nsubs)
        if o:
            corr.oracle_failures.append({'what': o, 'kind': 'server', 'frame': fr, 'has_pub': has_pub, 'raises': raises})
        errs = [x for x in sent if x['t'] == 'Error']
        if errs and calls and not (raises and len(errs) == 1):
            obs = None
        elif errs:
            obs = 'SError %s %s' % (cN(errs[0]['sid']), cN(errs[0]['code'])) if len(errs) == 1 else None
        elif calls:
            c0 = calls[0]
            obs = ('SAccept %s %s %s %s %s' % (cbytes(c0[0]), cbytes(c0[1]), cbytes(c0[2]), cbytes(c0[3]),
                                               cbool(bool(fr.get('lease'))))) if len(calls) == 1 else None
        else:
            obs = 'SDropped'
        corr.count('server:' + (obs.split(' ')[0] if obs else 'inconsistent'))
        corr.nontriv(('server', repr(sorted(fr.items())), has_pub, raises))
        if obs is None:
            corr.disagreements.append({'what': 'server reaction outside the model', 'frame': fr, 'calls': calls,
                                       'sent': sent})
            continue
        items.append(('CServer %s %s %s (%s)' % (FR.coq_frame(fr), cbool(has_pub), cbool(bool(raises)), obs),
                      {'kind': 'server', 'frame': fr, 'has_pub': has_pub, 'raises': raises, 'impl': obs}))
    corr.rule = ('(a) client configurations: periods with whole-ms / .499/.500/.501 ms / random microsecond parts, encodings as '
                 'str / bytes / enum member, payload or none, lease on/off, both framings; (b) connect with provider and '
                 'transport.connect() suspending 0..3 loop iterations each and fire-and-forget / metadata-push / request-response '
                 'issued at random ticks (non-trivial = at least one frame queued before the transport was ready); (c) SETUP and '
                 'RESUME frames with resume/lease flags, zero and non-zero stream ids, with/without lease publisher, on_setup raising '
                 'or not')
    if not model_ok:
        return
    shards = ['Definition cases : list case16 := [\n' + ';\n'.join(x[0] for x in ch) + '\n].'
              for ch in chunks(items, SHARD)]
    out = run_coq_cases(shards, HEADER, timeout=600)
    for si, (n, nf, idx) in enumerate(out):
        for i in idx:
            corr.disagreements.append(dict(items[si * SHARD + i][1], what='setup: implementation vs model/Setup.v'))


def run_reconnects(cause, with_request, lenreq):
    """a client that connects three times in its life (loss or explicit reconnect): what it writes first on EVERY connection"""
    from rsocket.rsocket_client import RSocketClient
    from rsocket.request_handler import BaseRequestHandler
    from rsocket.payload import Payload
    loop = sim.new_loop()
    sim.patch_clock(loop)
    T = sim.make_transport_class()
    ts = [T(lenreq=lenreq, name='t%d' % i) for i in range(3)]

    async def provider():
        for x in ts:
            yield x

    class H(BaseRequestHandler):
        async def on_close(self, rsocket, exception=None):
            if cause != 'explicit':
                await rsocket.reconnect()
    box = {}
    try:
        def mk():
            box['c'] = RSocketClient(provider(), handler_factory=H, data_encoding=b'application/x-demo', metadata_encoding=b'message/x-meta',
                                     keep_alive_period=timedelta(milliseconds=12345), max_lifetime_period=timedelta(milliseconds=67890),
                                     setup_payload=Payload(b'setup-data', b'setup-md'))
            asyncio.create_task(box['c'].connect())
        loop.run(mk)
        loop.settle()
        c = box['c']
        for i in (0, 1):
            if cause == 'eof':
                ts[i].inject_eof()
            elif cause == 'error':
                ts[i].inject_error()
            else:
                loop.run(lambda: asyncio.create_task(c.reconnect()))
            if with_request:
                loop.run(lambda: c.fire_and_forget(Payload(b'during-reconnect')))
            loop.settle()
            if with_request:
                loop.run(lambda: c.fire_and_forget(Payload(b'after-reconnect')))
                loop.settle()
        return [[sim.parse_sent(b) for b in t.sent] for t in ts], [t.connected for t in ts]
    finally:
        loop.finish()


def reconnect_setup_oracle():
    out = []
    for cause in ('eof', 'error', 'explicit'):
        for with_request in (False, True):
            wires, connected = run_reconnects(cause, with_request, True)
            bad = []
            setups = []
            for i, w in enumerate(wires):
                if not connected[i]:
                    bad.append('connection %d was never made' % i)
                    continue
                if not w or w[0]['t'] != 'Setup':
                    bad.append('connection %d starts with %s, not SETUP' % (i, w[0]['t'] if w else 'nothing'))
                if sum(1 for f in w if f['t'] == 'Setup') > 1:
                    bad.append('connection %d carries more than one SETUP' % i)
                setups += [f for f in w if f['t'] == 'Setup'][:1]
            if any(x != setups[0] for x in setups[1:]):
                bad.append('SETUP differs between connections of the same client')
            if bad:
                out.append({'what': 'reconnecting client: ' + '; '.join(bad[:3]), 'kind': 'reconnect-setup',
                            'reconnect_setup_case': [cause, with_request]})
    return out


def search(ctx, budget_s):
    from harness.common import CorrResult
    c = CorrResult()
    correspond(ctx, c, False)
    return c.oracle_failures[:1]


def replay(obj):
    from harness import battery as _bat
    _r = _bat.replay(obj.get('case') if isinstance(obj.get('case'), dict) else obj)
    if _r is not None:
        return _r
    case = obj['case']
    if case.get('kind') == 'reconnect-setup':
        return bool(reconnect_setup_oracle())
    if case['kind'] == 'order':
        script = {int(k): v for k, v in case['script'].items()}
        bad = False
        for lenreq in (True, False):
            labels, wire = run_order(script, case['provider_suspends'], case['connect_suspends'], lenreq)
            o = oracle_order(labels, wire)
            if o:
                print('oracle:', o)
                bad = True
        return bad
    if case['kind'] == 'setup':
        import ast
        cfg = {k: ast.literal_eval(v) if not v.startswith('<') else v for k, v in case['cfg'].items()}
        for k in ('mdenc_arg', 'denc_arg'):
            cfg[k] = cfg[k.replace('_arg', '')]
        o = oracle_setup(cfg, run_setup_frame(cfg))
        if o:
            print('oracle:', o)
        return bool(o)
    import ast
    fr = case['frame']
    for k, v in list(fr.items()):
        if isinstance(v, str) and v.startswith(("b'", 'b"')):
            fr[k] = ast.literal_eval(v)
        if k == 'resume' and isinstance(v, list):
            fr[k] = (v[0], ast.literal_eval(v[1]) if isinstance(v[1], str) else v[1])
    calls, sent, nsubs = run_server(fr, case['has_pub'], case['raises'], False)
    o = oracle_server(fr, case['has_pub'], case['raises'], calls, sent, nsubs)
    if o:
        print('oracle:', o)
    return bool(o)
