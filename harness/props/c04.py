"""C04 — decoded frames are independent of how the byte stream is chunked.
Correspondence: real FrameParser.receive_data (3-byte framing, fed chunk by chunk), the real TransportTCP read
loop over an asyncio.StreamReader, and receive_data(data, 0) (message framing), against model/Parser.v."""
from harness import internals
import asyncio
import time

from harness import frames as FR
from harness.common import chunks as shard_chunks, run_coq_cases, clist

MODEL_TARGETS = ['model/Parser.vo', 'model/Frame.vo', 'corr/C04Corr.vo', 'corr/Harness.vo']
ASSUMPTIONS = [
    'asyncio.StreamReader.read(n) returns the bytes fed so far, at most n (modelled as: a read is a chunk)',
    'frames are decoded by the cbitstruct back end here; back-end equivalence is C02',
    'SETUP bodies with a MIME length byte >= 128 are outside the frame model (DUnmodelled): such streams are not compared',
]
HEADER = ('From Coq Require Import NArith List Init.Byte.\nFrom RSV Require Import lib.Bytes model.Frame model.Parser '
          'corr.C02Corr corr.C04Corr corr.Harness.\nImport ListNotations.\nOpen Scope N_scope.\nDefinition chk := chk04.\n')
SHARD = 200
LIMIT = 64   # an async generator that yields more items than this from one call is reported as non-terminating


def _item(o):
    from rsocket.frame import InvalidFrame
    if isinstance(o, InvalidFrame):
        return ('invalid',)
    try:
        d = FR.describe(o)
        for k, v in d.items():
            if v is None and k != 'resume':
                raise AttributeError('field %s was never decoded' % k)
        return ('frame', d)
    except AttributeError as e:   # a frame object whose fields were never decoded
        return ('broken', type(o).__name__, str(e))


async def _collect(parser, chunk, header_length):
    out = []
    agen = parser.receive_data(chunk, header_length) if header_length is not None else parser.receive_data(chunk)
    try:
        async for fr in agen:
            out.append(_item(fr))
            if len(out) > LIMIT:
                await agen.aclose()
                return out, True
    except Exception as e:      # the parser let an exception escape instead of yielding an invalid marker
        out.append(('raised', type(e).__name__))
    return out, False


async def _run_stream(chunks_):
    from rsocket.frame_parser import FrameParser
    p = FrameParser()
    items = []
    for c in chunks_:
        o, div = await _collect(p, c, None)
        items += o
        if div:
            return items, None
    return items, bytes(internals.parser_buffer(p))


_BLOCKED = [0]      # how often the TCP read loop was found waiting (every wait costs real time)


class _W:
    def close(self):
        pass


async def _run_tcp(chunks_):
    """the real TransportTCP read loop; each chunk is fed, then the transport is asked for frames until it would block"""
    from rsocket.transports.tcp import TransportTCP
    reader = asyncio.StreamReader()
    t = TransportTCP(reader, _W(), read_buffer_size=1024)
    items = []
    for c in chunks_:
        if not c:
            continue
        reader.feed_data(c)
        while reader._buffer:
            try:
                # bytes are buffered, so the read cannot block; a transport that now waits is waiting for bytes nobody sent
                gen = await asyncio.wait_for(t.next_frame_generator(), 1.5 if _BLOCKED[0] < 4 else 0.1)
            except asyncio.TimeoutError:
                _BLOCKED[0] += 1
                items.append(('raised', 'TransportTCP.next_frame_generator blocks although received bytes are waiting'))
                return items, bytes(internals.parser_buffer(internals.frame_parser(t)))
            async for fr in gen:
                items.append(_item(fr))
    return items, bytes(internals.parser_buffer(internals.frame_parser(t)))


async def _run_msg(st, data):
    from rsocket.frame_parser import FrameParser
    p = FrameParser()
    internals.parser_buffer(p).extend(st)
    o, div = await _collect(p, data, 0)
    if div:
        return None
    return o, bytes(internals.parser_buffer(p))


def _coq_item(it):
    if it[0] in ('raised', 'broken'):
        return 'IUnmodelled'          # nothing in the model yields this: the comparison fails
    return 'IInvalid' if it[0] == 'invalid' else '(IFrame %s)' % FR.coq_frame(it[1])


def _small_frame(rng):
    fr = FR.gen_frame(rng, None, big=False)
    for k in ('md', 'd', 'token'):
        if k in fr and len(fr[k]) > 12:
            fr[k] = fr[k][:rng.randint(0, 12)]
    if fr['t'] == 'Setup':
        fr['mdenc'] = fr['mdenc'][:rng.choice([0, 4])]
        fr['denc'] = fr['denc'][:rng.choice([0, 4])]
        if fr['resume']:
            t = fr['resume'][1][:4]
            fr['resume'] = (len(t), t)
    return fr


def _bodies(rng, n):
    out = []
    for _ in range(n):
        x = rng.random()
        if x < 0.6:
            out.append(('valid', FR.build(_small_frame(rng)).serialize()))
        elif x < 0.7:
            b = bytearray(FR.build(_small_frame(rng)).serialize())
            b[4] |= 0x02
            out.append(('ignore-flag-truncated', bytes(b[:rng.randint(6, max(6, len(b)))])))
        elif x < 0.8:
            b = FR.build(_small_frame(rng)).serialize()
            out.append(('truncated', b[:rng.randint(0, len(b))]))
        elif x < 0.9:
            out.append(('random', bytes(rng.getrandbits(8) for _ in range(rng.choice([0, 1, 5, 6, 9, 20])))))
        else:
            b = bytearray(FR.build(_small_frame(rng)).serialize())
            b[4] = (rng.choice([0, 15, 40, 63]) << 2) | (b[4] & 3)
            out.append(('unknown-type', bytes(b)))
    return out


def _partitions(rng, stream, exhaustive_pairs):
    L = len(stream)
    parts = [[stream], [stream[i:i + 1] for i in range(L)]]
    for i in range(0, L + 1):   # every single cut (includes cuts inside every length prefix)
        parts.append([stream[:i], stream[i:]])
    if exhaustive_pairs and L <= 14:
        for i in range(L + 1):
            for j in range(i, L + 1):
                parts.append([stream[:i], stream[i:j], stream[j:]])
    for _ in range(6):
        cuts = sorted(rng.randrange(0, L + 1) for _ in range(rng.randint(1, 8))) if L else []
        prev = 0
        p = []
        for c in cuts:
            p.append(stream[prev:c])
            prev = c
        p.append(stream[prev:])
        parts.append(p)
    return parts


async def _gather(ctx, corr):
    rng = ctx.rng
    items = []
    n_streams = ctx.scale(40, 500)
    for si in range(n_streams):
        bodies = _bodies(rng, rng.randint(0, 4))
        stream = b''.join(len(b).to_bytes(3, 'big') + b for _, b in bodies)
        if rng.random() < 0.3:
            stream += bytes(rng.getrandbits(8) for _ in range(rng.randint(1, 5)))[:rng.randint(0, 5)]  # dangling tail
        cut_short = si < 6 and len(stream) > 14
        if cut_short:
            stream = stream[:14]
        ref, ref_res = await _run_stream([stream])
        # expected by exactness: each delimited body on its own
        from rsocket.frame_parser import FrameParser
        for part in _partitions(rng, stream, exhaustive_pairs=(si % 5 == 0)):
            got, res = await _run_stream(part)
            corr.evaluations += 1
            corr.count('stream-chunks:%s' % ('1' if len(part) == 1 else '2' if len(part) == 2 else '3' if len(part) == 3
                                             else 'bytes' if len(part) == len(stream) and len(stream) > 3 else 'random'))
            if len(part) > 1:
                corr.nontriv(('s', stream, tuple(len(c) for c in part)))
            if any(i[0] == 'broken' for i in got):
                corr.oracle_failures.append({'what': 'an undecodable frame was handed out as a frame: %s' %
                                                     ([i for i in got if i[0] == 'broken'][:1],),
                                             'stream': stream.hex(), 'chunks': [c.hex() for c in part]})
                continue
            if any(i[0] == 'raised' for i in got):
                corr.oracle_failures.append({'what': 'the parser let %s escape instead of marking the frame invalid' %
                                                     ([i for i in got if i[0] == 'raised'][0][1],),
                                             'stream': stream.hex(), 'chunks': [c.hex() for c in part]})
                continue
            if (got, res) != (ref, ref_res):
                corr.oracle_failures.append({'what': 'chunking changes the decoded frames or the residual buffer',
                                             'stream': stream.hex(), 'chunks': [c.hex() for c in part]})
            if res is None:
                txt = None
            else:
                txt = 'CStream %s %s %s' % (clist([FR.pbytes(c) for c in part]), clist([_coq_item(i) for i in got]),
                                            FR.pbytes(res))
            items.append((txt, {'kind': 'stream', 'stream': stream.hex(), 'chunks': [c.hex() for c in part],
                                'impl_items': got, 'impl_residual': res.hex() if res is not None else None}))
        # exactness oracle: items == concatenation of the per-body results
        exp = []
        if any(i[0] in ('broken', 'raised') for i in ref):
            continue
        for _, b in bodies:
            r = FR._parse(b)
            if r[0] == 'ok':
                exp.append(('frame', r[1]))
            elif r[0] == 'invalid':
                exp.append(('invalid',))
        if not cut_short and ref[:len(exp)] != exp:
            corr.oracle_failures.append({'what': 'delimited bodies do not decode to exactly their own frames, in order',
                                         'stream': stream.hex(), 'bodies': [(k, b.hex()) for k, b in bodies]})
        for k, _ in bodies:
            corr.count('body:' + k)
        # the real TCP transport read loop on one random partition
        part = _partitions(rng, stream, False)[-1]
        got, res = await _run_tcp(part)
        corr.evaluations += 1
        corr.count('tcp-transport')
        if (got, res) != (ref, ref_res):
            corr.oracle_failures.append({'what': 'TransportTCP read loop decodes differently from one-shot parsing',
                                         'stream': stream.hex(), 'chunks': [c.hex() for c in part]})
        if len(corr.samples) < 3 and len(bodies) >= 2:
            corr.samples.append({'stream_hex': stream.hex()[:120], 'chunk_lengths': [len(c) for c in part],
                                 'items': [i[0] if i[0] == 'invalid' else i[1]['t'] for i in ref]})
    # message framing
    for _ in range(ctx.scale(150, 2000)):
        x = rng.random()
        if x < 0.1:
            data = b''
        else:
            data = _bodies(rng, 1)[0][1]
        st = b''
        r = await _run_msg(st, data)
        corr.evaluations += 1
        corr.count('message:empty' if not data else 'message')
        corr.nontriv(('m', data))
        if r is not None and any(i[0] == 'broken' for i in r[0]):
            corr.oracle_failures.append({'what': 'an undecodable message was handed out as a frame', 'message': data.hex()})
            continue
        if r is None:
            corr.oracle_failures.append({'what': 'message-framed parse of %r does not terminate' % data.hex(),
                                         'message': data.hex()})
            txt = 'CMsg %s %s None' % (FR.pbytes(st), FR.pbytes(data))
        else:
            one = FR._parse(data) if data else None
            exp = [] if not data else ([('frame', one[1])] if one[0] == 'ok' else [('invalid',)] if one[0] == 'invalid' else [])
            if data and (r[0] != exp or r[1] != b''):
                corr.oracle_failures.append({'what': 'a message does not yield exactly the frame it contains',
                                             'message': data.hex(), 'got': r[0]})
            txt = 'CMsg %s %s (Some (%s, %s))' % (FR.pbytes(st), FR.pbytes(data), clist([_coq_item(i) for i in r[0]]),
                                                  FR.pbytes(r[1]))
        items.append((txt, {'kind': 'message', 'message': data.hex(), 'impl': r}))
    return items


def correspond(ctx, corr, model_ok):
    corr.rule = ('streams of 0..4 length-prefixed bodies (valid frames of all types, truncated, ignore-flagged, random, '
                 'unknown type, zero-length) with optional dangling tail; for each stream: unchunked, all single bytes, EVERY '
                 'single cut position (so every cut inside every length prefix), every pair of cuts for short streams, and '
                 'random partitions with empty reads; the real TransportTCP read loop on a StreamReader; message framing '
                 'with empty and non-empty messages under an iteration budget. non-trivial = more than one chunk or a '
                 'message; distinct by (stream, chunk lengths)')
    items = asyncio.run(_gather(ctx, corr))
    mf, n = messaging_oracle(ctx)
    corr.oracle_failures.extend(mf)
    corr.evaluations += n
    corr.count('AbstractMessagingTransport arrival/consumption schedules with a transport failure', n)
    er = endpoint_reads_oracle(ctx.rng, ctx.scale(20, 300))
    corr.oracle_failures.extend(er)
    corr.evaluations += 2 * (66 + ctx.scale(20, 300))
    corr.count('whole endpoint on the TCP transport: every two-way split, per-frame reads, random reads, early end of stream',
               2 * (66 + ctx.scale(20, 300)))
    if not model_ok:
        return
    live = [x for x in items if x[0] is not None]
    shards = ['Definition cases : list case04 := [\n' + ';\n'.join(x[0] for x in ch) + '\n].'
              for ch in shard_chunks(live, SHARD)]
    out = run_coq_cases(shards, HEADER, timeout=900)
    for si, (n, nf, idx) in enumerate(out):
        for i in idx:
            corr.disagreements.append(dict(live[si * SHARD + i][1], what='FrameParser vs model/Parser.v'))


def search(ctx, budget_s):
    from harness.common import CorrResult
    t0 = time.time()
    while time.time() - t0 < budget_s:
        c = CorrResult()
        asyncio.run(_gather(ctx, c))
        if c.oracle_failures:
            return c.oracle_failures[:1]
        mf, _ = messaging_oracle(ctx)
        if mf:
            return mf[:1]
        er = endpoint_reads_oracle(ctx.rng, 40)
        if er:
            return er[:1]
    return []


def replay(obj):
    case = obj['case']
    if case.get('kind') == 'endpoint-reads':
        import random
        return bool(endpoint_reads_oracle(random.Random(1), 40))
    if 'messaging_case' in case:
        from harness import common
        return bool(messaging_oracle(common.Ctx('C04', 'quick', 0))[0])

    async def go():
        if 'message' in case:
            r = await _run_msg(b'', bytes.fromhex(case['message']))
            if r is None:
                return 'does not terminate'
            if any(i[0] == 'broken' for i in r[0]):
                return 'an undecodable message was handed out as a frame'
            data = bytes.fromhex(case['message'])
            one = FR._parse(data) if data else None
            exp = [] if not data else ([('frame', one[1])] if one[0] == 'ok' else [('invalid',)] if one[0] == 'invalid' else [])
            return None if (not data or (r[0] == exp and r[1] == b'')) else 'message does not yield its frame'
        stream = bytes.fromhex(case['stream'])
        ref = await _run_stream([stream])
        if any(i[0] == 'broken' for i in ref[0]):
            return 'an undecodable frame was handed out as a frame'
        if 'chunks' in case:
            got = await _run_stream([bytes.fromhex(c) for c in case['chunks']])
            tcp = await _run_tcp([bytes.fromhex(c) for c in case['chunks']])
            if got != ref or tcp != ref:
                return 'chunking changes the result'
        if 'bodies' in case:
            exp = []
            for _, b in case['bodies']:
                r = FR._parse(bytes.fromhex(b))
                if r[0] == 'ok':
                    exp.append(('frame', r[1]))
                elif r[0] == 'invalid':
                    exp.append(('invalid',))
            if ref[0][:len(exp)] != exp:
                return 'bodies do not decode to their own frames'
        return None
    o = asyncio.run(go())
    if o:
        print('oracle:', o)
    return bool(o)


# ---------------------------------------------------------------------------------------------
# message transports: AbstractMessagingTransport hands every received frame to the receiver, in order, whatever the
# interleaving of arrival and consumption, and reports a transport failure only after what arrived before it

def run_messaging(messages, fail_after, consume_every):
    """messages: list of bytes (each one transport message); the transport failure arrives after `fail_after` messages
    (None: never); the receiver consumes after every `consume_every` arrivals (0: only at the end).
    Returns the frames handed out, in order, and whether the failure was reported."""
    import asyncio as _a
    from harness import sim
    from rsocket.transports.abstract_messaging import AbstractMessagingTransport
    from rsocket.exceptions import RSocketTransportError
    from rsocket.frame import InvalidFrame
    loop = sim.new_loop()

    class T(AbstractMessagingTransport):
        async def send_frame(self, frame):
            pass

        async def close(self):
            pass
    box = {'out': [], 'failed': False}
    try:
        t = loop.run(lambda: T())

        async def arrive(msg):
            async for frame in internals.frame_parser(t).receive_data(msg, 0):      # what every message transport's reader does
                internals.incoming_queue(t).put_nowait(frame)

        async def consume_all():
            while not internals.incoming_queue(t).empty() and not box['failed']:
                try:
                    gen = await t.next_frame_generator()
                except RSocketTransportError:
                    box['failed'] = True
                    return
                async for fr in gen:
                    if isinstance(fr, InvalidFrame):
                        box['out'].append(('invalid',))
                    elif not hasattr(fr, 'stream_id'):
                        box['out'].append(('raised', 'the transport handed out %s as if it were a frame' % type(fr).__name__))
                    else:
                        box['out'].append(('frame', FR.describe(fr)))
        n = 0
        for i, m in enumerate(messages):
            if fail_after is not None and i == fail_after:
                internals.incoming_queue(t).put_nowait(RSocketTransportError())
            loop.run_until_complete(arrive(m))
            n += 1
            if consume_every and n % consume_every == 0:
                loop.run_until_complete(consume_all())
        if fail_after is not None and fail_after >= len(messages):
            internals.incoming_queue(t).put_nowait(RSocketTransportError())
        loop.run_until_complete(consume_all())
        return box['out'], box['failed']
    finally:
        loop.finish()


def messaging_oracle(ctx):
    rng = ctx.rng
    out = []
    n_cases = 0
    for _ in range(ctx.scale(40, 400)):
        k = rng.randint(1, 6)
        msgs = []
        exp_all = []
        for _ in range(k):
            x = rng.random()
            if x < 0.7:
                env = FR.Env()
                fr = FR.gen_frame(rng, env, big=False)
                b = FR.build(fr).serialize()
            elif x < 0.85:
                b = bytes(rng.randrange(256) for _ in range(rng.choice([1, 3, 5, 7, 12])))
            else:
                b = b''
            msgs.append(b)
            one = FR._parse(b) if b else None
            exp_all.append([] if not b else ([('frame', one[1])] if one[0] == 'ok' else [('invalid',)] if one[0] == 'invalid' else []))
        fail_after = rng.choice([None, None] + list(range(0, k + 1)))
        want = [x for e in exp_all[:(fail_after if fail_after is not None else k)] for x in e]
        for ce in (0, 1, 2, 3):
            n_cases += 1
            got, failed = run_messaging(msgs, fail_after, ce)
            if [g[0] for g in got] != [w[0] for w in want] or \
                    [FR.norm(g[1]) for g in got if g[0] == 'frame'] != [FR.norm(w[1]) for w in want if w[0] == 'frame'] or \
                    failed != (fail_after is not None):
                out.append({'what': 'message transport lost, duplicated or reordered frames around a transport failure',
                            'messaging_case': {'messages': [m.hex() for m in msgs], 'fail_after': fail_after, 'consume_every': ce},
                            'expected': len(want), 'got': len(got), 'failure_reported': failed})
                break
    return out, n_cases


# ---------------------------------------------------------------------------------------------
# the same at the level of a whole ENDPOINT on the real TCP transport: a byte stream of requests — one of them failing in its
# handler, one rejected, malformed ones in between — is read in every way a socket can deliver it, with the peer's orderly end
# of stream arriving before or after the last bytes have been read.  What the handlers saw and what was answered may not
# depend on the reads.

def _endpoint_stream():
    frs = [
        {'t': 'RequestResponse', 'sid': 1, 'ign': False, 'follows': False, 'md': b'', 'd': b'first'},
        {'t': 'RequestResponse', 'sid': 3, 'ign': False, 'follows': False, 'md': b'', 'd': b'raise'},
        {'t': 'RequestFnf', 'sid': 5, 'ign': False, 'follows': False, 'md': b'', 'd': b'fnf-after-raise'},
        {'t': 'RequestResponse', 'sid': 1, 'ign': False, 'follows': False, 'md': b'', 'd': b'id-in-use'},
        {'t': 'Resume', 'sid': 0, 'ign': False, 'major': 1, 'minor': 0, 'token': b't', 'ls': 1, 'fc': 2},
        {'t': 'RequestResponse', 'sid': 7, 'ign': False, 'follows': False, 'md': b'm', 'd': b'second'},
        {'t': 'MetadataPush', 'sid': 0, 'ign': False, 'md': b'pushed'},
        {'t': 'RequestStream', 'sid': 9, 'ign': False, 'follows': False, 'n': 2, 'md': b'', 'd': b'stream'},
        {'t': 'RequestResponse', 'sid': 11, 'ign': False, 'follows': False, 'md': b'', 'd': b'last'},
    ]
    bodies = [FR.build(f).serialize() for f in frs]
    bodies.insert(3, bytes([0, 0, 0, 13, 0xFC, 0, 1, 2]))        # unknown frame type: skipped
    return b''.join(len(b).to_bytes(3, 'big') + b for b in bodies)


def run_endpoint_reads(chunks_, eof_with_last):
    import asyncio
    from harness import sim
    from rsocket.transports.tcp import TransportTCP
    from rsocket.rsocket_server import RSocketServer
    from rsocket.request_handler import BaseRequestHandler
    from rsocket.payload import Payload
    from rsocket.helpers import create_future
    from rsocket.streams.stream_from_generator import StreamFromGenerator
    loop = sim.new_loop()
    seen = []

    class Wr:
        def __init__(self):
            self.writes = []
            self.closed = False

        def write(self, b):
            self.writes.append(bytes(b))

        async def drain(self):
            pass

        def close(self):
            self.closed = True

        async def wait_closed(self):
            pass

        def is_closing(self):
            return self.closed

    class H(BaseRequestHandler):
        async def request_response(self, payload):
            seen.append(('rr', bytes(payload.data)))
            if payload.data == b'raise':
                raise KeyError('handler failed')
            f = create_future()
            if payload.data != b'first':        # stream 1 stays open: the later request on its id is refused whenever it arrives
                f.set_result(Payload(b'answer to ' + bytes(payload.data)))
            return f

        async def request_fire_and_forget(self, payload):
            seen.append(('fnf', bytes(payload.data)))

        async def on_metadata_push(self, payload):
            seen.append(('push', bytes(payload.metadata)))

        async def request_stream(self, payload):
            seen.append(('rs', bytes(payload.data)))

            def g():
                yield Payload(b'e1'), False
                yield Payload(b'e2'), True
            return StreamFromGenerator(g)
    w = Wr()
    box = {}
    try:
        def mk():
            box['r'] = asyncio.StreamReader()
            box['e'] = RSocketServer(TransportTCP(box['r'], w), handler_factory=H)
        loop.run(mk)
        loop.settle()
        for i, c in enumerate(chunks_):
            last = i == len(chunks_) - 1
            loop.run(lambda c=c, last=last: (box['r'].feed_data(c), box['r'].feed_eof() if (last and eof_with_last) else None))
            loop.settle()
        if not eof_with_last:
            loop.run(lambda: box['r'].feed_eof())
        loop.settle()
        out = b''.join(w.writes)
        answers = []
        i = 0
        while i + 3 <= len(out):
            n = int.from_bytes(out[i:i + 3], 'big')
            d = sim.parse_sent(out[i + 3:i + 3 + n])
            answers.append((d.get('t'), d.get('sid'), bytes(d.get('d') or b'') if d.get('t') != 'Error' else d.get('code')))
            i += 3 + n
        # answers on different streams may interleave differently with the timing of the reads: per stream they may not
        per_stream = sorted(answers, key=lambda x: x[1])          # stable: keeps the order within a stream
        return seen, per_stream
    finally:
        loop.finish()


def endpoint_reads_oracle(rng, n_random):
    stream = _endpoint_stream()
    ref = run_endpoint_reads([stream], False)
    out = []
    parts = [[stream], [stream[:1], stream[1:]], [stream[:2], stream[2:]], [stream[:-1], stream[-1:]]]
    # one frame per read, every two-way split, a few random partitions
    fr_cuts = []
    i = 0
    while i < len(stream):
        n = int.from_bytes(stream[i:i + 3], 'big')
        fr_cuts.append(i + 3 + n)
        i += 3 + n
    parts.append([stream[a:b] for a, b in zip([0] + fr_cuts[:-1], fr_cuts)])
    for k in range(1, len(stream), 3):
        parts.append([stream[:k], stream[k:]])
    for _ in range(n_random):
        cuts = sorted(rng.sample(range(1, len(stream)), rng.randint(2, 12)))
        parts.append([stream[a:b] for a, b in zip([0] + cuts, cuts + [len(stream)])])
    if len(ref[0]) < 7:
        out.append({'what': 'endpoint on the TCP transport: reference run saw only %r' % (ref[0],), 'kind': 'endpoint-reads'})
    for p in parts:
        for eof_with_last in (False, True):
            got = run_endpoint_reads(p, eof_with_last)
            # with the end of the stream already there the answers may go unwritten (the peer is gone); what was received
            # must still have been handed to the handlers, all of it
            if (got[0] != ref[0]) if eof_with_last else (got != ref):
                out.append({'what': 'an endpoint on the TCP transport handled the same bytes differently when read as %s%s: handlers saw %r '
                                    '(one read: %r); answers %r (one read: %r)' %
                                    ([len(c) for c in p][:14], ' with the end of stream already buffered at the last read' if eof_with_last else '',
                                     got[0][-4:], ref[0][-4:], got[1][-3:], ref[1][-3:]),
                            'kind': 'endpoint-reads', 'chunk_lengths': [len(c) for c in p], 'eof_with_last': eof_with_last})
                break
        if len(out) >= 3:
            break
    return out


def endpoint_reads_battery():
    import random
    return endpoint_reads_oracle(random.Random(4), 20)


def messaging_battery():
    from harness import common
    return messaging_oracle(common.Ctx('C04', 'quick', 0))[0]
