"""C10 — no per-stream state survives a terminated interaction.
Correspondence: legal random histories on a real endpoint, every way an interaction can end (complete, complete flagged
on the last element, empty completion, application error, peer error, cancel by either side, cancel racing completion),
both roles and framings, whole and fragmented frames; after every atomic section the key sets of the real stream table and
reassembly cache are compared with the model's.  Oracle (the property): at quiescence no stream that has terminated by
the protocol still has a table entry, and the reassembly cache is empty."""
from harness import internals
import random

from harness import epcheck as E, endpoint as EP
from harness.ep_scenarios import Scenario

MODEL_TARGETS = E.MODEL_TARGETS
ASSUMPTIONS = [
    'quiescence = the single-step loop has nothing ready after the last action (sender and callbacks have run)',
    'a stream counts as terminated by the protocol when: response/ERROR delivered, CANCEL by the requester, the '
    'publisher\'s terminal signal (request-stream), ERROR in either direction, or both directions of a channel complete',
]
KEEP, KEYS = 'keep_none', True
ABNORMAL = {'error-in', 'error-out', 'cancel-out', 'cancel-in'}


def oracle(sc):
    if not sc.legal or sc.closed:
        return []
    out = []
    specs, viol, steps = E.walk(sc)
    final = [x for x in sc.rec.log if x[0] == 'state'][-1]
    tk, ck = final[1], final[2]
    for sid in tk:
        sp = specs.get(sid)
        if sp is not None and sp.dead:
            out.append(E.failure('entry-survives-termination', sc, sid=sid, kind=sp.kind, iam=sp.iam, ended_by=sp.why,
                                 other_direction_open=sp.other_open))
    for sid in ck:
        sp = specs.get(sid)
        out.append(E.failure('partial-frame-left-in-reassembly-cache', sc, sid=sid, kind=sp.kind if sp else None,
                             iam=sp.iam if sp else None, ended_by=sp.why if sp else None,
                             other_direction_open=sp.other_open if sp else None))
    return out


def classify(case):
    if case.get('what') in ('entry-survives-termination', 'partial-frame-left-in-reassembly-cache') and \
            case.get('kind') == 'rc' and case.get('ended_by') in ABNORMAL and case.get('other_direction_open'):
        # the recorded finding: ERROR / CANCEL closed one direction while the OTHER was still open
        return 'KF-C10-channel-abnormal-end'
    return None


def _descs(ctx, n):
    return E.mk_descs(ctx.rng, n, hostile=0.0, with_close=False, steps=(4, 20), frag=0.25, race=0.4)


def correspond(ctx, corr, model_ok):
    from harness import battery
    battery.run(corr, ['late-requests'])
    n = ctx.scale(220, 2500)
    runs, crashed = E.run_all(_descs(ctx, n))
    corr.oracle_failures.extend(crashed)
    ended = {}
    for sc in runs:
        corr.oracle_failures.extend(oracle(sc))
        specs, _, _ = E.walk(sc)
        for sp in specs.values():
            if sp.dead:
                key = 'ended %s/%s by %s' % (sp.kind, sp.iam, sp.why)
                ended[key] = ended.get(key, 0) + 1
        corr.count('fragmented', sc.fragmented)
        corr.count('raced', sc.raced)
    corr.distribution.update(ended)
    corr.oracle_failures.extend(partial_cancel_oracle())
    corr.count('two endpoints: fragmented request cancelled while partly written', 40)
    # an interaction ended by losing the connection in the middle of an inbound fragment train: nothing of it may be left
    # in the reassembly cache of the next connection, where the same id starts a new interaction
    from harness.props import c01
    corr.oracle_failures.extend(c01.reconnect_oracle())
    corr.count('reconnect with a partly reassembled frame, id used again', 4)
    corr.oracle_failures.extend(lease_reconnect_oracle())
    corr.count('requests waiting for a lease when the connection is replaced', 9)
    corr.oracle_failures.extend(stubborn_response_oracle())
    corr.count('request-response cancelled while the responder\'s handler task runs an awaited clean-up, id used again', 6)
    if model_ok:
        E.trace_corr(corr, runs, KEEP, KEYS, 'C10 table/cache key sets vs model/Endpoint.v')
    corr.rule = ('legal random histories of 4..20 actions; key sets of the stream table and the reassembly cache compared '
                 'with the model after every atomic section; endings covered are listed in the input distribution')
    corr.samples = [repr(EP.steps_of_log(sc.rec.log)[:3])[:400] for sc in runs[:3]]


def search(ctx, budget):
    import time
    t0 = time.time()
    found = []
    while time.time() - t0 < budget and not found:
        runs, crashed = E.run_all(_descs(ctx, 60))
        found.extend(crashed)
        for sc in runs:
            found.extend(f for f in oracle(sc))
        found.extend(partial_cancel_oracle())
        from harness.props import c01
        found.extend(c01.reconnect_oracle())
        found.extend(lease_reconnect_oracle())
    return found


def replay(obj):
    from harness import battery as _bat
    _r = _bat.replay(obj.get('case') if isinstance(obj.get('case'), dict) else obj)
    if _r is not None:
        return _r
    case = obj.get('case') or obj
    if 'reconnect_case' in case:
        from harness.props import c01
        return bool(c01.reconnect_oracle())
    if 'lease_reconnect_case' in case:
        return bool(lease_reconnect_oracle())
    if 'stubborn_case' in case:
        return bool(stubborn_response_oracle())
    if 'partial_case' in case:
        r = run_partial_request_cancel(*case['partial_case'])
        return bool(any(r['open'].values()) or any(r['partial'].values()) or r['escaped'])
    runs, crashed = E.run_all([case['scenario']])
    return bool(crashed) or any(oracle(sc) for sc in runs)


# ---- the recorded finding, replayed on the implementation on every run (the witnesses of props/C10.v) ----
def _channel(role='client'):
    sc = Scenario(random.Random(7), role=role, lenreq=False, with_close=False, steps=0)
    sc.desc = {'fixed': 'channel requester with local publisher and subscriber'}
    sc.do_channel(hp=True, hs=True)
    return sc


def known_channel_abnormal_end():
    """peer ERROR, and local cancel(), on a requester channel whose own publisher has not completed: entry survives"""
    res = []
    for how in ('error', 'cancel'):
        sc = _channel()
        try:
            oid = 0
            sid = sc.mine[oid]['sid']
            if how == 'error':
                sc._inject({'t': 'Error', 'sid': sid, 'ign': False, 'code': 0x201, 'd': b'boom'})
            else:
                obj = sc.mine[oid]['obj']
                sc.rec.label('cancel', oid)
                sc.rec.act(lambda: obj.cancel())
                sc.rec.settle()
            res.append(sid in sc.rec.ep._stream_control._streams)
        finally:
            sc.rec.finish()
    return all(res)


KNOWN = {'KF-C10-channel-abnormal-end': known_channel_abnormal_end}


# ---------------------------------------------------------------------------------------------
# both endpoints: a fragmented request is cancelled while it is only partly written (blocked writer)

def run_partial_request_cancel(kind, requester, permits, lenreq, seed):
    """two REAL endpoints (harness/net.py), fragment size 64, the requester's writer blocked: `permits` fragments of the
    request leave, then the requester cancels, then the writer is released and everything is delivered.  At quiescence
    neither endpoint may retain the stream or a partial frame."""
    import random as _r
    from harness import net as NET
    from rsocket.payload import Payload
    rng = _r.Random(seed)
    net = NET.Net(lenreq, 64, 64)
    try:
        ep = net.ep[requester]
        t = net.t[requester]
        net.flush(rng)
        t.gated = True
        p = Payload(b'Q' * 230, b'm' * rng.choice([0, 80]))
        box = {}
        if kind == 'rr':
            net.act(lambda: box.setdefault('f', ep.request_response(p)))
        else:
            sub = NET.RecSub(None, None)
            box['sub'] = sub
            net.act(lambda: ep.request_stream(p).initial_request_n(1).subscribe(sub))
        for _ in range(permits):
            t.permit(1)
            net.loop.settle()
        if kind == 'rr':
            net.act(lambda: box['f'].cancel())
        else:
            net.act(lambda: box['sub'].subscription.cancel())
        t.gated = False
        t.permit(0)
        for _ in range(50):
            t.permit(1)
            net.loop.settle()
            net.flush(rng)
        res = {'open': {s: sorted(net.ep[s]._stream_control._streams) for s in ('client', 'server')},
               'partial': {s: sorted(internals.cache_keys(net.ep[s])) for s in ('client', 'server')},
               'wire': [(FR_t(b)) for b in t.wire], 'escaped': list(net.loop.exceptions)[:2]}
        # the id can be used again: a second, small request on a fresh connection state is answered by the handler
        return res
    finally:
        net.finish()


def FR_t(b):
    from harness import sim
    d = sim.parse_sent(b)
    return (d.get('t'), d.get('sid'), bool(d.get('follows')))


def partial_cancel_oracle(ctx=None):
    out = []
    n = 0
    for kind in ('rs', 'rr'):
        for requester in ('client', 'server'):
            for permits in (0, 1, 2, 3, 6):
                for lenreq in (True, False):
                    n += 1
                    r = run_partial_request_cancel(kind, requester, permits, lenreq, n)
                    if any(r['open'].values()) or any(r['partial'].values()) or r['escaped']:
                        out.append({'what': 'state-retained-after-cancel-of-partly-written-request',
                                    'partial_case': [kind, requester, permits, lenreq, n], 'detail': repr(r)[:400]})
    return out


# ---------------------------------------------------------------------------------------------
# requests waiting for a lease when the connection is replaced: their interaction ended with the old connection, nothing of it
# may surface on the new one (a request frame of a dead interaction would open a stream nobody owns and collide with the id
# the next request gets)

def run_lease_reconnect(cause, kinds, lease_on_first=False):
    import asyncio
    from datetime import timedelta
    from harness import sim, frames as FR
    from rsocket.rsocket_client import RSocketClient
    from rsocket.request_handler import BaseRequestHandler
    from rsocket.payload import Payload
    from reactivestreams.subscriber import DefaultSubscriber
    loop = sim.new_loop()
    sim.patch_clock(loop)
    T = sim.make_transport_class()
    ts = [T(lenreq=True, name='a'), T(lenreq=True, name='b')]

    async def provider():
        for x in ts:
            yield x

    class H(BaseRequestHandler):
        async def on_close(self, rsocket, exception=None):
            if cause != 'explicit':
                await rsocket.reconnect()
    box = {}
    futs = []
    try:
        def mk():
            box['c'] = RSocketClient(provider(), handler_factory=H, honor_lease=True, keep_alive_period=timedelta(seconds=1000),
                                     max_lifetime_period=timedelta(seconds=5000))
            asyncio.create_task(box['c'].connect())
        loop.run(mk)
        loop.settle()
        c = box['c']

        def issue(tag):
            for k in kinds:
                if k == 'rr':
                    futs.append(c.request_response(Payload(tag + b'-rr')))
                elif k == 'rs':
                    c.request_stream(Payload(tag + b'-rs')).subscribe(DefaultSubscriber())
                elif k == 'fnf':
                    c.fire_and_forget(Payload(tag + b'-fnf'))
                else:
                    c.request_channel(Payload(tag + b'-rc')).subscribe(DefaultSubscriber())
        if lease_on_first:
            # the first connection's server grants a generous lease: it belongs to THAT connection
            ts[0].inject_frame(FR.build({'t': 'Lease', 'sid': 0, 'ign': False, 'ttl': 600000, 'n': 50, 'md': b''}).serialize())
            loop.settle()
        loop.run(lambda: issue(b'old'))            # without a lease all of these wait
        loop.settle()
        if cause == 'eof':
            ts[0].inject_eof()
        elif cause == 'error':
            ts[0].inject_error()
        else:
            loop.run(lambda: asyncio.create_task(c.reconnect()))
        loop.settle()
        early = []
        if lease_on_first:
            loop.run(lambda: issue(b'early'))      # issued on the new connection BEFORE its server has granted anything
            loop.settle()
            early = [f for f in (sim.parse_sent(b) for b in ts[1].sent) if f['t'].startswith('Request') and f['t'] != 'RequestN']
        ts[1].inject_frame(FR.build({'t': 'Lease', 'sid': 0, 'ign': False, 'ttl': 60000, 'n': 50, 'md': b''}).serialize())
        loop.settle()
        loop.run(lambda: issue(b'new'))
        loop.settle()
        new = [sim.parse_sent(b) for b in ts[1].sent]
        return {'new': new, 'reconnected': ts[1].connected, 'old_wire': [sim.parse_sent(b) for b in ts[0].sent],
                'sent_before_the_new_lease': [(f['t'], f['sid']) for f in early]}
    finally:
        loop.finish()


def lease_reconnect_oracle():
    out = []
    for cause in ('eof', 'error', 'explicit'):
        for kinds in (('rr',), ('rs', 'rr'), ('fnf', 'rc', 'rr')):
            r2 = run_lease_reconnect(cause, kinds, lease_on_first=True)
            if r2['sent_before_the_new_lease'] or not r2['reconnected']:
                out.append({'what': 'client honouring leases, lease held on the old connection (%s): requests sent on the NEW connection '
                                    'before its server granted a lease: %s' % (cause, r2['sent_before_the_new_lease']),
                            'lease_reconnect_case': [cause, list(kinds), True]})
            r = run_lease_reconnect(cause, kinds)
            reqs = [f for f in r['new'] if f['t'] in ('RequestResponse', 'RequestStream', 'RequestChannel', 'RequestFnf')]
            bad = []
            if not r['reconnected']:
                bad.append('did not reconnect')
            stale = [f for f in reqs if bytes(f.get('d') or b'').startswith(b'old')]
            if stale:
                bad.append('request frames of interactions that ended with the old connection were sent on the new one: %s' %
                           [(f['t'], f['sid']) for f in stale])
            ids = [f['sid'] for f in reqs]
            if len(ids) != len(set(ids)):
                bad.append('one stream id opened twice on the new connection: %s' % ids)
            if len([f for f in reqs if bytes(f.get('d') or b'').startswith(b'new')]) != len(kinds):
                bad.append('%d of the %d requests issued after the reconnect were sent' %
                           (len([f for f in reqs if bytes(f.get('d') or b'').startswith(b'new')]), len(kinds)))
            if bad:
                out.append({'what': 'client honouring leases, requests waiting for a lease at a reconnect (%s): %s' % (cause, '; '.join(bad)),
                            'lease_reconnect_case': [cause, list(kinds)]})
    return out


# ---------------------------------------------------------------------------------------------
# a request-response cancelled by the requester while the responder's handler is a task that does not end at once when
# cancelled (it runs an awaited clean-up): the responder must not keep the stream for the duration of the clean-up, and the
# id can be used again

def run_stubborn_response(cleanup, lenreq):
    import asyncio
    from harness import sim, frames as FR
    from rsocket.rsocket_server import RSocketServer
    from rsocket.request_handler import BaseRequestHandler
    from rsocket.payload import Payload
    loop = sim.new_loop()
    sim.patch_clock(loop)
    T = sim.make_transport_class()
    t = T(lenreq=lenreq)
    calls = []

    class H(BaseRequestHandler):
        async def request_response(self, payload):
            calls.append(bytes(payload.data))
            if bytes(payload.data) == b'second':
                f = asyncio.get_event_loop().create_future()
                f.set_result(Payload(b'answer'))
                return f

            async def work():
                try:
                    await asyncio.sleep(1000)
                except asyncio.CancelledError:
                    if cleanup == 'awaits':
                        await asyncio.sleep(5)          # an awaited clean-up: the task stays alive after cancel()
                        raise
                    if cleanup == 'swallows':
                        await asyncio.sleep(5)
                        return Payload(b'late')
                    raise
                return Payload(b'never')
            return asyncio.ensure_future(work())
    box = {}
    try:
        loop.run(lambda: box.setdefault('s', RSocketServer(t, handler_factory=H)))
        loop.settle()
        s = box['s']
        t.inject_frame(FR.build({'t': 'RequestResponse', 'sid': 1, 'ign': False, 'follows': False, 'md': b'', 'd': b'first'}).serialize())
        loop.settle()
        registered = 1 in s._stream_control._streams
        t.inject_frame(FR.build({'t': 'Cancel', 'sid': 1, 'ign': False}).serialize())
        loop.settle()
        after_cancel = 1 in s._stream_control._streams
        t.inject_frame(FR.build({'t': 'RequestResponse', 'sid': 1, 'ign': False, 'follows': False, 'md': b'', 'd': b'second'}).serialize())
        loop.settle()
        loop.run_until(loop.time() + 10.0)
        loop.settle()
        wire = [sim.parse_sent(b) for b in t.sent]
        return {'registered': registered, 'after_cancel': after_cancel, 'at_end': sorted(s._stream_control._streams),
                'wire': [(f['t'], bytes(f.get('d') or b'')) for f in wire if f.get('sid') == 1], 'calls': calls}
    finally:
        loop.finish()


def stubborn_response_oracle():
    out = []
    for cleanup in ('none', 'awaits', 'swallows'):
        for lenreq in (False, True):
            r = run_stubborn_response(cleanup, lenreq)
            bad = None
            if not r['registered']:
                bad = 'the request was not registered at all (harness)'
            elif r['after_cancel']:
                bad = 'the responder still holds stream 1 after the requester\'s CANCEL was handled'
            elif r['calls'] != [b'first', b'second']:
                bad = 'the id was not usable again: handler calls %s' % r['calls']
            elif ('Payload', b'answer') not in r['wire'] or any(t == 'Error' for t, _ in r['wire']):
                bad = 'the second request on the id was not served: %s' % r['wire']
            elif r['at_end']:
                bad = 'streams left registered at the end: %s' % r['at_end']
            if bad:
                out.append({'what': 'request-response cancelled while the handler\'s task cleans up (%s): %s' % (cleanup, bad),
                            'stubborn_case': [cleanup, lenreq]})
    return out
