"""C20 — Rx (v3) / ReactiveX (v4) adapters are transparent.
Correspondence: two real endpoints over the harness link (harness/net.py); the client is driven through RxRSocket /
ReactiveXClient, the server's handler is an RxHandler / ReactivexHandler delegate behind the handler adapter.  Element
counts 0, 1, many; request limits 1..max; errors at every position; disposal at every moment; plain observables and
back-pressure-aware factories; channels in both directions; request-response, fire-and-forget, metadata-push, setup.
What the adapter's own subscriber is given, what the application's observer then sees and what it requests is recorded and
replayed through model/RxAdapter.v inside Coq.  Oracle (the property): the observer sees exactly what the core API would
deliver; REQUEST_N values are the limit; PAYLOAD elements on the wire never exceed the credit the responder has
received; a back-pressure factory is asked for exactly the credited amounts; dispose sends CANCEL and silences the
observer; every delegate method is reached."""
import asyncio
import random

from harness import net as NET, sim, frames as FR
from harness.common import run_coq_cases, clist, cN, cbool

MODEL_TARGETS = ['model/RxAdapter.vo', 'corr/C20Corr.vo', 'corr/Harness.vo', 'model/Publisher.vo']
ASSUMPTIONS = [
    'Rx / ReactiveX operators (from_iterable, materialize, Subject, create, to_future) behave as documented',
    'the adapter\'s subscriber classes are observed by subclassing them in the harness process (no source change)',
    'equivalence with the core API is judged on what a recording observer sees (elements, order, completion, errors)',
]
HEADER = ('From Coq Require Import NArith List Bool.\nFrom RSV Require Import model.RxAdapter corr.C20Corr corr.Harness.\n'
          'Import ListNotations.\nOpen Scope N_scope.\nDefinition chk := chk20.\n')
MAXN = 0x7FFFFFFF


def libs(ver):
    L = {}
    if ver == 'rx4':
        import reactivex as R
        from reactivex import operators as ops
        from reactivex.subject import Subject
        from rsocket.reactivex.reactivex_client import ReactiveXClient as Client
        from rsocket.reactivex.reactivex_handler_adapter import reactivex_handler_factory as hf
        from rsocket.reactivex.reactivex_handler import BaseReactivexHandler as Base
        from rsocket.reactivex.reactivex_channel import ReactivexChannel as Chan
        from rsocket.reactivex import back_pressure_publisher as BPP
        import rsocket.reactivex.from_rsocket_publisher as FRP
        import rsocket.reactivex.reactivex_handler_adapter as ADP
    else:
        import rx as R
        from rx import operators as ops
        from rx.subject import Subject
        from rsocket.rx_support.rx_rsocket import RxRSocket as Client
        from rsocket.rx_support.rx_handler_adapter import rx_handler_factory as hf
        from rsocket.rx_support.rx_handler import BaseRxHandler as Base
        from rsocket.rx_support.rx_channel import RxChannel as Chan
        from rsocket.rx_support import back_pressure_publisher as BPP
        import rsocket.rx_support.from_rsocket_publisher as FRP
        import rsocket.rx_support.rx_handler_adapter as ADP
    L.update(R=R, ops=ops, Subject=Subject, Client=Client, hf=hf, Base=Base, Chan=Chan, BPP=BPP, FRP=FRP, ADP=ADP)
    return L


class Tap:
    """observes the adapter's subscriber classes by subclassing them for the duration of a run"""

    def __init__(self, L):
        self.L = L
        self.logs = []          # one dict per adapter subscriber created: {'requester':bool,'limit':..,'ins':[],'reqs':[]}

    def __enter__(self):
        FRP, ADP = self.L['FRP'], self.L['ADP']
        tap = self
        self.saved = (FRP.RxSubscriber, ADP.RxSubscriberFromObserver)

        class LoggingSubscription:
            def __init__(self, inner, log, requester):
                self.inner, self.log, self.requester = inner, log, requester

            def request(self, n):
                if self.requester:
                    self.log['ins'].append(('task',))
                self.log['reqs'].append(n)
                return self.inner.request(n)

            def cancel(self):
                self.log['cancelled'] = True
                return self.inner.cancel()

        def mk(base, requester):
            class Logged(base):
                def __init__(self, observer, limit_rate=MAXN):
                    super().__init__(observer, limit_rate)
                    self._vlog = {'requester': requester, 'limit': limit_rate, 'ins': [], 'reqs': [], 'cancelled': False}
                    tap.logs.append(self._vlog)

                def on_subscribe(self, subscription):
                    return super().on_subscribe(LoggingSubscription(subscription, self._vlog, requester))

                def on_next(self, value, is_complete=False):
                    self._vlog['ins'].append(('next', bytes(value.data or b''), bool(is_complete)))
                    return super().on_next(value, is_complete)

                def on_complete(self):
                    self._vlog['ins'].append(('complete',))
                    return super().on_complete()

                def on_error(self, exception):
                    self._vlog['ins'].append(('error',))
                    return super().on_error(exception)
            return Logged
        FRP.RxSubscriber = mk(self.saved[0], True)
        ADP.RxSubscriberFromObserver = mk(self.saved[1], False)
        return self

    def __exit__(self, *a):
        self.L['FRP'].RxSubscriber, self.L['ADP'].RxSubscriberFromObserver = self.saved
        return False


class Obs:
    """recording observer"""

    def __init__(self):
        self.events = []

    def on_next(self, v):
        self.events.append(('next', bytes(v.data or b'') if hasattr(v, 'data') else v))

    def on_error(self, e):
        self.events.append(('error',))

    def on_completed(self):
        self.events.append(('completed',))


def run_case(case):
    """case: dict(ver, kind, n, limit, fail_at, dispose_after, lenreq, factory, up_n, h_limit, seed)"""
    from rsocket.payload import Payload
    L = libs(case['ver'])
    R, ops = L['R'], L['ops']
    rng = random.Random(case['seed'])
    calls = []
    asked = []        # amounts a back-pressure-aware factory was asked for
    h_obs = Obs()     # the handler's observer of a channel

    def source(n, fail_at, tag):
        items = [Payload(b'%s%d' % (tag, i)) for i in range(n)]
        if fail_at is not None and fail_at <= n:
            return R.concat(R.from_iterable(items[:fail_at]), R.throw(RuntimeError('boom')))
        return R.from_iterable(items)

    gate = {}

    def factory_source(n, tag):
        async def gen():
            for i in range(n):
                if case.get('gate_after') is not None and i >= case['gate_after']:
                    # the source has nothing more to give until the harness says so (after the CANCEL has been handled)
                    gate.setdefault('ev', asyncio.Event())
                    await gate['ev'].wait()
                yield Payload(b'%s%d' % (tag, i))

        def factory(backpressure):
            backpressure.subscribe(on_next=lambda k: asked.append(k))
            return L['BPP'].observable_from_async_generator(gen().__aiter__(), backpressure)
        return L['BPP'].from_observable_with_backpressure(factory)

    class D(L['Base']):
        async def on_setup(self, data_encoding, metadata_encoding, payload):
            calls.append(('on_setup', bytes(payload.data or b''), bytes(data_encoding), bytes(metadata_encoding)))

        async def on_metadata_push(self, metadata):
            calls.append(('on_metadata_push', bytes(metadata.metadata or b'')))

        async def request_fire_and_forget(self, payload):
            calls.append(('request_fire_and_forget', bytes(payload.data or b'')))

        async def request_response(self, payload):
            calls.append(('request_response', bytes(payload.data or b'')))
            if case.get('resp_future'):
                f = asyncio.get_event_loop().create_future()      # the v4 adapter accepts a future of an observable
                f.set_result(source(case['n'], case['fail_at'], b'r'))
                return f
            return source(case['n'], case['fail_at'], b'r')

        async def request_stream(self, payload):
            calls.append(('request_stream', bytes(payload.data or b'')))
            if case.get('factory'):
                return factory_source(case['n'], b'v')
            return source(case['n'], case['fail_at'], b'v')

        async def request_channel(self, payload):
            calls.append(('request_channel', bytes(payload.data or b'')))
            return L['Chan'](observable=source(case['n'], case['fail_at'], b'v'), observer=h_obs,
                             limit_rate=case.get('h_limit') or MAXN)
    res = {'case': case}
    with Tap(L) as tap:
        net = NET.Net(case['lenreq'], None, None, handler_factories={'server': L['hf'](lambda: D())},
                      client_kwargs={'data_encoding': b'application/x-data', 'metadata_encoding': b'message/x-meta',
                                     'setup_payload': Payload(b'hello')})
        try:
            client = L['Client'](net.ep['client'])
            timeline = []        # ('recv' | 'sent', frame) at the client, in the order things happened
            net.dispatched['client'].on_append = lambda d: timeline.append(('recv', d))
            net.tc.wire = NET.LogList(net.tc.wire)
            net.tc.wire.on_append = lambda b: timeline.append(('sent', sim.parse_sent(b)))
            stimeline = []       # the same at the server
            net.dispatched['server'].on_append = lambda d: stimeline.append(('recv', d))
            net.ts.wire = NET.LogList(net.ts.wire)
            net.ts.wire.on_append = lambda b: stimeline.append(('sent', sim.parse_sent(b)))
            obs = Obs()
            kind = case['kind']
            box = {}
            over = []

            def credit_check():
                got = sum(f.get('n', 0) for f in net.dispatched['server'] if f['t'] in ('RequestStream', 'RequestChannel', 'RequestN')
                          and f.get('sid') == 1)
                sent = sum(1 for b in net.ts.wire if sim.parse_sent(b).get('t') == 'Payload' and sim.parse_sent(b).get('next')
                           and sim.parse_sent(b).get('sid') == 1)
                if sent > got and not over:
                    over.append((sent, got))

            def subscribe(o):
                box['d'] = o.subscribe(on_next=obs.on_next, on_error=obs.on_error, on_completed=obs.on_completed)
            core_pub = None
            if kind == 'channel-core':
                # the requester is a core-API application whose publisher flags COMPLETE on its last element
                core_pub = NET.RecPub(None, None)
                csub = NET.RecSub(None, None)
                net.act(lambda: net.ep['client'].request_channel(Payload(b'req'), core_pub).subscribe(csub))
                o = None
            elif kind == 'stream-core':
                # a core-API requester of a stream whose subscriber grants credit in several request(n) calls in a row
                csub = NET.RecSub(None, None)
                g = case['grants']
                net.act(lambda: net.ep['client'].request_stream(Payload(b'req')).initial_request_n(g[0]).subscribe(csub))
                net.act(lambda: [csub.subscription.request(x) for x in g[1:]])
                o = None
            elif kind == 'stream':
                o = client.request_stream(Payload(b'req'), request_limit=case['limit'])
                if case.get('take') is not None:
                    o = o.pipe(ops.take(case['take']))      # unsubscribes from INSIDE on_next of the k-th element
            elif kind == 'channel':
                up = source(case['up_n'], None, b'u') if case['up_n'] is not None else None
                o = client.request_channel(Payload(b'req'), request_limit=case['limit'], observable=up)
            elif kind == 'response':
                o = client.request_response(Payload(b'req'))
            elif kind == 'fnf':
                o = client.fire_and_forget(Payload(b'fire'))
            else:
                o = client.metadata_push(b'pushed')
            disposed = False
            if o is not None and case.get('dispose_after') == -1:
                def sub_and_dispose():
                    subscribe(o)
                    box['d'].dispose()          # same loop turn: the helper tasks have not run yet
                net.act(sub_and_dispose)
                disposed = True
                res['events_at_dispose'] = 0
            elif o is not None:
                net.act(lambda: subscribe(o))
            core_sent = 0
            for _ in range(4000):
                net.loop.settle()
                credit_check()
                if core_pub is not None and core_pub.subscriber is not None and core_sent < case['up_n']:
                    last = core_sent == case['up_n'] - 1
                    i = core_sent
                    net.act(lambda: core_pub.subscriber.on_next(Payload(b'u%d' % i), last))
                    core_sent += 1
                    continue
                if case.get('dispose_after') is not None and not disposed and \
                        sum(1 for e in obs.events if e[0] == 'next') >= case['dispose_after']:
                    net.act(lambda: box['d'].dispose())
                    disposed = True
                    res['events_at_dispose'] = len(obs.events)
                pend = [s for s in ('client', 'server') if net.t[net.other(s)].pending()]
                if not pend:
                    break
                to = rng.choice(pend)
                p = net.t[net.other(to)].pending()
                n = rng.choice([1, 3, 7, 20, 64, p]) if net.lenreq else rng.choice([1, 1, 2, p])
                net.deliver(to, max(1, min(n, p)))
                credit_check()
            for _ in range(10):
                net.loop.tick()
            net.flush(rng)
            if gate.get('ev') is not None:
                net.act(lambda: gate['ev'].set())
                for _ in range(10):
                    net.loop.tick()
                net.flush(rng)
            credit_check()
            if kind == 'stream-core':
                res['core_events'] = list(csub.events)
            res.update(timeline=list(timeline), server_timeline=list(stimeline), events=list(obs.events), handler_events=list(h_obs.events), calls=list(calls), asked=list(asked),
                       over=over[:1], disposed=disposed, taps=[dict(t) for t in tap.logs],
                       client_wire=[sim.parse_sent(b) for b in net.tc.wire], server_wire=[sim.parse_sent(b) for b in net.ts.wire],
                       escaped=list(net.loop.exceptions)[:2],
                       open={s: sorted(net.ep[s]._stream_control._streams) for s in ('client', 'server')})
        finally:
            net.finish()
    return res


def expected_events(n, fail_at, tag=b'v'):
    if fail_at is not None and fail_at <= n:
        return [('next', b'%s%d' % (tag, i)) for i in range(fail_at)] + [('error',)]
    return [('next', b'%s%d' % (tag, i)) for i in range(n)] + [('completed',)]


def oracle(res):
    case = res['case']
    out = []

    def bad(what, **kw):
        d = {'what': what, 'rx_case': case}
        d.update(kw)
        out.append(d)
    kind = case['kind']
    ev = res['events']
    if res['escaped']:
        bad('exception-escaped', detail=res['escaped'])
    # wire legality of the Rx requester judged against its own prior receptions: once the responder's terminal frame (COMPLETE,
    # an element flagged complete, ERROR) has been RECEIVED on a stream the requester opened, a stream requester sends
    # nothing further on it (a CANCEL written before that reception merely crosses it and is fine)
    ended = set()
    for what, f in res.get('timeline', []):
        sid = f.get('sid')
        if not sid:
            continue
        if what == 'recv' and sid % 2 == 1 and (f['t'] == 'Error' or (f['t'] == 'Payload' and f.get('complete'))):
            if kind in ('stream', 'response'):
                ended.add(sid)
        elif what == 'sent' and sid in ended:
            bad('requester-sent-a-frame-after-it-had-received-the-terminal-frame', frame=repr(f)[:200])
            break
    # the responder side: once CANCEL has been received on a stream, no further element is written on it
    cancelled = set()
    for what, f in res.get('server_timeline', []):
        sid = f.get('sid')
        if what == 'recv' and f['t'] == 'Cancel':
            cancelled.add(sid)
        elif what == 'sent' and sid in cancelled and f['t'] == 'Payload':
            bad('responder-wrote-an-element-after-it-had-received-cancel', frame=repr(f)[:200])
            break
    if kind == 'stream-core':
        total = sum(case['grants'])
        want = [('next', b'', b'v%d' % i, False) for i in range(min(total, case['n']))]
        got = [e for e in res.get('core_events', []) if e[0] == 'next']
        got_cmp = [(e[0], e[1], e[2], False) for e in got]
        if got_cmp != want:
            bad('credit granted in several request(n) calls: %d granted, source has %d, %d elements delivered' %
                (total, case['n'], len(got)), got=repr(got[:8])[:300])
        return out
    if case.get('take') is not None and kind == 'stream':
        k = min(case['take'], case['n'])
        want = expected_events(case['n'], None)
        exp = want[:k] + [('completed',)] if case['take'] < case['n'] else want
        if case['take'] == 0:
            exp = [('completed',)]
        if ev != exp:
            bad('observer-behind-take-saw-something-else', expected=repr(exp)[:300], got=repr(ev)[:300])
        return out
    if kind in ('stream', 'channel'):
        want = expected_events(case['n'], case['fail_at'])
        if case.get('dispose_after') is None:
            if ev != want:
                bad('observer-saw-something-else', expected=repr(want)[:300], got=repr(ev)[:300])
        else:
            if ev != want[:len(ev)]:
                bad('observer-saw-something-else', expected=repr(want)[:300], got=repr(ev)[:300])
            if res['disposed']:
                if len(ev) > res.get('events_at_dispose', 0):
                    bad('events-after-dispose', at_dispose=res.get('events_at_dispose'), total=len(ev))
                finished = any(e[0] in ('completed', 'error') for e in ev[:res.get('events_at_dispose', 0)])
                cancels = [f for f in res['client_wire'] if f['t'] == 'Cancel']
                requested = any(f['t'] in ('RequestStream', 'RequestChannel') for f in res['client_wire'])
                if not finished and len(cancels) != (1 if requested else 0):
                    bad('dispose-did-not-cancel-the-stream', cancels=len(cancels), request_sent=requested)
        # request-n on the wire
        first = [f for f in res['client_wire'] if f['t'] in ('RequestStream', 'RequestChannel')]
        if case.get('dispose_after') == -1 and not first:
            pass            # disposed before anything was sent
        elif len(first) != 1 or first[0].get('n') != case['limit']:
            bad('initial-request-n', frames=repr(first)[:200])
        for f in res['client_wire']:
            if f['t'] == 'RequestN' and f.get('sid') == 1 and f.get('n') != case['limit'] and kind == 'stream':
                bad('request-n-is-not-the-limit', n=f.get('n'))
        if res['over']:
            bad('elements-on-the-wire-exceed-credit', sent_vs_credit=res['over'][0])
        if case.get('factory'):
            credits = [f['n'] for f in res['client_wire'] if f['t'] in ('RequestStream', 'RequestN') and f.get('sid') == 1]
            if res['asked'] != credits[:len(res['asked'])] or (case.get('dispose_after') is None and res['asked'] != credits):
                bad('factory-not-asked-for-the-credited-amounts', asked=res['asked'][:8], credits=credits[:8])
        if kind == 'channel' and case['up_n'] is not None and case.get('dispose_after') is None:
            wantu = expected_events(case['up_n'], None, b'u')
            if res['handler_events'] != wantu:
                bad('handler-observer-saw-something-else', expected=repr(wantu)[:300], got=repr(res['handler_events'])[:300])
        want_call = 'request_stream' if kind == 'stream' else 'request_channel'
        if case.get('dispose_after') == -1 and not first:
            pass
        elif [c for c in res['calls'] if c[0] == want_call] != [(want_call, b'req')]:
            bad('delegate-not-reached', calls=repr(res['calls'])[:200])
    elif kind == 'channel-core':
        wantu = [('next', b'u%d' % i) for i in range(case['up_n'])] + [('completed',)]
        if res['handler_events'] != wantu:
            bad('handler-observer-saw-something-else', expected=repr(wantu)[:300], got=repr(res['handler_events'])[:300])
        stray = [f for f in res['server_wire'] if f['t'] == 'RequestN']
        total = sum(f['n'] for f in stray)        # includes the request made at on_subscribe
        if case.get('h_limit') and total > case['up_n'] + case['h_limit']:
            bad('handler-side-requested-beyond-limit', requested=total, received=case['up_n'])
    elif kind == 'response':
        n, fa = case['n'], case['fail_at']
        if fa is not None and fa <= min(n, 1) and fa == 0:
            want = [('error',)]
        elif n == 0:
            want = [('completed',)]                  # an empty observable answers with the empty payload: filtered out
        elif fa is not None and fa <= n and fa < 1:
            want = [('error',)]
        else:
            want = [('next', b'r%d' % (min(n, fa if fa is not None and fa <= n else n) - 1)), ('completed',)] \
                if not (fa is not None and fa <= n) else [('error',)]
        if ev != want:
            bad('response-observer', expected=repr(want), got=repr(ev)[:200])
        if [c for c in res['calls'] if c[0] == 'request_response'] != [('request_response', b'req')]:
            bad('delegate-not-reached', calls=repr(res['calls'])[:200])
    elif kind == 'fnf':
        if ('request_fire_and_forget', b'fire') not in res['calls']:
            bad('delegate-not-reached', calls=repr(res['calls'])[:200])
    else:
        if ('on_metadata_push', b'pushed') not in res['calls']:
            bad('delegate-not-reached', calls=repr(res['calls'])[:200])
    setups = [c for c in res['calls'] if c[0] == 'on_setup']
    if setups != [('on_setup', b'hello', b'application/x-data', b'message/x-meta')]:
        bad('delegate-on_setup', calls=repr(setups)[:200])
    return out


def coq_cases(res):
    """one Coq case per adapter subscriber created during the run"""
    out = []
    ids = {}

    def vid(b):
        return ids.setdefault(b, len(ids) + 1)
    for t in res['taps']:
        ins = []
        for i in t['ins']:
            if i[0] == 'next':
                ins.append('SNext %s %s' % (cN(vid(i[1])), cbool(i[2])))
            elif i[0] == 'complete':
                ins.append('SComplete')
            elif i[0] == 'error':
                ins.append('SErr')
            else:
                ins.append('STask')
        seen_src = res['events'] if t['requester'] else res['handler_events']
        seen = []
        for e in seen_src:
            seen.append('ONext %s' % cN(vid(e[1])) if e[0] == 'next' else 'OCompleted' if e[0] == 'completed' else 'OError')
        if res['case'].get('dispose_after') is not None or res['case'].get('take') is not None or \
                res['case']['kind'] == 'stream-core':
            continue       # after dispose the observable no longer forwards to the observer (Rx semantics, not the adapter's)
        reqs = [cN(n) for n in t['reqs']]
        if not t['requester'] and reqs:
            reqs = reqs[1:]          # the request made at on_subscribe
        out.append('(%s, %s, %s, %s, %s)' % (cbool(t['requester']), cN(t['limit']), clist(ins), clist(seen), clist(reqs)))
    return out


def gen_cases(ctx, n):
    rng = ctx.rng
    cases = []
    # a systematic core: both versions x element counts x limits x error positions x disposal moments
    for ver in ('rx4', 'rx3'):
        for cnt in (0, 1, 2, 7):
            for limit in (1, 2, 3, MAXN):
                cases.append(dict(ver=ver, kind='stream', n=cnt, limit=limit, fail_at=None, dispose_after=None))
        for fa in (0, 1, 3, 5):
            cases.append(dict(ver=ver, kind='stream', n=5, limit=2, fail_at=fa, dispose_after=None))
        for da in (-1, 0, 1, 3):
            cases.append(dict(ver=ver, kind='stream', n=6, limit=rng.choice([1, 2, MAXN]), fail_at=None, dispose_after=da))
        cases.append(dict(ver=ver, kind='channel', n=3, limit=2, fail_at=None, dispose_after=-1, up_n=2, h_limit=2))
        for up, hl in ((2, 2), (4, 2), (3, 3), (3, 2), (1, 1), (5, MAXN)):
            cases.append(dict(ver=ver, kind='channel-core', n=0, limit=1, fail_at=None, dispose_after=None, up_n=up, h_limit=hl))
        for cnt in (0, 3):
            cases.append(dict(ver=ver, kind='stream', n=cnt, limit=2, fail_at=None, dispose_after=None, factory=True))
        for up in (None, 0, 1, 5):
            cases.append(dict(ver=ver, kind='channel', n=rng.choice([0, 1, 4]), limit=rng.choice([1, 2, MAXN]), fail_at=None,
                              dispose_after=None, up_n=up, h_limit=rng.choice([1, 2, MAXN])))
        for cnt, fa in ((0, None), (1, None), (1, 0), (3, None)):
            cases.append(dict(ver=ver, kind='response', n=cnt, limit=1, fail_at=fa, dispose_after=None))
            if ver == 'rx4':
                cases.append(dict(ver=ver, kind='response', n=cnt, limit=1, fail_at=fa, dispose_after=None, resp_future=True))
        cases.append(dict(ver=ver, kind='fnf', n=0, limit=1, fail_at=None, dispose_after=None))
        cases.append(dict(ver=ver, kind='push', n=0, limit=1, fail_at=None, dispose_after=None))
    while len(cases) < n:
        kind = rng.choice(['stream', 'stream', 'channel'])
        cnt = rng.choice([0, 1, 2, 5, 12, 30])
        c = dict(ver=rng.choice(['rx4', 'rx3']), kind=kind, n=cnt, limit=rng.choice([1, 2, 3, 5, 10, MAXN]),
                 fail_at=rng.choice([None, None, rng.randint(0, cnt)]),
                 dispose_after=rng.choice([None, None, None, -1, rng.randint(0, max(cnt, 1))]),
                 factory=(kind == 'stream' and rng.random() < 0.2))
        if c['factory']:
            c['fail_at'] = None
        if kind == 'channel':
            c.update(up_n=rng.choice([None, 0, 1, 6]), h_limit=rng.choice([1, 2, 4, MAXN]))
        cases.append(c)
        if rng.random() < 0.15:
            hl = rng.choice([1, 2, 3])
            cases.append(dict(ver=c['ver'], kind='channel-core', n=0, limit=1, fail_at=None, dispose_after=None,
                              up_n=hl * rng.randint(1, 3) + rng.choice([0, 0, 1]), h_limit=hl))
    for ver in ('rx4', 'rx3'):
        for grants in ([1, 2, 3], [2, 2], [1, 1, 1, 1], [3, MAXN], [1, 5]):
            cases.append(dict(ver=ver, kind='stream-core', n=10, limit=1, fail_at=None, dispose_after=None, grants=grants))
        for da in (1, 2, 4):
            cases.append(dict(ver=ver, kind='stream', n=20, limit=rng.choice([50, 100, MAXN]), fail_at=None, dispose_after=da,
                              factory=(ver == 'rx4'), gate_after=da + 1))
    for ver in ('rx4', 'rx3'):
        for cnt, k in ((3, 3), (3, 2), (4, 5), (1, 1)):
            cases.append(dict(ver=ver, kind='stream', n=cnt, limit=rng.choice([1, 2, MAXN]), fail_at=None, dispose_after=None, take=k))
    for i, c in enumerate(cases):
        c.setdefault('factory', False)
        c.setdefault('resp_future', False)
        c.setdefault('up_n', None)
        c.setdefault('h_limit', None)
        c['lenreq'] = rng.random() < 0.6
        c['seed'] = rng.randrange(1 << 30)
    return cases


def _fill(cases, seed0=7):
    for i, c in enumerate(cases):
        c.setdefault('factory', False)
        c.setdefault('resp_future', False)
        c.setdefault('up_n', None)
        c.setdefault('h_limit', None)
        c.setdefault('lenreq', i % 2 == 0)
        c.setdefault('seed', seed0 + i)
    return cases


def disposal_oracle():
    """(used by C09) the Rx clients: an observer that disposes at every moment from the subscribing turn to after the last
    element; the stream / channel must be cancelled exactly when it has not terminated, and never after"""
    cases = []
    for ver in ('rx4', 'rx3'):
        for n in (3, 6):
            for da in (-1, 0, 1, 2, n - 1, n):
                for limit in (1, 2, MAXN):
                    cases.append(dict(ver=ver, kind='stream', n=n, limit=limit, fail_at=None, dispose_after=da))
        for da in (-1, 0, 2):
            cases.append(dict(ver=ver, kind='channel', n=3, limit=2, fail_at=None, dispose_after=da, up_n=2, h_limit=2))
    out = []
    for c in _fill(cases):
        out.extend(oracle(run_case(c)))
    return out


def take_oracle():
    """(used by C08) the Rx stream requester behind take(k), k around the length of the stream and every credit window: what it
    writes after the responder's terminal frame has been received"""
    cases = []
    for ver in ('rx4', 'rx3'):
        for n in (1, 3, 4):
            for k in (1, n - 1, n, n + 1):
                if k < 1:
                    continue
                for limit in (1, 2, MAXN):
                    cases.append(dict(ver=ver, kind='stream', n=n, limit=limit, fail_at=None, dispose_after=None, take=k))
    out = []
    for c in _fill(cases, 301):
        out.extend(oracle(run_case(c)))
    return out


def credit_oracle():
    """(used by C06) credit through the Rx adapters: the limit an application configures on either side of a stream or channel
    is what is requested from the peer, first grant and every refill"""
    cases = []
    for ver in ('rx4', 'rx3'):
        for limit in (1, 2, 3, MAXN):
            cases.append(dict(ver=ver, kind='stream', n=7, limit=limit, fail_at=None, dispose_after=None))
        for up, hl in ((2, 2), (4, 2), (3, 3), (3, 2), (1, 1), (6, 1), (5, MAXN)):
            cases.append(dict(ver=ver, kind='channel-core', n=0, limit=1, fail_at=None, dispose_after=None, up_n=up, h_limit=hl))
            cases.append(dict(ver=ver, kind='channel', n=3, limit=2, fail_at=None, dispose_after=None, up_n=up, h_limit=hl))
    out = []
    for c in _fill(cases, 101):
        out.extend(oracle(run_case(c)))
    return out


def correspond(ctx, corr, model_ok):
    from harness import battery
    battery.run(corr, ['rx-disposal', 'rx-credit'])
    corr.oracle_failures.extend(adapter_session_oracle())
    corr.count('handler adapters per connection: own delegate, calls in arrival order; Rx requester vs core responder flagging COMPLETE', 10)
    cases = gen_cases(ctx, ctx.scale(150, 1500))
    coq = []
    for c in cases:
        res = run_case(c)
        corr.oracle_failures.extend(oracle(res))
        corr.count('%s %s' % (c['ver'], c['kind']))
        if c.get('dispose_after') is not None:
            corr.count('disposed mid-stream')
        if c.get('fail_at') is not None:
            corr.count('observable fails')
        corr.nontriv((c['ver'], c['kind'], c['n'], c['limit'], c['fail_at'], c['dispose_after'], c['up_n']))
        for t in coq_cases(res):
            coq.append((t, c))
    corr.traces = len(cases)
    corr.rule = ('both Rx versions x {stream, channel, response, fire-and-forget, metadata-push}; element counts 0..30, request '
                 'limits 1..2^31-1, error positions, disposal moments, plain observables and back-pressure factories, random link '
                 'chunking; one Coq case per adapter subscriber created')
    corr.samples = [x[0][:300] for x in coq[:3]]
    if not model_ok:
        return
    SH = 250
    shards = ['Definition cases : list case20 := [\n' + ';\n'.join(x[0] for x in coq[i:i + SH]) + '\n].'
              for i in range(0, len(coq), SH)]
    out = run_coq_cases(shards, HEADER, timeout=900)
    for si, (m, nf, idx) in enumerate(out):
        corr.evaluations += m
        for i in idx:
            corr.disagreements.append({'what': 'Rx adapter subscriber vs model/RxAdapter.v', 'rx_case': coq[si * SH + i][1],
                                       'coq_case': coq[si * SH + i][0][:600]})


def search(ctx, budget):
    import time
    t0 = time.time()
    found = []
    while time.time() - t0 < budget and not found:
        for c in gen_cases(ctx, 120):
            found.extend(oracle(run_case(c)))
    return found


def replay(obj):
    from harness import battery as _bat
    _r = _bat.replay(obj.get('case') if isinstance(obj.get('case'), dict) else obj)
    if _r is not None:
        return _r
    case = obj.get('case') or obj
    if 'adapter_session' in case:
        return bool(adapter_session_oracle())
    return bool(oracle(run_case(case['rx_case'])))


# ---------------------------------------------------------------------------------------------
# the handler adapters as a whole-connection matter: one delegate per connection, delegate calls in arrival order

def adapter_session_oracle():
    """(a) a wrapped handler factory used for several connections builds a NEW delegate for each, as the core API does;
    (b) a fire-and-forget followed at once by a request-response reaches the delegate in that order and is awaited;
    (c) an Rx stream requester against a CORE responder that flags COMPLETE on its last element writes nothing afterwards"""
    import asyncio
    from rsocket.payload import Payload
    from rsocket.request_handler import BaseRequestHandler
    from rsocket.streams.stream_from_generator import StreamFromGenerator
    out = []
    for ver in ('rx4', 'rx3'):
        L = libs(ver)
        R = L['R']
        made = []

        class D(L['Base']):
            def __init__(self):
                made.append(self)
                self.calls = []
                self.note = b''

            async def request_fire_and_forget(self, payload):
                await asyncio.sleep(0)                   # a handler that takes a moment
                self.note = bytes(payload.data)
                self.calls.append('fnf')

            async def request_response(self, payload):
                self.calls.append('rr')
                return R.of(Payload(b'remembered: ' + self.note))
        wrapped = L['hf'](lambda: D())
        a1, a2 = wrapped(), wrapped()
        d1, d2 = getattr(a1, 'delegate', None), getattr(a2, 'delegate', None)
        if len(made) != 2 or d1 is d2 or d1 is None:
            out.append({'what': '%s: a wrapped handler factory called for two connections built %d delegate(s); the two adapters share '
                                'their delegate: %s' % (ver, len(made), d1 is d2), 'adapter_session': ver})
        # (b)
        net = NET.Net(True, None, None, handler_factories={'server': wrapped})
        try:
            box = {}

            def both():
                net.ep['client'].fire_and_forget(Payload(b'remember me'))
                box['f'] = net.ep['client'].request_response(Payload(b'what did I say'))
            net.act(both)
            net.flush(random.Random(1))
            for _ in range(10):
                net.loop.tick()
            net.flush(random.Random(2))
            d = made[-1]
            ans = bytes(box['f'].result().data) if box['f'].done() and not box['f'].exception() else None
            if d.calls != ['fnf', 'rr'] or ans != b'remembered: remember me':
                out.append({'what': '%s: fire-and-forget then request-response through the handler adapter: delegate calls %s, answer %r '
                                    '(the core API handles them in arrival order, each awaited)' % (ver, d.calls, ans),
                            'adapter_session': ver})
        finally:
            net.finish()
        # (c)
        class Core(BaseRequestHandler):
            async def request_stream(self, payload):
                def g():
                    yield Payload(b'v0'), False
                    yield Payload(b'v1'), False
                    yield Payload(b'v2'), True
                return StreamFromGenerator(g)
        for limit in (1, 2, MAXN):
            net = NET.Net(False, None, None, handler_factories={'server': Core})
            try:
                client = L['Client'](net.ep['client'])
                timeline = []
                net.dispatched['client'].on_append = lambda d_: timeline.append(('recv', d_))
                net.tc.wire = NET.LogList(net.tc.wire)
                net.tc.wire.on_append = lambda b: timeline.append(('sent', sim.parse_sent(b)))
                obs = Obs()
                o = client.request_stream(Payload(b'req'), request_limit=limit)
                net.act(lambda: o.subscribe(on_next=obs.on_next, on_error=obs.on_error, on_completed=obs.on_completed))
                rng = random.Random(limit)
                for _ in range(200):
                    net.flush(rng)
                    for _ in range(3):
                        net.loop.tick()
                    if not any(net.t[s].pending() for s in ('client', 'server')):
                        break
                ended = False
                late = None
                for what, f in timeline:
                    if f.get('sid') != 1:
                        continue
                    if what == 'recv' and f['t'] == 'Payload' and f.get('complete'):
                        ended = True
                    elif what == 'sent' and ended:
                        late = f
                        break
                evs = [e[0] for e in obs.events]
                if late is not None or evs != ['next', 'next', 'next', 'completed']:
                    out.append({'what': '%s stream requester (limit %s) against a core responder that flags COMPLETE on its last element: observer '
                                        'saw %s; written after the terminal frame had been received: %r' % (ver, limit, evs, late),
                                'adapter_session': ver})
            finally:
                net.finish()
    return out
