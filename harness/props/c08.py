"""C08 — frames emitted are legal RSocket for the emitter's role.
Correspondence: legal random histories on a real endpoint in both roles (all interaction models, local cancellation racing
incoming responses / completion / errors, fragmented and whole frames, connection loss); the frames the endpoint queues
(send_frame) are compared with the model's replay section by section.  Oracle (the property): every emitted frame is
fed to a per-stream protocol acceptor that has seen the endpoint's own prior receptions: own parity and a request frame
first, only the types of its role, positive initial request-n, no PAYLOAD after completing its own direction, nothing
after ERROR / a requester's CANCEL / both directions complete, connection-level frames on stream 0 only; a client's first
frame is SETUP, once (requests issued while the transport is still connecting included); with a lease: what is sent
for a stream whose request is still held back."""
import asyncio
import random
from datetime import timedelta

from harness import epcheck as E, endpoint as EP, sim, frames as FR

MODEL_TARGETS = E.MODEL_TARGETS
ASSUMPTIONS = [
    'frames are observed where the endpoint queues them (send_frame), interleaved with its receptions; queue order is '
    'wire order per stream by C05, SETUP-first at the transport is observed on the wire',
    'peer and local application are protocol-legal (no publisher signal after its terminal signal, no request(n) after '
    'cancel); hostile peers are C12',
]
KEEP, KEYS = 'keep_wire', False
ABNORMAL = {'error-in', 'error-out', 'cancel-out', 'cancel-in'}


def oracle(sc):
    if not sc.legal:
        return []
    out = []
    specs, viol, steps = E.walk(sc)
    for (i, sid, why, sp) in viol:
        out.append(E.failure('illegal-frame', sc, step=i, sid=sid, why=why, kind=sp.kind if sp else None,
                             iam=sp.iam if sp else None, ended_by=sp.why if sp else None))
    return out


def wire_oracle(sc):
    """the frames as written to the transport (after fragmentation): per stream, fragments of one frame are contiguous,
    only the last fragment may carry COMPLETE, and no PAYLOAD follows the endpoint's own completion / ERROR"""
    if not sc.legal:
        return []
    out = []
    done = {}       # sid -> why the endpoint's own sending direction is over
    open_train = {}
    for n, b in enumerate(sc.rec.t.sent):
        fr = sim.parse_sent(b)
        sid, t = fr.get('sid'), fr.get('t')
        if not sid:
            continue
        if t == 'Payload' and sid in done:
            out.append(E.failure('wire:payload-after-own-completion', sc, sid=sid, n=n, after=done[sid]))
        if t in ('Payload', 'RequestChannel') and fr.get('complete'):
            if fr.get('follows'):
                out.append(E.failure('wire:complete-flag-on-non-final-fragment', sc, sid=sid, n=n))
            done[sid] = 'complete'
        if t in E.REQ and sid in done:
            del done[sid]           # the id is being reused for a new stream
            if fr.get('complete') and not fr.get('follows'):
                done[sid] = 'complete'
        if open_train.get(sid) and t != 'Payload':
            out.append(E.failure('wire:fragment-train-interrupted', sc, sid=sid, n=n, by=t))
        open_train[sid] = bool(fr.get('follows')) if t in ('Payload',) + tuple(E.REQ) else False
    return out


def classify(case):
    if case.get('what') == 'illegal-frame' and case.get('kind') == 'rc' and case.get('ended_by') in ABNORMAL and \
            'after the stream terminated' in case.get('why', ''):
        return 'KF-C08-channel-after-terminal'
    if case.get('what') == 'lease-overtake':
        return 'KF-C08-lease-overtake'
    return None


def _descs(ctx, n):
    return E.mk_descs(ctx.rng, n, hostile=0.0, with_close=lambda r: r.random() < 0.3, steps=(4, 20), frag=0.2, race=0.5,
                      out_frag=lambda r: r.random() < 0.4)


# ---- SETUP first, once: requests issued at every tick of a connect() whose provider / transport suspend
def setup_cases(ctx, n):
    rng = ctx.rng
    out = []
    for _ in range(n):
        script = {}
        for tick in range(rng.randint(0, 8)):
            if rng.random() < 0.6:
                script[tick] = [rng.choice(['fnf', 'push', 'rr']) for _ in range(rng.randint(1, 2))]
        out.append((script, rng.randint(0, 3), rng.randint(0, 3), rng.random() < 0.5))
    return out


def setup_oracle(case):
    from harness.props import c16
    script, ps, cs, lenreq = case
    labels, wire = c16.run_order({int(k): v for k, v in script.items()}, ps, cs, lenreq)
    out = []
    tags = [w if isinstance(w, str) else 'other' for w in wire]
    if wire and tags[0] != 'setup':
        out.append({'what': 'first-frame-not-SETUP', 'setup_case': [script, ps, cs, lenreq], 'wire': repr(wire[:4])})
    if tags.count('setup') > 1:
        out.append({'what': 'SETUP-sent-twice', 'setup_case': [script, ps, cs, lenreq], 'wire': repr(wire[:6])})
    return out


# ---- lease: what is sent for a stream whose request frame is still held back
def run_lease(action, lenreq=False):
    """client honouring leases, no lease granted yet: request_stream().subscribe(), then `action` on the subscription,
    then the LEASE arrives.  Returns the wire (descriptors) for the stream."""
    from rsocket.rsocket_client import RSocketClient
    from rsocket.helpers import single_transport_provider
    from rsocket.payload import Payload
    from harness.props import c06
    loop = sim.new_loop()
    sim.patch_clock(loop)
    T = sim.make_transport_class()
    t = T(lenreq=lenreq)
    box = {}
    try:
        def mk():
            box['c'] = RSocketClient(single_transport_provider(t), honor_lease=True,
                                     keep_alive_period=timedelta(seconds=1000), max_lifetime_period=timedelta(seconds=5000))
            asyncio.create_task(box['c'].connect())
        loop.run(mk)
        loop.settle()
        c = box['c']
        sub = c06.Rec()

        def req():
            c.request_stream(Payload(b'q')).initial_request_n(1).subscribe(sub)
        loop.run(req)
        loop.settle()
        if action == 'request':
            loop.run(lambda: sub.subscription.request(5))
        elif action == 'cancel':
            loop.run(lambda: sub.subscription.cancel())
        loop.settle()
        t.inject_frame(FR.build({'t': 'Lease', 'sid': 0, 'ign': False, 'ttl': 60000, 'n': 10, 'md': b''}).serialize())
        loop.settle()
        wire = [sim.parse_sent(b) for b in t.sent]
        return [w for w in wire if w.get('sid') == 1]
    finally:
        loop.finish()


def lease_oracle(action):
    wire = run_lease(action)
    types = [w['t'] for w in wire]
    if types and types[0] != 'RequestStream':
        return [{'what': 'lease-overtake', 'lease_case': action, 'wire': types}]
    if action == 'cancel' and 'RequestStream' in types and types.index('RequestStream') > types.index('Cancel'):
        return [{'what': 'lease-overtake', 'lease_case': action, 'wire': types}]
    return []


def known_lease_overtake():
    return bool(lease_oracle('request')) or bool(lease_oracle('cancel'))


def known_channel_after_terminal():
    """requester channel: cancel(), then the local publisher emits an element: PAYLOAD is queued after CANCEL"""
    from harness.ep_scenarios import Scenario
    from rsocket.payload import Payload
    sc = Scenario(random.Random(7), role='client', lenreq=False, with_close=False, steps=0)
    sc.desc = {'fixed': 'channel: PAYLOAD after own CANCEL'}
    try:
        sc.do_channel(hp=True, hs=True)
        m = sc.mine[0]
        sc.rec.label('cancel', 0)
        sc.rec.act(lambda: m['obj'].cancel())
        sc.rec.settle()
        n0 = len(sc.rec.log)
        s = m['pub'].subscriber
        sc.rec.label('pubnext', 0, b'', b'late', False)
        sc.rec.act(lambda: s.on_next(Payload(b'late'), False))
        sc.rec.settle()
        return any(x[0] == 'eff' and x[1] == 'enq' and x[2]['t'] == 'Payload' for x in sc.rec.log[n0:])
    finally:
        sc.rec.finish()


KNOWN = {'KF-C08-channel-after-terminal': known_channel_after_terminal, 'KF-C08-lease-overtake': known_lease_overtake}


def correspond(ctx, corr, model_ok):
    from harness import battery
    battery.run(corr, ['reconnect-setup'])
    n = ctx.scale(240, 2500)
    runs, crashed = E.run_all(_descs(ctx, n))
    corr.oracle_failures.extend(crashed)
    for sc in runs:
        corr.oracle_failures.extend(oracle(sc))
        corr.oracle_failures.extend(wire_oracle(sc))
        corr.count('raced', sc.raced)
        corr.count('endpoint fragments its output', 1 if sc.out_frag else 0)
        for s in EP.steps_of_log(sc.rec.log):
            for e in s[2]:
                if e[0] == 'enq':
                    corr.count('emitted ' + e[1]['t'])
    for case in setup_cases(ctx, ctx.scale(60, 600)):
        corr.oracle_failures.extend(setup_oracle(case))
        corr.evaluations += 1
        corr.count('connect with requests while connecting')
    for action in ('request', 'cancel', 'none'):
        corr.oracle_failures.extend(lease_oracle(action))
        corr.evaluations += 1
        corr.count('lease scenario')
    corr.oracle_failures.extend(gated_oracle())
    corr.count('blocked writer: control frame queued behind a partly written fragmented frame', 24)
    corr.oracle_failures.extend(collector_oracle())
    corr.count('AwaitableRSocket collector at a credit-window boundary', 48)
    corr.oracle_failures.extend(reconnect_wire_oracle())
    corr.count('reconnecting client with local producers in flight: wire of the new connection', 18)
    corr.oracle_failures.extend(failing_source_oracle())
    corr.count('responder whose library source fails mid-stream, with and without a delay between messages', 36)
    corr.oracle_failures.extend(routed_fnf_oracle())
    corr.count('fire-and-forget through the routing handler (no route / unknown route / unparsable metadata / raising handler)', 12)
    from harness.props import c20
    corr.oracle_failures.extend(c20.take_oracle())
    corr.count('Rx stream requester behind take(k): frames written after the terminal frame was received', 66)
    if model_ok:
        E.trace_corr(corr, runs, KEEP, KEYS, 'C08 emitted frames vs model/Endpoint.v')
    corr.rule = ('legal random histories of 4..20 actions (half of the local cancels race an incoming frame); every queued '
                 'frame compared with the model and judged by the per-stream acceptor; client connects with requests issued '
                 'while connecting; lease scenarios')
    corr.samples = [repr(EP.steps_of_log(sc.rec.log)[:3])[:400] for sc in runs[:3]]


def search(ctx, budget):
    import time
    t0 = time.time()
    found = []
    while time.time() - t0 < budget and not found:
        runs, crashed = E.run_all(_descs(ctx, 60))
        found.extend(crashed)
        for sc in runs:
            found.extend(oracle(sc))
            found.extend(wire_oracle(sc))
        for case in setup_cases(ctx, 40):
            found.extend(setup_oracle(case))
        found.extend(gated_oracle())
        found.extend(collector_oracle())
        found.extend(reconnect_wire_oracle())
        found.extend(failing_source_oracle())
        from harness.props import c20
        found.extend(c20.take_oracle())
    return found


def replay(obj):
    from harness import battery as _bat
    _r = _bat.replay(obj.get('case') if isinstance(obj.get('case'), dict) else obj)
    if _r is not None:
        return _r
    case = obj.get('case') or obj
    if 'setup_case' in case:
        return bool(setup_oracle(tuple(case['setup_case'])))
    if 'lease_case' in case:
        return bool(lease_oracle(case['lease_case']))
    if 'gated_case' in case:
        return bool(gated_oracle())
    if 'collector_case' in case:
        return bool(collector_oracle())
    if 'reconnect_wire_case' in case:
        return bool(reconnect_wire_oracle())
    if 'failing_source_case' in case:
        return bool(failing_source_oracle())
    if 'routed_fnf_case' in case:
        return bool(routed_fnf_oracle())
    if 'rx_case' in case:
        from harness.props import c20
        return bool(c20.oracle(c20.run_case(case['rx_case'])))
    runs, crashed = E.run_all([case['scenario']])
    return bool(crashed) or any(oracle(sc) or wire_oracle(sc) for sc in runs)


# ---------------------------------------------------------------------------------------------
# a blocked writer: control frames queued while a fragmented frame of the same stream is partly written

def train_oracle(wire, what, case):
    """wire: [(type, sid, follows)] as written.  Per stream: a fragment train is not interrupted, nothing follows a
    CANCEL / ERROR the endpoint wrote."""
    out = []
    open_train, ended = {}, {}
    for n, (t, sid, follows) in enumerate(wire):
        if not sid:
            continue
        if sid in ended:
            out.append({'what': what + ':frame-after-own-%s' % ended[sid], 'gated_case': case, 'n': n, 'frame': t, 'wire': repr(wire)[:300]})
            break
        if open_train.get(sid) and t != 'Payload':
            out.append({'what': what + ':fragment-train-interrupted-by-%s' % t, 'gated_case': case, 'n': n, 'wire': repr(wire)[:300]})
            break
        open_train[sid] = follows if t in ('Payload', 'RequestResponse', 'RequestStream', 'RequestChannel', 'RequestFnf') else False
        if t in ('Cancel', 'Error'):
            ended[sid] = t
    return out


def run_gated_responder_error(permits, lenreq, seed):
    """server with fragment size 64 and a blocked writer: its publisher emits one 230-byte element and then fails"""
    import random as _r
    from harness import net as NET
    from rsocket.payload import Payload
    from harness.props import c10
    rng = _r.Random(seed)
    net = NET.Net(lenreq, 64, 64)
    try:
        sub = NET.RecSub(None, None)
        net.act(lambda: net.ep['client'].request_stream(Payload(b'req')).subscribe(sub))
        net.flush(rng)
        pub = net.apps['server'].pubs.get(b'req')
        t = net.t['server']
        t.gated = True
        net.act(lambda: pub.subscriber.on_next(Payload(b'E' * 230), False))
        for _ in range(permits):
            t.permit(1)
            net.loop.settle()
        net.act(lambda: pub.subscriber.on_error(RuntimeError('producer failed')))
        t.gated = False
        for _ in range(40):
            t.permit(1)
            net.loop.settle()
            net.flush(rng)
        return [c10.FR_t(b) for b in t.wire]
    finally:
        net.finish()


def gated_oracle():
    from harness.props import c10
    out = []
    n = 0
    for kind in ('rs', 'rr'):
        for requester in ('client', 'server'):
            for permits in (0, 1, 2, 4):
                n += 1
                case = [kind, requester, permits, n % 2 == 0, n]
                r = c10.run_partial_request_cancel(*case)
                out.extend(train_oracle(r['wire'], 'requester-cancel', case))
    for permits in (0, 1, 2, 4):
        for lenreq in (True, False):
            n += 1
            out.extend(train_oracle(run_gated_responder_error(permits, lenreq, n), 'responder-error', ['err', permits, lenreq, n]))
    return out


# ---- the library's own collecting subscriber (AwaitableRSocket): credit renewal at the end of a stream
def run_collector(kind, n_elems, limit_rate, flag_last, lenreq, seed):
    import random as _r
    import asyncio as _a
    from harness import net as NET, frames as FR2
    from rsocket.payload import Payload
    from rsocket.awaitable.awaitable_rsocket import AwaitableRSocket
    rng = _r.Random(seed)
    net = NET.Net(lenreq, None, None)
    try:
        ep = net.ep['client']
        events = []
        orig_send = ep.send_frame

        def send_frame(frame):
            events.append(('out', FR2.describe(frame)))
            return orig_send(frame)
        ep.send_frame = send_frame
        net.dispatched['client'].on_append = lambda fr: events.append(('in', fr))
        box = {}

        def start():
            a = AwaitableRSocket(ep)
            if kind == 'rs':
                box['t'] = _a.ensure_future(a.request_stream(Payload(b'req'), limit_rate=limit_rate))
            else:
                box['t'] = _a.ensure_future(a.request_channel(Payload(b'req'), limit_rate=limit_rate))
        net.act(start)
        sent = 0
        for _ in range(400):
            net.flush(rng)
            pub = net.apps['server'].pubs.get(b'req')
            if pub is not None and pub.subscriber is not None and sent < n_elems:
                last = sent == n_elems - 1
                i = sent
                net.act(lambda: pub.subscriber.on_next(Payload(b'e%d' % i), last and flag_last))
                sent += 1
                if last and not flag_last:
                    net.act(lambda: pub.subscriber.on_complete())
                continue
            if sent >= n_elems and not any(net.t[s].pending() for s in ('client', 'server')):
                break
        net.flush(rng)
        return {'events': events, 'done': box['t'].done()}
    finally:
        net.finish()


def collector_oracle():
    out = []
    n = 0
    for kind in ('rs', 'rc'):
        for limit in (1, 2, 3):
            for mult in (1, 2):
                for flag_last in (True, False):
                    for extra in (0, 1):
                        n += 1
                        case = [kind, limit * mult + extra, limit, flag_last, n % 2 == 0, n]
                        r = run_collector(*case)
                        peer_done = False
                        for d, fr in r['events']:
                            if fr.get('sid') != 1:
                                continue
                            if d == 'in' and fr['t'] == 'Payload' and fr.get('complete'):
                                peer_done = True
                            elif d == 'out' and peer_done and kind == 'rs':
                                out.append({'what': 'emits-%s-after-the-stream-completed' % fr['t'], 'collector_case': case})
                                break
                            elif d == 'out' and peer_done and kind == 'rc' and fr['t'] == 'RequestN':
                                out.append({'what': 'requests-more-after-the-peer-completed', 'collector_case': case})
                                break
    return out


# ---------------------------------------------------------------------------------------------
# a reconnecting client: what it writes on the NEW connection must be legal for that connection — SETUP first, and on every
# stream a request frame before anything else; producers that belonged to interactions of the old connection must be silent

def run_reconnect_wire(kind, source, cause, lenreq):
    """client with interactions in flight whose LOCAL side keeps producing (a channel requester's publisher fed by a library
    source with plenty of credit; as responder, a stream publisher with credit); the connection is lost; on_close reconnects."""
    import asyncio
    from datetime import timedelta
    from harness import sim, frames as FR
    from rsocket.rsocket_client import RSocketClient
    from rsocket.request_handler import BaseRequestHandler
    from rsocket.payload import Payload
    from reactivestreams.subscriber import DefaultSubscriber
    loop = sim.new_loop()
    sim.patch_clock(loop)
    T = sim.make_transport_class()
    ts = [T(lenreq=lenreq, name='a'), T(lenreq=lenreq, name='b')]

    async def provider():
        for x in ts:
            yield x

    def make_source():
        if source == 'gen':
            from rsocket.streams.stream_from_generator import StreamFromGenerator

            def g():
                for i in range(100000):
                    yield Payload(b'e%d' % i), False
            return StreamFromGenerator(g)
        from rsocket.streams.stream_from_async_generator import StreamFromAsyncGenerator

        async def g():
            for i in range(100000):
                yield Payload(b'e%d' % i), False
                await asyncio.sleep(0.01)
        return StreamFromAsyncGenerator(g)

    class H(BaseRequestHandler):
        async def request_stream(self, payload):
            return make_source()

        async def request_channel(self, payload):
            return make_source(), DefaultSubscriber()

        async def on_close(self, rsocket, exception=None):
            await rsocket.reconnect()
    box = {}
    try:
        def mk():
            box['c'] = RSocketClient(provider(), handler_factory=H, keep_alive_period=timedelta(seconds=1000),
                                     max_lifetime_period=timedelta(seconds=5000))
            asyncio.create_task(box['c'].connect())
        loop.run(mk)
        loop.settle()
        c = box['c']
        if kind == 'channel-requester':
            loop.run(lambda: c.request_channel(Payload(b'req'), make_source()).subscribe(DefaultSubscriber()))
            for _ in range(5):
                loop.tick()
            ts[0].inject_frame(FR.build({'t': 'RequestN', 'sid': 1, 'ign': False, 'n': 0x7FFFFFFF}).serialize())
        elif kind == 'stream-responder':
            ts[0].inject_frame(FR.build({'t': 'RequestStream', 'sid': 2, 'ign': False, 'follows': False, 'n': 0x7FFFFFFF,
                                         'md': b'', 'd': b'x'}).serialize())
        else:
            ts[0].inject_frame(FR.build({'t': 'RequestChannel', 'sid': 2, 'ign': False, 'follows': False, 'complete': False,
                                         'n': 0x7FFFFFFF, 'md': b'', 'd': b'x'}).serialize())
        def spin(k):
            # a producer with unbounded credit never lets the loop settle: a fixed number of iterations, time moving on
            for _ in range(k):
                loop.tick()
                loop.advance(0.004)
        spin(40)
        produced_before = len(ts[0].sent)
        if cause == 'eof':
            ts[0].inject_eof()
        elif cause == 'error':
            ts[0].inject_error()
        else:
            loop.run(lambda: asyncio.create_task(c.reconnect()))
        spin(120)
        new = [sim.parse_sent(b) for b in ts[1].sent]
        return {'new': new, 'produced_before': produced_before, 'reconnected': ts[1].connected}
    finally:
        loop.finish()


REQUEST_FRAMES = ('RequestResponse', 'RequestFnf', 'RequestStream', 'RequestChannel')


def connection_wire_problems(frames):
    """frames written by a client on one connection, judged on their own (nothing was received on it)"""
    out = []
    if not frames or frames[0]['t'] != 'Setup':
        out.append('first frame is %s, not SETUP' % (frames[0]['t'] if frames else 'nothing'))
    opened = set()
    for f in frames[1:]:
        if f['t'] == 'Setup':
            out.append('second SETUP')
        if f['sid'] == 0:
            continue
        if f['t'] in REQUEST_FRAMES:
            opened.add(f['sid'])
        elif f['sid'] not in opened:
            out.append('%s on stream %d, which was never opened on this connection' % (f['t'], f['sid']))
    return out


def reconnect_wire_oracle():
    out = []
    for kind in ('channel-requester', 'stream-responder', 'channel-responder'):
        for source in ('gen', 'agen'):
            for cause in ('eof', 'error', 'explicit'):
                r = run_reconnect_wire(kind, source, cause, True)
                bad = connection_wire_problems(r['new']) if r['reconnected'] else ['did not reconnect']
                if r['produced_before'] < 3:
                    bad.append('scenario did not produce before the loss (%d frames)' % r['produced_before'])
                if bad:
                    out.append({'what': 'illegal frames on the connection after a reconnect: ' + '; '.join(bad[:3]),
                                'reconnect_wire_case': [kind, source, cause], 'first_frames': repr(r['new'][:4])[:300]})
    return out


# ---------------------------------------------------------------------------------------------
# a responder whose library source fails after some elements, with and without a delay between messages (the producer then runs
# ahead of the feeder): once ERROR is on the wire nothing more is written on that stream

def run_failing_source(source, channel, delay_ms, fail_after, lenreq):
    import asyncio
    from datetime import timedelta
    from harness import sim, frames as FR
    from rsocket.rsocket_server import RSocketServer
    from rsocket.request_handler import BaseRequestHandler
    from rsocket.payload import Payload
    from rsocket.streams.stream_from_generator import StreamFromGenerator
    from rsocket.streams.stream_from_async_generator import StreamFromAsyncGenerator
    from reactivestreams.subscriber import DefaultSubscriber
    loop = sim.new_loop()
    sim.patch_clock(loop)
    T = sim.make_transport_class()
    t = T(lenreq=lenreq)
    delay = timedelta(milliseconds=delay_ms)

    def make():
        if source == 'gen':
            def g():
                for i in range(fail_after):
                    yield Payload(b'e%d' % i), False
                raise RuntimeError('source failed')
            return StreamFromGenerator(g, delay_between_messages=delay)

        async def ag():
            for i in range(fail_after):
                yield Payload(b'e%d' % i), False
            raise RuntimeError('source failed')
        return StreamFromAsyncGenerator(ag, delay_between_messages=delay)

    class H(BaseRequestHandler):
        async def request_stream(self, payload):
            return make()

        async def request_channel(self, payload):
            return make(), DefaultSubscriber()
    box = {}
    try:
        loop.run(lambda: box.setdefault('s', RSocketServer(t, handler_factory=H)))
        loop.settle()
        fr = {'t': 'RequestChannel' if channel else 'RequestStream', 'sid': 1, 'ign': False, 'follows': False, 'n': 0x7FFFFFFF,
              'md': b'', 'd': b'x'}
        if channel:
            fr['complete'] = False
        t.inject_frame(FR.build(fr).serialize())
        loop.settle()
        loop.run_until(loop.time() + 2.0)
        loop.settle()
        return [sim.parse_sent(b) for b in t.sent]
    finally:
        loop.finish()


def failing_source_oracle():
    out = []
    for source in ('gen', 'agen'):
        for channel in (False, True):
            for delay_ms in (0, 5, 50):
                for fail_after in (0, 1, 3):
                    wire = [f for f in run_failing_source(source, channel, delay_ms, fail_after, True) if f.get('sid') == 1]
                    bad = None
                    errs = [i for i, f in enumerate(wire) if f['t'] == 'Error']
                    if len(errs) != 1:
                        bad = '%d ERROR frames for a source that failed once' % len(errs)
                    elif wire[errs[0] + 1:]:
                        bad = 'frames after its own ERROR: %s' % [(f['t'], bytes(f.get('d') or b'')) for f in wire[errs[0] + 1:]][:4]
                    else:
                        # (elements the source had yielded but the feeder had not yet written are dropped by the library when
                        # the source fails: what IS written must be the yielded elements in order, none twice)
                        before = [bytes(f.get('d') or b'') for f in wire[:errs[0]] if f['t'] == 'Payload']
                        if before != [b'e%d' % i for i in range(len(before))] or len(before) > fail_after:
                            bad = 'elements before the ERROR: %s' % before
                    if bad:
                        out.append({'what': 'responder with a failing %s source (%s, %d ms between messages, fails after %d): %s' %
                                            (source, 'channel' if channel else 'stream', delay_ms, fail_after, bad),
                                    'failing_source_case': [source, channel, delay_ms, fail_after]})
    return out


# ---------------------------------------------------------------------------------------------
# the responder of a fire-and-forget is allowed no frame at all, through the routing handler too: whatever is wrong with the
# request (no route, unknown route, unparsable metadata, a handler that raises), nothing is written on its stream

def run_routed_fnf(metadata_kind, lenreq):
    from harness import sim, frames as FR
    from rsocket.rsocket_server import RSocketServer
    from rsocket.routing.request_router import RequestRouter
    from rsocket.routing.routing_request_handler import RoutingRequestHandler
    from rsocket.extensions.helpers import composite, route, data_mime_type
    loop = sim.new_loop()
    sim.patch_clock(loop)
    T = sim.make_transport_class()
    t = T(lenreq=lenreq)
    router = RequestRouter()
    seen = []

    @router.fire_and_forget('known')
    async def known(payload):
        seen.append('known')

    @router.fire_and_forget('raises')
    async def raises(payload):
        seen.append('raises')
        raise RuntimeError('handler failed')

    @router.response('ping')
    async def ping(payload):
        from rsocket.helpers import create_future
        from rsocket.payload import Payload
        return create_future(Payload(b'pong'))
    md = {'known': lambda: composite(route('known')), 'unknown': lambda: composite(route('nowhere')),
          'raises': lambda: composite(route('raises')), 'no-route': lambda: composite(data_mime_type(b'text/plain')),
          'empty': lambda: b'', 'garbage': lambda: b'\xff\x00\x00\x7f\x01'}[metadata_kind]()
    box = {}
    try:
        loop.run(lambda: box.setdefault('s', RSocketServer(t, handler_factory=lambda: RoutingRequestHandler(router))))
        loop.settle()
        t.inject_frame(FR.build({'t': 'RequestFnf', 'sid': 5, 'ign': False, 'follows': False, 'md': bytes(md), 'd': b'x'}).serialize())
        loop.settle()
        # the connection still serves: a routed request-response behind it
        t.inject_frame(FR.build({'t': 'RequestResponse', 'sid': 7, 'ign': False, 'follows': False,
                                 'md': bytes(composite(route('ping'))), 'd': b''}).serialize())
        loop.settle()
        loop.run_until(loop.time() + 0.5)
        loop.settle()
        return [sim.parse_sent(b) for b in t.sent], seen
    finally:
        loop.finish()


def routed_fnf_oracle():
    out = []
    for kind in ('known', 'unknown', 'raises', 'no-route', 'empty', 'garbage'):
        for lenreq in (False, True):
            wire, seen = run_routed_fnf(kind, lenreq)
            on5 = [f for f in wire if f.get('sid') == 5]
            on7 = [f for f in wire if f.get('sid') == 7]
            bad = None
            if on5:
                bad = 'the responder wrote %s on the stream of a fire-and-forget' % [f['t'] for f in on5]
            elif kind in ('known', 'raises') and seen != [kind]:
                bad = 'the handler registered for the route did not run exactly once: %s' % seen
            elif [(f['t'], bytes(f.get('d') or b'')) for f in on7] != [('Payload', b'pong')]:
                bad = 'the request-response behind it was answered with %s' % [(f['t'], bytes(f.get('d') or b'')) for f in on7]
            if bad:
                out.append({'what': 'routed fire-and-forget (%s metadata): %s' % (kind, bad), 'routed_fnf_case': [kind, lenreq]})
    return out
