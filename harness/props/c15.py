"""C15 — keepalive: echo, periodic emission, timeout detection.
Correspondence: real RSocketServer/RSocketClient on the single-step virtual-time loop with a harness transport:
(a) KEEPALIVE frames injected into endpoints -> frames they queue (echo); (b) a client with period P and lifetime L whose
server acknowledges according to a pattern -> instants of the probes and of on_keepalive_timeout, compared with model/Keepalive.v."""
from harness import internals
import asyncio
import time
from datetime import timedelta

from harness import frames as FR, sim
from harness.common import chunks, run_coq_cases, clist, cZ

MODEL_TARGETS = ['model/Keepalive.vo', 'corr/C15Corr.vo', 'corr/Harness.vo']
ASSUMPTIONS = [
    'virtual clock: asyncio.sleep(d) returns exactly d later (timer lateness 0 in the correspondence; the theorems carry an '
    'explicit lateness bound delta)',
    'arrivals never coincide with a check instant in the generated patterns (the order of a simultaneous arrival and check is '
    "asyncio's choice)",
    'after the first timeout the server stays silent in the generated patterns (a frame arriving then ends the receiver loop)',
]
HEADER = ('From Coq Require Import ZArith NArith List Init.Byte.\nFrom RSV Require Import lib.Bytes model.Frame model.Keepalive '
          'corr.C15Corr corr.Harness.\nImport ListNotations.\nOpen Scope N_scope.\nDefinition chk := chk15.\n')
SHARD = 200
US = 1000000


def us(t):
    return round(t * US)


def run_echo(fr, role, lenreq):
    """inject one frame into a real endpoint; return the frames it sends in reaction"""
    from rsocket.rsocket_server import RSocketServer
    from rsocket.rsocket_client import RSocketClient
    from rsocket.helpers import single_transport_provider
    loop = sim.new_loop()
    sim.patch_clock(loop)
    T = sim.make_transport_class()
    t = T(lenreq=lenreq)
    try:
        if role == 'server':
            loop.run(lambda: RSocketServer(t))
        else:
            box = {}

            def mk():
                box['c'] = RSocketClient(single_transport_provider(t), keep_alive_period=timedelta(seconds=1000),
                                         max_lifetime_period=timedelta(seconds=5000))
                asyncio.create_task(box['c'].connect())
            loop.run(mk)
        loop.settle()
        before = len(t.sent)
        t.inject_frame(FR.build(fr).serialize())
        loop.settle()
        out = [sim.parse_sent(b) for b in t.sent[before:]]
        return out
    finally:
        loop.finish()


class _Handler:
    pass


def run_timing(P_us, L_us, pattern, horizon_us):
    """pattern(k, t_send_us) -> delay in us after which the server answers probe k, or None for no answer."""
    from rsocket.rsocket_client import RSocketClient
    from rsocket.request_handler import BaseRequestHandler
    from rsocket.helpers import single_transport_provider
    from rsocket.frame import KeepAliveFrame
    loop = sim.new_loop()
    sim.patch_clock(loop)
    T = sim.make_transport_class()
    t = T(lenreq=False)
    touts = []

    class H(BaseRequestHandler):
        async def on_keepalive_timeout(self, since, rsocket):
            touts.append(us(loop.time()))

    box = {}
    try:
        def mk():
            box['c'] = RSocketClient(single_transport_provider(t), handler_factory=H,
                                     keep_alive_period=timedelta(microseconds=P_us),
                                     max_lifetime_period=timedelta(microseconds=L_us))
            asyncio.create_task(box['c'].connect())
        t0 = us(loop.time())
        loop.run(mk)
        loop.settle()
        sent_at = []
        arrivals = []
        pending = []     # (due_us, data)
        seen = 0
        end = t0 + horizon_us

        def scan():
            nonlocal seen
            while seen < len(t.sent):
                d = sim.parse_sent(t.sent[seen])
                seen += 1
                if d['t'] == 'Keepalive' and d['respond']:
                    now = us(loop.time())
                    sent_at.append(now)
                    if not touts:
                        delay = pattern(len(sent_at), now)
                        if delay is not None:
                            pending.append(now + delay)
        scan()
        checks = 0
        while True:
            nt = loop.next_timer()
            cand = [x for x in [us(nt) if nt is not None else None, min(pending) if pending else None] if x is not None]
            if not cand or min(cand) > end:
                break
            nxt = min(cand)
            if pending and min(pending) == nxt and not touts:
                pending.remove(nxt)
                # avoid an arrival at the very instant of a check
                loop._vt = nxt / US
                ka = KeepAliveFrame()
                ka.flags_respond = False
                t.inject_frame(ka.serialize())
                arrivals.append(nxt)
                loop.settle()
            else:
                if pending and min(pending) == nxt:
                    pending.remove(nxt)
                    continue
                loop._vt = max(loop._vt, nt)
                loop.settle()
            scan()
        n_checks = (end - t0) // L_us
        alive = box['c'].is_server_alive()
        return {'t0': t0, 'sent_at': sent_at, 'arrivals': arrivals, 'timeouts': touts, 'n_checks': n_checks, 'alive': alive}
    finally:
        loop.finish()


def oracle_timing(P, L, r, horizon):
    """C15's clauses on the observed instants."""
    t0 = r['t0']
    # periodic emission until the first timeout
    stop = r['timeouts'][0] if r['timeouts'] else t0 + horizon
    exp = [t0 + k * P for k in range(1, horizon // P + 2) if t0 + k * P <= min(stop, t0 + horizon)]
    got = [x for x in r['sent_at'] if x <= stop]
    if got != exp[:len(got)] or len(got) < len([e for e in exp if e < stop]):
        return 'keepalive probes not sent every period: %s... expected %s...' % (got[:5], exp[:5])
    # no false timeout / detection
    last = t0
    arr = sorted(r['arrivals'])
    for c in range(t0 + L, t0 + horizon + 1, L):
        la = max([a for a in arr if a <= c] + [t0])
        fired = c in r['timeouts']
        if c - la <= L and fired:
            return 'timeout callback at %d although the last keepalive arrived %d us before (lifetime %d)' % (c, c - la, L)
        if c - la > L and not fired and (not r['timeouts'] or c <= r['timeouts'][0]):
            return 'no timeout callback at %d although the server was silent for %d us (lifetime %d)' % (c, c - la, L)
    return None


def oracle_echo(fr, out):
    if fr['t'] == 'Keepalive' and fr['respond']:
        exp = [dict(fr, respond=False)]
    else:
        exp = []
    got = [o for o in out if o['t'] == 'Keepalive']
    if got != exp:
        return 'keepalive answer wrong: sent %s expected %s' % (got, exp)
    return None


def _patterns(rng, P, L):
    yield 'always', lambda k, t: 1 + (k % 7)
    yield 'never', lambda k, t: None
    stop = rng.randint(1, 6)
    yield 'stop-at-%d' % stop, lambda k, t: (3 if k <= stop else None)
    yield 'every-second', lambda k, t: (5 if k % 2 == 0 else None)
    d1 = L - 1
    yield 'delayed-L-1', lambda k, t: d1
    d2 = L + 1
    yield 'delayed-L+1', lambda k, t: d2
    dd = rng.randint(1, 2 * L)
    yield 'delayed-%d' % dd, lambda k, t: dd
    yield 'random', lambda k, t, r=rng: (r.randint(1, 2 * L) if r.random() < 0.7 else None)


def correspond(ctx, corr, model_ok):
    corr.oracle_failures.extend(busy_sender_oracle())
    corr.oracle_failures.extend(slow_connect_oracle())
    corr.count('transport provider slower than the keep-alive period', 3)
    corr.oracle_failures.extend(late_handler_oracle())
    corr.count('handler installed after connect is the one told about the timeout', 2)
    corr.oracle_failures.extend(second_connection_oracle())
    corr.count('second connection (reconnect from on_close, delayed provider): periodic emission, no false timeout', 3)
    corr.oracle_failures.extend(peer_probes_oracle())
    corr.count('keepalive while a long fragmented frame is being written on a slow link', 3)
    corr.count('server probing on its own without acknowledging', 2)
    rng = ctx.rng
    items = []
    # ---- echo
    for i in range(ctx.scale(60, 600)):
        env = None
        if rng.random() < 0.8:
            fr = FR.gen_frame(rng, env, t='Keepalive', big=False)
            fr['sid'] = 0
            fr['ign'] = False
        else:
            fr = FR.gen_frame(rng, env, t=rng.choice(['Cancel', 'RequestN', 'MetadataPush', 'Error']), big=False)
            fr['ign'] = False
            if fr['t'] == 'Error':
                fr['sid'] = rng.choice([0, 5])
        role = rng.choice(['server', 'client'])
        out = run_echo(fr, role, rng.random() < 0.5)
        corr.evaluations += 1
        corr.count('echo:%s:%s' % (role, fr['t'] + (':respond' if fr.get('respond') else '')))
        corr.nontriv(('echo', repr(sorted(fr.items())), role))
        o = oracle_echo(fr, out)
        if o:
            corr.oracle_failures.append({'what': o, 'kind': 'echo', 'frame': fr, 'role': role})
        items.append(('CEcho %s %s' % (FR.coq_frame(fr), clist([FR.coq_frame(x) for x in out])),
                      {'kind': 'echo', 'frame': fr, 'role': role, 'impl_sent': out}))
        if len(corr.samples) < 1 and fr.get('respond'):
            corr.samples.append({'echo_of': {k: (v.hex() if isinstance(v, bytes) else v) for k, v in fr.items()},
                                 'sent': [x['t'] + (' respond' if x.get('respond') else '') for x in out]})
    # ---- timing
    grid = [(500000, 2000000), (1000000, 1000000), (700000, 300000), (300000, 700000), (999, 2501), (250000, 10000000)]
    if ctx.thorough:
        grid += [(rng.randint(1000, 3000000), rng.randint(1000, 5000000)) for _ in range(20)]
    for (P, L) in grid:
        horizon = min(8 * max(P, L), 40 * min(P, L)) if min(P, L) * 40 > 3 * L else 6 * L
        for name, pat in _patterns(rng, P, L):
            r = run_timing(P, L, pat, horizon)
            corr.evaluations += 1
            corr.count('timing:' + name.split('-')[0])
            corr.nontriv(('timing', P, L, name, tuple(r['arrivals'][:5])))
            o = oracle_timing(P, L, r, horizon)
            if o:
                corr.oracle_failures.append({'what': o, 'kind': 'timing', 'P': P, 'L': L, 'pattern': name, 'observed': r})
            n_sent = len(r['sent_at'])
            touts = [x for x in r['timeouts'] if x <= r['t0'] + horizon]
            txt = 'CTiming %s %s %s %d%%nat %s %s %d%%nat %s' % (
                cZ(P), cZ(L), cZ(r['t0']), n_sent, clist([cZ(x) for x in r['sent_at']]),
                clist([cZ(x) for x in r['arrivals']]), r['n_checks'], clist([cZ(x) for x in touts]))
            items.append((txt, {'kind': 'timing', 'P': P, 'L': L, 'pattern': name, 'observed': r}))
            if len(corr.samples) < 4 and touts and r['arrivals']:
                corr.samples.append({'P_us': P, 'L_us': L, 'pattern': name, 'probes_at': [x - r['t0'] for x in r['sent_at'][:6]],
                                     'arrivals_at': [x - r['t0'] for x in r['arrivals'][:6]],
                                     'timeouts_at': [x - r['t0'] for x in touts[:4]]})
    corr.rule = ('(a) KEEPALIVE frames with random data/position/flag (and a few non-keepalive frames) injected into a real server '
                 'and a real client in both framings -> frames queued in reaction; (b) real client under the virtual clock on a grid '
                 'of (period, lifetime) incl. equal, co-prime and sub-millisecond values x acknowledgement patterns always / never / '
                 'stop at k / every second / delayed by L-1us, L+1us, arbitrary / random -> probe instants and on_keepalive_timeout '
                 'instants. every case is non-trivial; distinct by input')
    if not model_ok:
        return
    shards = ['Definition cases : list case15 := [\n' + ';\n'.join(x[0] for x in ch) + '\n].'
              for ch in chunks(items, SHARD)]
    out = run_coq_cases(shards, HEADER, timeout=600)
    for si, (n, nf, idx) in enumerate(out):
        for i in idx:
            corr.disagreements.append(dict(items[si * SHARD + i][1], what='keepalive: implementation vs model/Keepalive.v'))


def search(ctx, budget_s):
    from harness.common import CorrResult
    c = CorrResult()
    correspond(ctx, c, False)
    return c.oracle_failures[:1]


def replay(obj):
    if 'busy_case' in (obj.get('case') or {}):
        return bool(busy_sender_oracle())
    if 'slow_case' in (obj.get('case') or {}):
        return bool(slow_connect_oracle())
    if 'late_handler_case' in (obj.get('case') or {}):
        return bool(late_handler_oracle())
    if 'second_connection_case' in (obj.get('case') or {}):
        return bool(second_connection_oracle())
    if 'probe_case' in (obj.get('case') or {}):
        return bool(peer_probes_oracle())
    import ast
    case = obj['case']
    if case['kind'] == 'echo':
        fr = case['frame']
        for k, v in list(fr.items()):
            if isinstance(v, str) and v.startswith(("b'", 'b"')):
                fr[k] = ast.literal_eval(v)
        bad = False
        for lenreq in (True, False):
            o = oracle_echo(fr, run_echo(fr, case['role'], lenreq))
            if o:
                print('oracle:', o)
                bad = True
        return bad
    P, L = case['P'], case['L']
    import random
    for name, pat in _patterns(random.Random(0), P, L):
        if name.split('-')[0] == case['pattern'].split('-')[0]:
            horizon = 6 * max(P, L)
            o = oracle_timing(P, L, run_timing(P, L, pat, horizon), horizon)
            if o:
                print('oracle:', o)
                return True
    return False


# ---------------------------------------------------------------------------------------------
# (c) periodic emission while the sender is busy with a long fragmented frame on a slow link

def run_busy_sender(P_us, n_bytes, per_frame_us, lenreq):
    from rsocket.rsocket_client import RSocketClient
    from rsocket.helpers import single_transport_provider
    from rsocket.payload import Payload
    loop = sim.new_loop()
    sim.patch_clock(loop)
    T = sim.make_transport_class()
    t = T(lenreq=lenreq)
    box = {}
    try:
        def mk():
            box['c'] = RSocketClient(single_transport_provider(t), keep_alive_period=timedelta(microseconds=P_us),
                                     max_lifetime_period=timedelta(microseconds=1000 * P_us), fragment_size_bytes=64)
            asyncio.create_task(box['c'].connect())
        loop.run(mk)
        loop.settle()
        c = box['c']
        t0 = us(loop.time())
        t.gated = True
        loop.run(lambda: c.fire_and_forget(Payload(b'x' * n_bytes)))
        stamps = []      # (time_us, frame type) of everything written
        seen = len(t.sent)
        for _ in range(200000):
            t.permit(1)
            loop.settle()
            while seen < len(t.sent):
                stamps.append((us(loop.time()) - t0, sim.parse_sent(t.sent[seen])['t']))
                seen += 1
            if internals.send_queue(c).empty() and t._permits > 0:
                break
            loop.run_until(loop.time() + per_frame_us / US)
            while seen < len(t.sent):
                stamps.append((us(loop.time()) - t0, sim.parse_sent(t.sent[seen])['t']))
                seen += 1
        return stamps
    finally:
        loop.finish()


def busy_sender_oracle():
    out = []
    for (P, n, per, lenreq) in ((1000000, 16000, 10000, True), (500000, 8000, 20000, False), (300000, 6000, 7000, True)):
        st = run_busy_sender(P, n, per, lenreq)
        if not st:
            out.append({'what': 'busy sender: nothing written', 'busy_case': [P, n, per, lenreq]})
            continue
        end = st[-1][0]
        kas = [x[0] for x in st if x[1] == 'Keepalive']
        ticks = [k * P for k in range(1, end // P + 1)]
        missing = [tk for tk in ticks if not any(tk <= k <= tk + 3 * per + 1000 for k in kas)]
        if missing:
            out.append({'what': 'no KEEPALIVE written around %d of %d period ticks while a fragmented frame was being sent '
                                '(first missing tick at %d us, transfer lasted %d us)' % (len(missing), len(ticks), missing[0], end),
                        'busy_case': [P, n, per, lenreq]})
    return out


# (c2) a transport provider that takes several keep-alive periods to come up: the periodic emission belongs to the CONNECTED
# client — nothing is queued while there is no connection, the first KEEPALIVE follows the connection by one period
def run_slow_connect(P_us, delay_us, horizon_us, lenreq=True):
    from rsocket.rsocket_client import RSocketClient
    loop = sim.new_loop()
    sim.patch_clock(loop)
    T = sim.make_transport_class()
    t = T(lenreq=lenreq)
    box = {}

    async def provider():
        await asyncio.sleep(delay_us / US)
        yield t
    try:
        t0 = us(loop.time())

        def mk():
            box['c'] = RSocketClient(provider(), keep_alive_period=timedelta(microseconds=P_us),
                                     max_lifetime_period=timedelta(microseconds=1000 * P_us))
            asyncio.create_task(box['c'].connect())
        loop.run(mk)
        stamps = []
        seen = 0
        step = P_us // 10
        now = 0
        while now < horizon_us:
            now += step
            loop.run_until((t0 + now) / US)
            while seen < len(t.sent):
                stamps.append((us(loop.time()) - t0, sim.parse_sent(t.sent[seen])['t']))
                seen += 1
        return stamps
    finally:
        loop.finish()


def slow_connect_oracle():
    out = []
    for (P, delay, horizon) in ((1000000, 3500000, 9000000), (500000, 1200000, 5000000), (200000, 100000, 2000000)):
        st = run_slow_connect(P, delay, horizon)
        kas = [x[0] for x in st if x[1] == 'Keepalive']
        setup = [x[0] for x in st if x[1] == 'Setup']
        tol = P // 10 + 1000
        exp = [delay + k * P for k in range(1, (horizon - delay) // P + 1)]
        ok = bool(setup) and len(st) and st[0][1] == 'Setup' and len(kas) in (len(exp), len(exp) - 1) and \
            all(abs(a - b) <= tol for a, b in zip(kas, exp))
        if not ok:
            out.append({'what': 'client whose transport takes %d us to come up (period %d us): KEEPALIVEs written at %s, expected one per '
                                'period counted from the connection: %s; first frames %s' % (delay, P, kas[:8], exp[:8], st[:3]),
                        'slow_case': [P, delay, horizon]})
    return out


# (d) a server that probes on its own (respond-flagged KEEPALIVEs) but never acknowledges ours: its probes are signs of life
def run_peer_probes(P_us, L_us, every_us, until_us, horizon_us):
    from rsocket.rsocket_client import RSocketClient
    from rsocket.request_handler import BaseRequestHandler
    from rsocket.helpers import single_transport_provider
    from rsocket.frame import KeepAliveFrame
    loop = sim.new_loop()
    sim.patch_clock(loop)
    T = sim.make_transport_class()
    t = T(lenreq=False)
    touts = []

    class H(BaseRequestHandler):
        async def on_keepalive_timeout(self, since, rsocket):
            touts.append(us(loop.time()))
    box = {}
    try:
        def mk():
            box['c'] = RSocketClient(single_transport_provider(t), handler_factory=H,
                                     keep_alive_period=timedelta(microseconds=P_us),
                                     max_lifetime_period=timedelta(microseconds=L_us))
            asyncio.create_task(box['c'].connect())
        loop.run(mk)
        loop.settle()
        t0 = us(loop.time())
        sent = 0
        nxt = every_us + 137
        while nxt <= until_us:
            loop.run_until((t0 + nxt) / US)
            if touts:
                break
            ka = KeepAliveFrame()
            ka.flags_respond = True
            ka.data = b'p%d' % sent
            t.inject_frame(ka.serialize())
            loop.settle()
            sent += 1
            nxt += every_us
        loop.run_until((t0 + horizon_us) / US)
        echoes = [sim.parse_sent(b) for b in t.sent if sim.parse_sent(b)['t'] == 'Keepalive' and not sim.parse_sent(b)['respond']]
        return {'probes': sent, 'echoes': len(echoes), 'timeouts': [x - t0 for x in touts], 'last_probe': nxt - every_us}
    finally:
        loop.finish()


def peer_probes_oracle():
    out = []
    for (P, L, every, until, horizon) in ((1000000, 3000000, 2000000, 30500000, 45000000),
                                          (500000, 2000000, 1500000, 12000000, 20000000)):
        r = run_peer_probes(P, L, every, until, horizon)
        early = [x for x in r['timeouts'] if x <= r['last_probe'] + L]
        if early or r['echoes'] != r['probes'] or not r['timeouts']:
            out.append({'what': 'server-originated KEEPALIVEs: %r' % (r,), 'probe_case': [P, L, every, until, horizon]})
    return out


# (e) the handler the application installs AFTER connecting (set_handler_using_factory) is the one told about the timeout
def run_late_handler(P_us, L_us):
    from rsocket.rsocket_client import RSocketClient
    from rsocket.request_handler import BaseRequestHandler
    from rsocket.helpers import single_transport_provider
    loop = sim.new_loop()
    sim.patch_clock(loop)
    T = sim.make_transport_class()
    t = T(lenreq=False)
    told = {'initial': [], 'late': []}

    def handler(name):
        class H(BaseRequestHandler):
            async def on_keepalive_timeout(self, since, rsocket):
                told[name].append(us(loop.time()))
        return H
    box = {}
    try:
        def mk():
            box['c'] = RSocketClient(single_transport_provider(t), handler_factory=handler('initial'),
                                     keep_alive_period=timedelta(microseconds=P_us), max_lifetime_period=timedelta(microseconds=L_us))
            asyncio.create_task(box['c'].connect())
        t0 = us(loop.time())
        loop.run(mk)
        loop.settle()
        loop.run(lambda: box['c'].set_handler_using_factory(handler('late')))
        loop.run_until((t0 + 3 * L_us + P_us) / US)        # the server never answers
        return {k: [x - t0 for x in v] for k, v in told.items()}
    finally:
        loop.finish()


def late_handler_oracle():
    out = []
    for P, L in ((500000, 1000000), (300000, 2000000)):
        r = run_late_handler(P, L)
        if r['initial'] or not r['late'] or not (L < r['late'][0] <= 2 * L + P):
            out.append({'what': 'silent server, handler installed after connect (period %d us, lifetime %d us): the replaced handler was told '
                                'at %s, the installed one at %s (expected: only the installed one, first within two lifetimes)' %
                                (P, L, r['initial'], r['late']), 'late_handler_case': [P, L]})
    return out


# (f) the SECOND connection of a client (reconnect from on_close, transport provider with a delay): KEEPALIVE every period
# there too, and no timeout while the server answers
def run_second_connection(P_us, L_us, provider_delay_us, horizon_us):
    from rsocket.rsocket_client import RSocketClient
    from rsocket.request_handler import BaseRequestHandler
    from rsocket.frame import KeepAliveFrame
    loop = sim.new_loop()
    sim.patch_clock(loop)
    T = sim.make_transport_class()
    ts = [T(lenreq=True, name='a'), T(lenreq=True, name='b')]
    touts = []

    async def provider():
        yield ts[0]
        await asyncio.sleep(provider_delay_us / US)
        yield ts[1]

    class H(BaseRequestHandler):
        async def on_close(self, rsocket, exception=None):
            await rsocket.reconnect()

        async def on_keepalive_timeout(self, since, rsocket):
            touts.append(us(loop.time()))
    box = {}
    try:
        def mk():
            box['c'] = RSocketClient(provider(), handler_factory=H, keep_alive_period=timedelta(microseconds=P_us),
                                     max_lifetime_period=timedelta(microseconds=L_us))
            asyncio.create_task(box['c'].connect())
        t0 = us(loop.time())
        loop.run(mk)
        loop.settle()
        loop.run_until((t0 + P_us // 2) / US)
        ts[0].inject_eof()
        loop.settle()
        stamps = []
        seen = 0
        now = us(loop.time())
        while now < t0 + horizon_us:
            now += P_us // 10
            loop.run_until(now / US)
            while seen < len(ts[1].sent):
                d = sim.parse_sent(ts[1].sent[seen])
                seen += 1
                stamps.append((us(loop.time()) - t0, d['t']))
                if d['t'] == 'Keepalive' and d.get('respond'):
                    ka = KeepAliveFrame()          # the server acknowledges every probe at once
                    ka.flags_respond = False
                    ts[1].inject_frame(ka.serialize())
        return {'second': stamps, 'timeouts': [x - t0 for x in touts], 'connected': ts[1].connected}
    finally:
        loop.finish()


def second_connection_oracle():
    out = []
    for P, L, delay in ((500000, 2000000, 50000), (500000, 2000000, 0), (200000, 1000000, 700000)):
        horizon = 8 * P + delay + P
        r = run_second_connection(P, L, delay, horizon)
        kas = [x for x, ty in r['second'] if ty == 'Keepalive']
        bad = []
        if not r['connected'] or not r['second'] or r['second'][0][1] != 'Setup':
            bad.append('second connection not established with SETUP first: %s' % r['second'][:2])
        else:
            up = r['second'][0][0]
            exp = [up + k * P for k in range(1, (horizon - up) // P + 1)]
            if len(kas) not in (len(exp), len(exp) - 1) or any(abs(a - b) > P // 10 + 1000 for a, b in zip(kas, exp)):
                bad.append('KEEPALIVEs on the second connection at %s, expected one per period after it came up at %d: %s' % (kas[:6], up, exp[:6]))
        if r['timeouts']:
            bad.append('keepalive timeout reported at %s although every probe was acknowledged' % r['timeouts'][:2])
        if bad:
            out.append({'what': 'client reconnected from on_close (provider delay %d us, period %d us): %s' % (delay, P, '; '.join(bad)),
                        'second_connection_case': [P, L, delay]})
    return out
