"""C11 — connection loss or close fails everything pending, exactly once.
Correspondence: legal random histories on a real endpoint with every mix of pending interactions in both roles, ended by
orderly EOF, a transport error, explicit close(), or a cut in the middle of a (fragmented, length-prefixed) frame, also
racing local cancellations; the close-related projection of the trace is compared with the model's replay of LClose.
Oracle (the property), from a snapshot of the real stream table taken when the sweep starts: every pending request is
failed, every subscriber whose direction was open gets exactly one error, every handler future / publisher is cancelled,
nothing else is told to the application; afterwards the table is empty, every awaitable is done, on_close ran exactly
once, receiver and sender are gone and nothing is sent any more even when the keep-alive period elapses many times.
Byte offsets: a real TransportTCP over an asyncio.StreamReader in both roles, the peer's byte stream cut at every offset
(every third in the quick tier), ended by EOF or by a read error, with and without a loop turn in between; responders
use the library's StreamFromGenerator: handler futures cancelled, sources not pulled again, nothing written or queued,
no task left, on_close exactly once, pending requests failed, the stream subscriber told exactly once."""
from harness import internals
from harness import epcheck as E, endpoint as EP

MODEL_TARGETS = E.MODEL_TARGETS
ASSUMPTIONS = [
    'the link is the harness transport: EOF = next_frame_generator returns None, error = it raises; close() is the '
    'endpoint\'s own; a cut leaves a truncated length-prefixed frame in the parser (byte level: C04_prefix)',
    'virtual time: after the loss the clock is advanced by four keep-alive periods to look for late sends',
]
KEEP, KEYS = 'keep_close', False     # the table is judged by the oracle; a raising subscriber legitimately skips the cache cleanup


def expected_sweep(snapshot):
    out = []
    for ent in snapshot:
        oid, k = ent['oid'], ent['kind']
        if k == 'KRRReq':
            if ent['pending']:
                out.append(('fut', oid, False))
        elif k == 'KRRResp':
            if ent['pending']:
                out.append(('appfutcancel', oid))
        elif k == 'KRSReq':
            if ent['has_sub']:
                out.append(('cb', oid, ('error',)))
        elif k == 'KRSResp':
            out.append(('pub', oid, ('cancel',)))
        elif k in ('KChanReq', 'KChanResp'):
            if k == 'KChanReq' and not ent['recv'] and ent['has_sub']:
                out.append(('cb', oid, ('error',)))
            if ent['has_pub']:
                out.append(('pub', oid, ('cancel',)))
    return out


def after_close(sc):
    """post-phase, still on the live loop: what the endpoint does once the connection is gone"""
    rec = sc.rec
    res = {}
    if not sc.closed:
        return res
    before = len(rec.t.sent)
    t0 = rec.loop.time()
    try:
        rec.loop.run_until(t0 + 400000.0)
    except RuntimeError as e:
        res['unsettled'] = str(e)
    res['late_sends'] = [repr(EP.FR.describe(x) if False else x[:12].hex()) for x in rec.t.sent[before:]][:4]
    res['on_close_calls'] = rec.on_close_calls
    ep = rec.ep
    res['table'] = sorted(ep._stream_control._streams.keys())
    res['tasks'] = {n: (getattr(ep, n, None) is not None and not getattr(ep, n).done())
                    for n in ('_receiver_task', '_sender_task')}
    res['pending_futures'] = [oid for oid, m in sc.mine.items() if m['kind'] == 'rr' and not m['fut'].done()]
    res['escaped'] = list(rec.loop.exceptions)[:3]
    return res


def oracle(sc):
    if not sc.legal or not sc.closed:
        return []
    out = []
    steps = EP.steps_of_log(sc.rec.log)
    closes = [i for i, s in enumerate(steps) if s[0][0] == 'close']
    mode = getattr(sc, 'close_used', None)
    if len(closes) < 1:
        out.append(E.failure('no-close-sweep', sc, mode=mode))
    for k, j in enumerate(closes[1:], 1):
        # (a client sweeps again when its reconnect listener is stopped: by then nothing is registered)
        if steps[j][2] or (getattr(sc.rec, 'pre_close_all', [])[k:k + 1] or [[]])[0]:
            out.append(E.failure('second-sweep-not-empty', sc, mode=mode, step=j, effects=repr(steps[j][2])[:200]))
    snap = getattr(sc.rec, 'pre_close', None)
    if closes and snap is not None:
        got = [e for e in steps[closes[0]][2] if e[0] in ('fut', 'cb', 'pub', 'appfutcancel')]
        want = expected_sweep(snap)
        # a channel requester whose receive direction cannot be read off the handler any more (harness/internals.py):
        # whether its subscriber is owed an error is then unknown, and the signal is left out of the comparison
        blind = {ent['oid'] for ent in snap if ent['kind'] == 'KChanReq' and ent.get('recv') is None}
        if blind:
            got = [e for e in got if not (e[0] == 'cb' and e[1] in blind)]
            want = [e for e in want if not (e[0] == 'cb' and e[1] in blind)]
        if got != want:
            out.append(E.failure('sweep-differs', sc, mode=mode, expected=repr(want)[:300], got=repr(got)[:300]))
        # nothing for these objects afterwards
        for j in range(closes[0] + 1, len(steps)):
            if steps[j][0][0] == 'close':
                continue
            late = [e for e in steps[j][2] if e[0] in ('fut', 'cb', 'pub', 'appfutcancel', 'enq')]
            if late:
                out.append(E.failure('activity-after-close', sc, mode=mode, step=j, what_happened=repr(late)[:200]))
                break
    res = getattr(sc, 'post_result', None) or {}
    if res:
        if res.get('late_sends'):
            out.append(E.failure('sends-after-close', sc, mode=mode, frames=res['late_sends']))
        if res.get('on_close_calls') != 1:
            out.append(E.failure('on_close-calls', sc, mode=mode, count=res.get('on_close_calls')))
        if res.get('table'):
            out.append(E.failure('streams-left-after-close', sc, mode=mode, sids=res['table']))
        if any(res.get('tasks', {}).values()):
            out.append(E.failure('tasks-alive-after-close', sc, mode=mode, tasks=res['tasks']))
        if res.get('pending_futures'):
            out.append(E.failure('request-left-hanging', sc, mode=mode, oids=res['pending_futures']))
        if res.get('escaped') and not sc.desc.get('on_close_raises'):
            # (an on_close hook that raises surfaces as the receiver task's exception: the application's own failure)
            out.append(E.failure('exception-escaped', sc, mode=mode, detail=res['escaped']))
        if res.get('unsettled'):
            out.append(E.failure('busy-after-close', sc, mode=mode))
    return out


def _descs(ctx, n):
    return E.mk_descs(ctx.rng, n, hostile=0.0, with_close=True, steps=(2, 16), frag=0.2, race=0.4,
                      close_mode=lambda r: r.choice(['eof', 'error', 'close', 'cut']),
                      app_raises_at_close=lambda r: r.random() < 0.3,
                      on_close_raises=lambda r: r.random() < 0.15,
                      close_during_on_close=lambda r: r.choice([0, 0, 1, 2, 3, 5]))


def correspond(ctx, corr, model_ok):
    from harness import battery
    battery.run(corr, ['reconnect-producers-wire', 'reconnect-window-requests', 'messaging-transport-failure'])
    n = ctx.scale(240, 2500)
    runs, crashed = E.run_all(_descs(ctx, n), post=after_close)
    corr.oracle_failures.extend(crashed)
    for sc in runs:
        corr.oracle_failures.extend(oracle(sc))
        corr.count('closed:' + str(getattr(sc, 'close_used', 'no')))
        snap = getattr(sc.rec, 'pre_close', None) or []
        corr.count('streams registered at the loss', len(snap))
        for ent in snap:
            corr.count('pending ' + ent['kind'])
    for case in tcp_cases(ctx):
        r = run_tcp_cut(*case)
        corr.oracle_failures.extend(tcp_oracle(case, r))
        corr.count('real TransportTCP cut (%s, %s)' % (case[0], case[2]))
        corr.evaluations += 1
    corr.oracle_failures.extend(pool_close_oracle())
    corr.count('load-balancer pool closed with a member whose close() fails', 6)
    corr.oracle_failures.extend(immediate_close_oracle())
    corr.count('close() within two loop iterations of the creation of the endpoint', 6)
    from harness.props import c07
    corr.oracle_failures.extend(c07.late_requests_oracle())
    corr.count('requests issued inside the close sweep / after the loss, then close()', 18)
    if model_ok:
        E.trace_corr(corr, runs, KEEP, KEYS, 'C11 close projection vs model/Endpoint.v')
    corr.rule = ('legal random histories of 2..16 actions ended by EOF / transport error / close() / mid-frame cut (also '
                 'racing a local cancel); the sweep is compared with the model and with the expectation computed from the real '
                 'stream table; then four keep-alive periods of virtual time')
    corr.samples = [repr(EP.steps_of_log(sc.rec.log)[-2:])[:400] for sc in runs[:3]]


def search(ctx, budget):
    import time
    t0 = time.time()
    found = []
    while time.time() - t0 < budget and not found:
        runs, crashed = E.run_all(_descs(ctx, 60), post=after_close)
        found.extend(crashed)
        for sc in runs:
            found.extend(oracle(sc))
        for case in tcp_cases(ctx):
            found.extend(tcp_oracle(case, run_tcp_cut(*case)))
        found.extend(immediate_close_oracle())
        from harness.props import c07
        found.extend(c07.late_requests_oracle())
    return found


def replay(obj):
    from harness import battery as _bat
    _r = _bat.replay(obj.get('case') if isinstance(obj.get('case'), dict) else obj)
    if _r is not None:
        return _r
    case = obj.get('case') or obj
    if 'tcp_case' in case:
        c = tuple(case['tcp_case'])
        return bool(tcp_oracle(c, run_tcp_cut(*c)))
    if 'immediate_case' in case:
        return bool(immediate_close_oracle())
    if 'pool_case' in case:
        return bool(pool_close_oracle())
    if 'late_case' in case:
        from harness.props import c07
        role, cause, kinds = case['late_case']
        return c07.late_requests(role, cause, tuple(kinds))['bad']
    runs, crashed = E.run_all([case['scenario']], post=after_close)
    return bool(crashed) or any(oracle(sc) for sc in runs)


# ---------------------------------------------------------------------------------------------
# the real TCP transport, cut at EVERY byte offset, orderly EOF and read error

def _stream_for(role):
    """a byte stream a peer could send, as length-prefixed frames; returns (frames, bytes)"""
    from harness import frames as FR
    if role == 'server':
        frs = [{'t': 'RequestResponse', 'sid': 1, 'ign': False, 'follows': False, 'md': b'', 'd': b'a'},
               {'t': 'RequestStream', 'sid': 3, 'ign': False, 'follows': False, 'n': 3, 'md': b'', 'd': b'b'},
               {'t': 'RequestChannel', 'sid': 5, 'ign': False, 'follows': False, 'complete': False, 'n': 2, 'md': b'', 'd': b'c'},
               {'t': 'RequestN', 'sid': 3, 'ign': False, 'n': 2},
               {'t': 'RequestResponse', 'sid': 7, 'ign': False, 'follows': False, 'md': b'm', 'd': b'e' * 20},
               {'t': 'Cancel', 'sid': 1, 'ign': False}]
    else:
        frs = [{'t': 'Payload', 'sid': 1, 'ign': False, 'follows': False, 'complete': True, 'next': True, 'md': b'', 'd': b'r1'},
               {'t': 'Payload', 'sid': 5, 'ign': False, 'follows': False, 'complete': False, 'next': True, 'md': b'', 'd': b's1'},
               {'t': 'Error', 'sid': 3, 'ign': False, 'code': 0x201, 'd': b'no'},
               {'t': 'Payload', 'sid': 5, 'ign': False, 'follows': True, 'complete': False, 'next': True, 'md': b'', 'd': b'x' * 30},
               {'t': 'Payload', 'sid': 5, 'ign': False, 'follows': False, 'complete': True, 'next': True, 'md': b'', 'd': b'y'}]
    out = b''
    for fr in frs:
        b = FR.build(fr).serialize()
        out += len(b).to_bytes(3, 'big') + b
    return frs, out


def run_tcp_cut(role, k, mode, settle_between, source='gen'):
    """real TransportTCP over an asyncio.StreamReader: the first k bytes of the peer's stream arrive, then the link
    dies (mode 'eof': orderly end; 'reset': the read raises ConnectionResetError)."""
    import asyncio
    from harness import sim
    from rsocket.transports.tcp import TransportTCP
    from rsocket.rsocket_server import RSocketServer
    from rsocket.rsocket_client import RSocketClient
    from rsocket.request_handler import BaseRequestHandler
    from rsocket.helpers import single_transport_provider
    from rsocket.payload import Payload
    from rsocket.streams.stream_from_generator import StreamFromGenerator
    from datetime import timedelta
    from harness.props import c06
    loop = sim.new_loop()
    sim.patch_clock(loop)
    frs, stream = _stream_for(role)
    obs = {'on_close': 0, 'futs': [], 'pulled': 0, 'subs': [], 'writes_at_close': None}

    class W:
        def __init__(self):
            self.writes = []
            self.closed = False

        def write(self, b):
            self.writes.append(bytes(b))

        async def drain(self):
            pass

        def close(self):
            self.closed = True

        async def wait_closed(self):
            pass

        def is_closing(self):
            return self.closed

    def items():
        for i in range(50):
            obs['pulled'] += 1
            yield Payload(b'%d' % i), False

    class H(BaseRequestHandler):
        async def request_response(self, payload):
            f = loop.create_future()
            obs['futs'].append(f)
            return f

        async def request_stream(self, payload):
            return StreamFromGenerator(items)

        async def request_channel(self, payload):
            s = c06.Rec()
            obs['subs'].append(s)
            return StreamFromGenerator(items), s

        async def on_close(self, rsocket, exception=None):
            obs['on_close'] += 1
            obs['writes_at_close'] = len(w.writes)
            obs['pulled_at_close'] = obs['pulled']
    w = W()
    box = {}
    try:
        def mk():
            reader = asyncio.StreamReader()
            box['r'] = reader
            t = TransportTCP(reader, w)
            if role == 'server':
                box['e'] = RSocketServer(t, handler_factory=H)
            else:
                box['e'] = RSocketClient(single_transport_provider(t), handler_factory=H,
                                         keep_alive_period=timedelta(seconds=1000), max_lifetime_period=timedelta(seconds=5000))
                asyncio.create_task(box['e'].connect())
        loop.run(mk)
        loop.settle()
        ep = box['e']
        mine = {}
        if role == 'client':
            def reqs():
                mine['rr1'] = ep.request_response(Payload(b'q1'))
                mine['rr3'] = ep.request_response(Payload(b'q3'))
                s = c06.Rec(request_in_on_subscribe=())
                mine['sub5'] = s
                ep.request_stream(Payload(b'q5')).subscribe(s)
            loop.run(reqs)
            loop.settle()
        reader = box['r']
        if k:
            reader.feed_data(stream[:k])
        if settle_between:
            loop.settle()
        if mode == 'eof':
            reader.feed_eof()
        else:
            reader.set_exception(ConnectionResetError('reset by peer'))
        unsettled = False
        try:
            loop.settle()
            loop.run_until(loop.time() + 4000.0)
        except RuntimeError:
            unsettled = True
        for _ in range(30):
            loop.tick()
        import asyncio as _a
        # (a client keeps its reconnect listener: it waits for reconnect() and touches nothing until then)
        alive = [repr(t)[:120] for t in _a.all_tasks(loop) if not t.done() and '_reconnect_listener' not in repr(t)]
        res = {'on_close': obs['on_close'], 'writes_after_close': (len(w.writes) - obs['writes_at_close'])
               if obs['writes_at_close'] is not None else None,
               'pulled_after_close': obs['pulled'] - obs.get('pulled_at_close', obs['pulled']),
               'handler_futures_open': sum(1 for f in obs['futs'] if not f.done()),
               'table': sorted(ep._stream_control._streams.keys()), 'tasks_alive': alive, 'unsettled': unsettled,
               'queued_after_close': internals.send_queue(ep).qsize(), 'escaped': list(loop.exceptions)[:2]}
        if role == 'client':
            res['requests_open'] = [n for n in ('rr1', 'rr3') if not mine[n].done()]
            evs = mine['sub5'].events
            terms = [e for e in evs if e[0] in ('complete', 'error') or (e[0] == 'next' and e[-1])]
            res['stream_terminals'] = len(terms)
        return res
    finally:
        loop.finish()


def tcp_oracle(case, r):
    role, k, mode, sb = case
    out = []
    base = {'tcp_case': list(case)}

    def bad(what, **kw):
        d = dict(base, what=what)
        d.update(kw)
        out.append(d)
    if r['on_close'] != 1:
        bad('tcp:on_close-calls', count=r['on_close'])
    if r['writes_after_close']:
        bad('tcp:writes-after-close', count=r['writes_after_close'])
    if r['pulled_after_close']:
        bad('tcp:source-pulled-after-close', count=r['pulled_after_close'])
    if r['handler_futures_open']:
        bad('tcp:handler-future-not-cancelled', count=r['handler_futures_open'])
    if r['table']:
        bad('tcp:streams-left', sids=r['table'])
    if r['tasks_alive']:
        bad('tcp:tasks-alive', tasks=r['tasks_alive'][:3])
    if r['unsettled']:
        bad('tcp:busy-after-close')
    if r['queued_after_close']:
        bad('tcp:frames-queued-after-close', count=r['queued_after_close'])
    if r['escaped']:
        bad('tcp:exception-escaped', detail=r['escaped'])
    if role == 'client':
        if r['requests_open']:
            bad('tcp:request-left-hanging', names=r['requests_open'])
        if r['stream_terminals'] != 1:
            bad('tcp:stream-subscriber-terminals', count=r['stream_terminals'])
    return out


def tcp_cases(ctx):
    out = []
    for role in ('server', 'client'):
        n = len(_stream_for(role)[1])
        ks = range(0, n + 1) if ctx.thorough else sorted(set(list(range(0, n + 1, 3)) + [n, n - 1, 1, 2, 3, 4, 9, 10, 11, 12]))
        for k in ks:
            for mode in ('eof', 'reset'):
                for sb in ((True, False) if (ctx.thorough or k % 2 == 0) else (False,)):
                    out.append((role, k, mode, sb))
    return out


# ---------------------------------------------------------------------------------------------
# close() at the earliest possible moment: in the same loop iteration in which the endpoint was created and its first requests
# were issued (an accept callback that decides to refuse the peer), and one iteration later — before the receiver task has run

def run_immediate_close(role, gap):
    import asyncio
    from datetime import timedelta
    from harness import sim
    from rsocket.rsocket_client import RSocketClient
    from rsocket.rsocket_server import RSocketServer
    from rsocket.request_handler import BaseRequestHandler
    from rsocket.helpers import single_transport_provider
    from rsocket.payload import Payload
    from reactivestreams.subscriber import DefaultSubscriber
    loop = sim.new_loop()
    sim.patch_clock(loop)
    T = sim.make_transport_class()
    t = T(lenreq=True)
    state = {'on_close': 0, 'terminals': []}

    class H(BaseRequestHandler):
        async def on_close(self, rsocket, exception=None):
            state['on_close'] += 1

    class Sub(DefaultSubscriber):
        def on_error(self, exception):
            state['terminals'].append('error')

        def on_complete(self):
            state['terminals'].append('complete')
    box = {}
    try:
        async def scenario():
            # one coroutine creates the endpoint, issues the requests and closes it, yielding to the loop `gap` times in between
            if role == 'server':
                e = box['e'] = RSocketServer(t, handler_factory=H)
            else:
                e = box['e'] = RSocketClient(single_transport_provider(t), handler_factory=H, keep_alive_period=timedelta(seconds=1000),
                                             max_lifetime_period=timedelta(seconds=5000))
                await e.connect()
            box['f'] = e.request_response(Payload(b'r'))
            e.request_stream(Payload(b's')).subscribe(Sub())
            for _ in range(gap):
                await asyncio.sleep(0)
            await e.close()
        loop.run(lambda: asyncio.create_task(scenario()))
        loop.settle()
        sent_before = len(t.sent)
        loop.run_until(loop.time() + 5000)
        return {'pending': not box['f'].done(), 'terminals': state['terminals'], 'on_close': state['on_close'],
                'sent_after_close': len(t.sent) - sent_before,
                'open': sorted(box['e']._stream_control._streams)}
    finally:
        loop.finish()


def immediate_close_oracle():
    out = []
    for role in ('server', 'client'):
        for gap in (0, 1, 2):
            r = run_immediate_close(role, gap)
            bad = []
            if r['pending']:
                bad.append('request_response left hanging')
            if r['terminals'] != ['error']:
                bad.append('stream subscriber terminal signals %r' % (r['terminals'],))
            if r['on_close'] != 1:
                bad.append('on_close delivered %d times' % r['on_close'])
            if r['sent_after_close']:
                bad.append('%d frames written after close' % r['sent_after_close'])
            if bad:
                out.append({'what': 'close() %d iteration(s) after the endpoint was created: %s' % (gap, '; '.join(bad)),
                            'immediate_case': [role, gap]})
    return out


# ---------------------------------------------------------------------------------------------
# the load-balancing wrapper (rsocket.load_balancer): closing the pool closes EVERY client — pending requests failed, on_close
# once each, nothing written afterwards — also when the close() of one member raises (a member that never got connected)

def run_pool_close(strategy, bad_index):
    import asyncio
    from datetime import timedelta
    from harness import sim
    from rsocket.rsocket_client import RSocketClient
    from rsocket.request_handler import BaseRequestHandler
    from rsocket.helpers import single_transport_provider
    from rsocket.payload import Payload
    from rsocket.load_balancer.load_balancer_rsocket import LoadBalancerRSocket
    from rsocket.load_balancer.round_robin import LoadBalancerRoundRobin
    from rsocket.load_balancer.random_client import LoadBalancerRandom
    loop = sim.new_loop()
    sim.patch_clock(loop)
    T = sim.make_transport_class()
    ts = [T(lenreq=True, name='t%d' % i) for i in range(3)]
    closes = [0, 0, 0]

    def handler(i):
        class H(BaseRequestHandler):
            async def on_close(self, rsocket, exception=None):
                closes[i] += 1
        return H
    box = {}
    futs = []
    try:
        def mk():
            cs = [RSocketClient(single_transport_provider(ts[i]), handler_factory=handler(i), keep_alive_period=timedelta(seconds=1),
                                max_lifetime_period=timedelta(seconds=5000)) for i in range(3)]
            box['cs'] = cs
            for i, c in enumerate(cs):
                if i != bad_index:
                    asyncio.create_task(c.connect())
            st = (LoadBalancerRoundRobin if strategy == 'round-robin' else LoadBalancerRandom)(cs, auto_connect=False)
            box['pool'] = LoadBalancerRSocket(st)
        loop.run(mk)
        loop.settle()
        cs = box['cs']

        class Boom:
            async def __call__(self):
                raise RuntimeError('this member never got a connection: close() fails')
        if bad_index is not None:
            cs[bad_index].close = Boom()
        for i, c in enumerate(cs):
            if i != bad_index:
                loop.run(lambda c=c: futs.append((i, c.request_response(Payload(b'pending')))))
        loop.settle()
        res = {}

        async def closing():
            try:
                await box['pool'].close()
                res['close_raised'] = None
            except Exception as e:
                res['close_raised'] = type(e).__name__
        loop.run(lambda: asyncio.create_task(closing()))
        loop.settle()
        sent = [len(t.sent) for t in ts]
        loop.run_until(loop.time() + 5)
        res.update(pending=[i for i, f in futs if not f.done()], on_close=list(closes),
                   written_after=[len(t.sent) - s for t, s in zip(ts, sent)])
        return res
    finally:
        loop.finish()


def pool_close_oracle():
    out = []
    for strategy in ('round-robin', 'random'):
        for bad in (None, 0, 1):
            r = run_pool_close(strategy, bad)
            good = [i for i in range(3) if i != bad]
            bad_things = []
            if r['pending']:
                bad_things.append('requests of members %s left hanging' % r['pending'])
            if [r['on_close'][i] for i in good] != [1] * len(good):
                bad_things.append('on_close calls per member %s' % r['on_close'])
            if any(r['written_after'][i] for i in good):
                bad_things.append('frames written after the pool was closed: %s' % r['written_after'])
            if bad_things:
                out.append({'what': 'load balancer (%s) closed, member %s failing to close: %s' % (strategy, bad, '; '.join(bad_things)),
                            'pool_case': [strategy, bad]})
    return out
