"""C11 — connection loss or close fails everything pending, exactly once.
Correspondence: legal random histories on a real endpoint with every mix of pending interactions in both roles, ended by
orderly EOF, a transport error, explicit close(), or a cut in the middle of a (fragmented, length-prefixed) frame, also
racing local cancellations; the close-related projection of the trace is compared with the model's replay of LClose.
Oracle (the property), from a snapshot of the real stream table taken when the sweep starts: every pending request is
failed, every subscriber whose direction was open gets exactly one error, every handler future / publisher is cancelled,
nothing else is told to the application; afterwards the table is empty, every awaitable is done, on_close ran exactly
once, receiver and sender are gone and nothing is sent any more even when the keep-alive period elapses many times."""
from harness import epcheck as E, endpoint as EP

MODEL_TARGETS = E.MODEL_TARGETS
ASSUMPTIONS = [
    'the link is the harness transport: EOF = next_frame_generator returns None, error = it raises; close() is the '
    'endpoint\'s own; a cut leaves a truncated length-prefixed frame in the parser (byte level: C04_prefix)',
    'virtual time: after the loss the clock is advanced by four keep-alive periods to look for late sends',
]
KEEP, KEYS = 'keep_close', True


def expected_sweep(snapshot):
    out = []
    for ent in snapshot:
        oid, k = ent['oid'], ent['kind']
        if k == 'KRRReq':
            if ent['pending']:
                out.append(('fut', oid, False))
        elif k == 'KRRResp':
            if ent['pending']:
                out.append(('appfutcancel', oid))
        elif k == 'KRSReq':
            if ent['has_sub']:
                out.append(('cb', oid, ('error',)))
        elif k == 'KRSResp':
            out.append(('pub', oid, ('cancel',)))
        elif k in ('KChanReq', 'KChanResp'):
            if k == 'KChanReq' and not ent['recv'] and ent['has_sub']:
                out.append(('cb', oid, ('error',)))
            if ent['has_pub']:
                out.append(('pub', oid, ('cancel',)))
    return out


def after_close(sc):
    """post-phase, still on the live loop: what the endpoint does once the connection is gone"""
    rec = sc.rec
    res = {}
    if not sc.closed:
        return res
    before = len(rec.t.sent)
    t0 = rec.loop.time()
    try:
        rec.loop.run_until(t0 + 400000.0)
    except RuntimeError as e:
        res['unsettled'] = str(e)
    res['late_sends'] = [repr(EP.FR.describe(x) if False else x[:12].hex()) for x in rec.t.sent[before:]][:4]
    res['on_close_calls'] = rec.on_close_calls
    ep = rec.ep
    res['table'] = sorted(ep._stream_control._streams.keys())
    res['tasks'] = {n: (getattr(ep, n, None) is not None and not getattr(ep, n).done())
                    for n in ('_receiver_task', '_sender_task')}
    res['pending_futures'] = [oid for oid, m in sc.mine.items() if m['kind'] == 'rr' and not m['fut'].done()]
    res['escaped'] = list(rec.loop.exceptions)[:3]
    return res


def oracle(sc):
    if not sc.legal or not sc.closed:
        return []
    out = []
    steps = EP.steps_of_log(sc.rec.log)
    closes = [i for i, s in enumerate(steps) if s[0][0] == 'close']
    mode = getattr(sc, 'close_used', None)
    if len(closes) < 1:
        out.append(E.failure('no-close-sweep', sc, mode=mode))
    for k, j in enumerate(closes[1:], 1):
        # (a client sweeps again when its reconnect listener is stopped: by then nothing is registered)
        if steps[j][2] or (getattr(sc.rec, 'pre_close_all', [])[k:k + 1] or [[]])[0]:
            out.append(E.failure('second-sweep-not-empty', sc, mode=mode, step=j, effects=repr(steps[j][2])[:200]))
    snap = getattr(sc.rec, 'pre_close', None)
    if closes and snap is not None:
        got = [e for e in steps[closes[0]][2] if e[0] in ('fut', 'cb', 'pub', 'appfutcancel')]
        want = expected_sweep(snap)
        if got != want:
            out.append(E.failure('sweep-differs', sc, mode=mode, expected=repr(want)[:300], got=repr(got)[:300]))
        # nothing for these objects afterwards
        for j in range(closes[0] + 1, len(steps)):
            if steps[j][0][0] == 'close':
                continue
            late = [e for e in steps[j][2] if e[0] in ('fut', 'cb', 'pub', 'appfutcancel', 'enq')]
            if late:
                out.append(E.failure('activity-after-close', sc, mode=mode, step=j, what_happened=repr(late)[:200]))
                break
    res = getattr(sc, 'post_result', None) or {}
    if res:
        if res.get('late_sends'):
            out.append(E.failure('sends-after-close', sc, mode=mode, frames=res['late_sends']))
        if res.get('on_close_calls') != 1:
            out.append(E.failure('on_close-calls', sc, mode=mode, count=res.get('on_close_calls')))
        if res.get('table'):
            out.append(E.failure('streams-left-after-close', sc, mode=mode, sids=res['table']))
        if any(res.get('tasks', {}).values()):
            out.append(E.failure('tasks-alive-after-close', sc, mode=mode, tasks=res['tasks']))
        if res.get('pending_futures'):
            out.append(E.failure('request-left-hanging', sc, mode=mode, oids=res['pending_futures']))
        if res.get('escaped'):
            out.append(E.failure('exception-escaped', sc, mode=mode, detail=res['escaped']))
        if res.get('unsettled'):
            out.append(E.failure('busy-after-close', sc, mode=mode))
    return out


def _descs(ctx, n):
    return E.mk_descs(ctx.rng, n, hostile=0.0, with_close=True, steps=(2, 16), frag=0.2, race=0.4,
                      close_mode=lambda r: r.choice(['eof', 'error', 'close', 'cut']))


def correspond(ctx, corr, model_ok):
    n = ctx.scale(240, 2500)
    runs, crashed = E.run_all(_descs(ctx, n), post=after_close)
    corr.oracle_failures.extend(crashed)
    for sc in runs:
        corr.oracle_failures.extend(oracle(sc))
        corr.count('closed:' + str(getattr(sc, 'close_used', 'no')))
        snap = getattr(sc.rec, 'pre_close', None) or []
        corr.count('streams registered at the loss', len(snap))
        for ent in snap:
            corr.count('pending ' + ent['kind'])
    if model_ok:
        E.trace_corr(corr, runs, KEEP, KEYS, 'C11 close projection vs model/Endpoint.v')
    corr.rule = ('legal random histories of 2..16 actions ended by EOF / transport error / close() / mid-frame cut (also '
                 'racing a local cancel); the sweep is compared with the model and with the expectation computed from the real '
                 'stream table; then four keep-alive periods of virtual time')
    corr.samples = [repr(EP.steps_of_log(sc.rec.log)[-2:])[:400] for sc in runs[:3]]


def search(ctx, budget):
    import time
    t0 = time.time()
    found = []
    while time.time() - t0 < budget and not found:
        runs, crashed = E.run_all(_descs(ctx, 60), post=after_close)
        found.extend(crashed)
        for sc in runs:
            found.extend(oracle(sc))
    return found


def replay(obj):
    case = obj.get('case') or obj
    runs, crashed = E.run_all([case['scenario']], post=after_close)
    return bool(crashed) or any(oracle(sc) for sc in runs)
