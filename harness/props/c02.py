"""C02 — frame codec round trip, canonical bytes, backend independence.
Correspondence: model/Frame.v (encode, encode_prefixed, encode_partial, decode under both back ends) against
Frame.serialize, serialize_with_frame_size_header, the bytes the real TransportTCP writes, and parse_or_ignore
under cbitstruct and (in a subprocess with cbitstruct blocked) the native struct helpers; valid frame values
of all 14 types plus a malformed stream."""
import time

from harness import frames as FR
from harness.common import chunks, run_coq_cases

MODEL_TARGETS = ['model/Frame.vo', 'corr/C02Corr.vo', 'corr/Harness.vo']
ASSUMPTIONS = [
    'frame values are restricted to the wire format ranges (wf in model/Frame.v); METADATA_PUSH on stream 0',
    'SETUP frames whose MIME length byte is >= 128 (negative in Python, parser walks backwards) are outside the model: '
    'the model answers DUnmodelled and such malformed inputs are counted, not compared',
    'CPython struct / cbitstruct / bytes slicing are modelled; validated by this correspondence only',
]
HEADER = ('From Coq Require Import NArith List Init.Byte.\nFrom RSV Require Import lib.Bytes model.Frame corr.C02Corr '
          'corr.Harness.\nImport ListNotations.\nOpen Scope N_scope.\nDefinition chk := chk02.\n')
SHARD = 250


def _oracle_enc(fr, outn, outc):
    """C02's statement evaluated on the implementation's outputs."""
    if outn != outc:
        return 'native and cbitstruct back ends differ'
    if outc[0] != 'bytes':
        return 'serialize raised %s on an in-range frame value' % (outc[1],)
    _, ser, pre, tcp, parsed, reser = outc
    if parsed[0] != 'ok':
        return 'decoding the encoding gives %s' % (parsed[:2],)
    if parsed[1] != FR.norm(fr):
        diff = [k for k in fr if parsed[1].get(k) != FR.norm(fr).get(k)]
        return 'decode(encode f) differs from f in fields %s' % diff
    if reser != ser:
        return 're-encoding the decoded frame gives different bytes'
    if pre != len(ser).to_bytes(4, 'big')[1:] + ser:
        return 'length-prefixed encoding is not len3 ++ encoding'
    if tcp != pre:
        return 'incrementally written form differs from the one-shot length-prefixed encoding'
    return None


def _malformed(rng, n_frames):
    """byte strings for the decode-only stream: truncations at every offset, bit flips, junk."""
    bufs = []
    for _ in range(n_frames):
        fr = FR.gen_frame(rng, None, big=False)
        for k in ('md', 'd', 'token'):
            if k in fr and len(fr[k]) > 24:
                fr[k] = fr[k][:rng.randint(0, 24)]
        if fr['t'] == 'Setup':
            fr['mdenc'] = fr['mdenc'][:rng.choice([0, 3, 10])]
            fr['denc'] = fr['denc'][:rng.choice([0, 3, 10])]
            if fr['resume']:
                t = fr['resume'][1][:8]
                fr['resume'] = (len(t), t)
        try:
            ser = FR.build(fr).serialize()
        except Exception:
            continue
        kind = rng.random()
        if kind < 0.45:
            for cut in range(len(ser) + 1):
                bufs.append(('trunc', ser[:cut]))
        elif kind < 0.8:
            for _ in range(12):
                b = bytearray(ser)
                pos = rng.randrange(0, min(len(b), 24))
                b[pos] ^= 1 << rng.randrange(8)
                if rng.random() < 0.3:
                    b[4] |= 0x02  # ignore flag
                bufs.append(('flip', bytes(b)))
        else:
            b = bytearray(ser)
            b[4] = (rng.choice([0, 15, 16, 31, 63]) << 2) | (b[4] & 3)   # unknown frame type
            bufs.append(('unknown-type', bytes(b)))
            bufs.append(('extra', ser + bytes(rng.getrandbits(8) for _ in range(rng.randint(1, 9)))))
            b = bytearray(ser)
            b[0] |= 0x80   # reserved bit of the stream id
            bufs.append(('reserved-bit', bytes(b)))
    for _ in range(n_frames * 4):
        bufs.append(('random', bytes(rng.getrandbits(8) for _ in range(rng.choice([0, 1, 5, 6, 7, 10, 14, 18, 30])))))
    return bufs


def _cases(ctx, corr):
    rng = ctx.rng
    items = []      # (coq text, info)
    # ---- valid frame values
    n = ctx.scale(1500, 30000)
    envs, frs = [], []
    for i in range(n):
        env = FR.Env()
        t = FR.TYPES[i % 14] if i < 14 * 20 else None
        frs.append(FR.gen_frame(rng, env, t=t, big=(rng.random() < 0.04)))
        envs.append(env)
    jobs = [('enc', f) for f in frs]
    outn = FR.run_batch_backend(jobs, native=True)
    outc = FR.run_batch_backend(jobs, native=False)
    for fr, env, on, oc in zip(frs, envs, outn, outc):
        corr.evaluations += 1
        corr.count('enc:' + fr['t'])
        o = _oracle_enc(fr, on, oc)
        if o:
            corr.oracle_failures.append({'what': o, 'kind': 'enc', 'frame': fr})
        sz = len(fr.get('md', b'') or b'') + len(fr.get('d', b'') or b'')
        corr.count('payload>=256' if sz >= 256 else 'payload<256')
        corr.nontriv(('enc', repr(sorted(fr.items()))))
        if oc[0] != 'bytes' or on[0] != 'bytes':
            corr.disagreements.append({'what': 'serialize raised on a wf frame', 'frame': fr, 'impl': [on, oc]})
            continue
        txt = 'CEnc %s %s %s %s %s %s' % (FR.coq_frame(fr, env), FR.pbytes(oc[1], env), FR.pbytes(oc[2], env),
                                         FR.pbytes(oc[3], env), FR.coq_dres(on[4], env), FR.coq_dres(oc[4], env))
        items.append((txt, {'kind': 'enc', 'frame': fr, 'impl_native': on, 'impl_cbit': oc}))
        if len(corr.samples) < 2 and sz > 0:
            corr.samples.append({'frame': {k: (v.hex()[:40] if isinstance(v, bytes) else v) for k, v in fr.items()},
                                 'encoding_hex': oc[1].hex()[:80]})
    # ---- malformed stream
    bufs = _malformed(rng, ctx.scale(60, 1200))
    jobs = [('dec', b) for _, b in bufs]
    outn = FR.run_batch_backend(jobs, native=True)
    outc = FR.run_batch_backend(jobs, native=False)
    seen = set()
    for (kind, b), on, oc in zip(bufs, outn, outc):
        if b in seen:
            continue
        seen.add(b)
        corr.evaluations += 1
        corr.count('dec:' + kind)
        corr.count('dec-result:' + oc[0])
        corr.nontriv(('dec', b))
        rn = (on[0], on[1]) if on[0] == 'ok' else (on[0],)
        rc = (oc[0], oc[1]) if oc[0] == 'ok' else (oc[0],)
        if 'broken' in (on[0], oc[0]):
            corr.oracle_failures.append({'what': 'parse_or_ignore returned a frame object whose fields were never decoded '
                                                 '(%s)' % (oc[1:],), 'kind': 'dec', 'buf': b.hex()})
            continue
        if kind not in ('reserved-bit',) and rn != rc and not (len(b) >= 6 and b[0] & 0x80):
            # backend independence on arbitrary bytes is only required with the reserved bit clear; RESUME frames with
            # trailing bytes differ too (struct needs exactly 8 bytes for the last position) -- both are modelled
            corr.count('dec-backends-differ')
        txt = 'CDec %s %s %s' % (FR.pbytes(b), FR.coq_dres(rn), FR.coq_dres(rc))
        items.append((txt, {'kind': 'dec', 'buf': b.hex(), 'impl_native': rn, 'impl_cbit': rc}))
        if len(corr.samples) < 4 and kind == 'trunc' and len(b) > 8:
            corr.samples.append({'malformed': kind, 'bytes_hex': b.hex(), 'impl': rc[0]})
    return items


def correspond(ctx, corr, model_ok):
    corr.rule = ('frame values of all 14 types with boundary/random field values and payloads 0..70000 bytes -> real '
                 'serialize / serialize_with_frame_size_header / TransportTCP writer bytes / parse_or_ignore under both '
                 'back ends, compared with the model inside Coq; plus a malformed stream (every truncation offset, bit '
                 'flips in header and length fields, unknown types, trailing bytes, reserved bit, random bytes). '
                 'distinct = distinct frame value or byte string; all are non-trivial (each exercises a full '
                 'encode/decode)')
    items = _cases(ctx, corr)
    # the incrementally written form under back-pressure: many frames through one TCP transport whose writer queues by
    # reference, as a congested socket does
    for k in range(ctx.scale(40, 400)):
        env = FR.Env()
        frs = [FR.gen_frame(ctx.rng, env, big=False) for _ in range(ctx.rng.randint(2, 7))]
        got, want = FR.tcp_congested(frs)
        corr.evaluations += 1
        corr.count('congested TCP writer')
        if got != want:
            corr.oracle_failures.append({'what': 'frames written through one congested TCP transport are not the concatenation of '
                                                 'their one-shot encodings', 'kind': 'tcp-congested',
                                         'frames': [{kk: (v.hex() if isinstance(v, (bytes, bytearray)) else v) for kk, v in f.items()} for f in frs],
                                         'got_hex': got.hex()[:200], 'want_hex': want.hex()[:200]})
    if not model_ok:
        return
    shards = ['Definition cases : list case02 := [\n' + ';\n'.join(x[0] for x in ch) + '\n].'
              for ch in chunks(items, SHARD)]
    out = run_coq_cases(shards, HEADER, timeout=900)
    for si, (n, nf, idx) in enumerate(out):
        for i in idx:
            info = items[si * SHARD + i][1]
            corr.disagreements.append(dict(info, what='frame codec: implementation vs model/Frame.v'))


def search(ctx, budget_s):
    t0 = time.time()
    out = []
    rng = ctx.rng
    while time.time() - t0 < budget_s and not out:
        frs = [FR.gen_frame(rng, None, big=(rng.random() < 0.1)) for _ in range(300)]
        jobs = [('enc', f) for f in frs]
        outn = FR.run_batch_backend(jobs, native=True)
        outc = FR.run_batch_backend(jobs, native=False)
        for fr, on, oc in zip(frs, outn, outc):
            o = _oracle_enc(fr, on, oc)
            if o:
                out.append({'what': o, 'kind': 'enc', 'frame': fr})
                break
    return out


def _unhex(fr):
    return fr


def replay(obj):
    import ast
    case = obj['case']
    if case.get('kind') == 'tcp-congested':
        frs = []
        for f in case['frames']:
            g = {}
            for k, v in f.items():
                if k in ('md', 'd', 'token', 'mdenc', 'denc') and isinstance(v, str):
                    v = bytes.fromhex(v)
                if k == 'resume' and isinstance(v, list):
                    v = (v[0], bytes.fromhex(v[1]) if isinstance(v[1], str) else v[1])
                g[k] = v
            frs.append(g)
        got, want = FR.tcp_congested(frs)
        return got != want
    if case.get('kind') == 'dec':
        b = bytes.fromhex(case['buf'])
        rn = FR.run_batch_backend([('dec', b)], native=True)[0]
        rc = FR.run_batch_backend([('dec', b)], native=False)[0]
        bad = 'broken' in (rn[0], rc[0])
        if bad:
            print('oracle: parse_or_ignore returned a half-decoded frame', rn, rc)
        return bad
    fr = case['frame']
    # JSON turned bytes into repr strings
    for k, v in list(fr.items()):
        if isinstance(v, str) and v.startswith(("b'", 'b"')):
            fr[k] = ast.literal_eval(v)
        if k == 'resume' and isinstance(v, list):
            fr[k] = (v[0], ast.literal_eval(v[1]) if isinstance(v[1], str) else v[1])
    on = FR.run_batch_backend([('enc', fr)], native=True)[0]
    oc = FR.run_batch_backend([('enc', fr)], native=False)[0]
    o = _oracle_enc(fr, on, oc)
    if o:
        print('oracle:', o)
    return bool(o)
