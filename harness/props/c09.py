"""C09 — cancellation stops the stream at both ends.
Correspondence: legal random histories on a real endpoint with cancellation at every moment relative to the request,
credits, elements in flight and completion (including cancel in the same loop iteration as an incoming element, completion
or error, and cancel of a response future racing its CANCEL); the cancellation-related projection of the trace (CANCEL
frames, publisher/future cancellations, everything the application is told) is compared with the model's replay.
Oracle (the property): exactly one CANCEL per cancelled stream, nothing delivered to the canceller afterwards, the
peer's publisher / handler future is cancelled in the section that handles CANCEL, nothing is sent on the stream after.
Production stops: the library's four stream sources behind a real responder, CANCEL arriving in the same read as the request
(before any producer task ran) or any number of loop iterations later: the source is not pulled again and nothing more
is sent (model: C09_source_cancel_* over model/Publisher.v)."""
from harness import internals
import logging
import random

from harness import epcheck as E, endpoint as EP
from harness.ep_scenarios import Scenario

MODEL_TARGETS = E.MODEL_TARGETS
ASSUMPTIONS = [
    'application publishers and futures are recording doubles: "cancelled" means Subscription.cancel() / Future.cancel() '
    'was called on them by the library; that the library\'s own sources stop producing on cancel() is C06',
    'isolation (no other stream disturbed) is carried by the full-trace correspondence plus theorems '
    'C09_local_cancel_isolated / C09_peer_cancel_isolated',
]
KEEP, KEYS = 'keep_cancel', True


def oracle(sc):
    if not sc.legal:
        return []
    out = []
    steps = EP.steps_of_log(sc.rec.log)
    cancels_out = {}      # sid -> [step]
    for i, (lab, utf8, effs, tk, ck) in enumerate(steps):
        for e in effs:
            if e[0] == 'enq' and e[1]['t'] == 'Cancel':
                cancels_out.setdefault(e[1]['sid'], []).append(i)
    seen_cancel = set()
    for i, (lab, utf8, effs, tk, ck) in enumerate(steps):
        if lab[0] in ('cancel', 'futcancel'):
            oid = lab[1]
            if oid in seen_cancel or oid >= len(sc.rec.objs):
                continue
            seen_cancel.add(oid)
            obj = sc.rec.objs[oid]
            sid = obj.stream_id
            kind = E.kind_of(sc, oid)
            # was the interaction still pending?  (a terminal signal / resolution before the cancel makes it a no-op)
            before = [e for s in steps[:i] for e in s[2] if e[0] in ('cb', 'fut') and e[1] == oid]
            ended = any((e[0] == 'fut') or E.is_terminal(e[2]) for e in before)
            n = len(cancels_out.get(sid, []))
            if not ended:
                # the response, or the loss of the connection, overtook the done-callback: nothing left to cancel
                responded = lab[0] == 'futcancel' and any(
                    (s[0][0] == 'recv' and s[0][1]['sid'] == sid and s[0][1]['t'] in ('Payload', 'Error')) or s[0][0] == 'close'
                    for s in steps[i:i + 2])
                if n != 1 and not responded:
                    out.append(E.failure('cancel-frames-sent', sc, oid=oid, kind=kind, count=n, step=i))
                if n > 1:
                    out.append(E.failure('cancel-frames-sent', sc, oid=oid, kind=kind, count=n, step=i))
            after = [(j, e) for j, s in enumerate(steps[i:], i) for e in s[2] if e[0] in ('cb', 'fut') and e[1] == oid]
            if after:
                out.append(E.failure('delivered-after-cancel', sc, oid=oid, kind=kind, step=after[0][0],
                                     what_delivered=repr(after[0][1])[:120],
                                     sending_open=bool(internals.channel_direction_closed(obj, 'sent') is False)))
        elif lab[0] == 'recv' and lab[1]['t'] == 'Cancel':
            sid = lab[1]['sid']
            # which responder object had the stream at that moment?
            prev_tk = steps[i - 1][3] if i > 0 else []
            if sid not in (prev_tk or []):
                continue
            oid = next((k for k, o in enumerate(sc.rec.objs) if o.stream_id == sid and k in sc.rec.app), None)
            cands = [k for k, o in enumerate(sc.rec.objs) if o.stream_id == sid]
            oid = cands[-1] if cands else None
            if oid is None:
                continue
            kind = E.kind_of(sc, oid)
            app = sc.rec.app.get(oid, {})
            if kind == 'KRRResp':
                fut = app.get('fut')
                resolved_before = any(s[0][0] == 'appresolve' and s[0][1] == oid for s in steps[:i])
                if fut is not None and not resolved_before and not any(e[0] == 'appfutcancel' and e[1] == oid for e in effs):
                    out.append(E.failure('producer-not-cancelled', sc, oid=oid, kind=kind, step=i))
            elif kind in ('KRSResp', 'KChanResp', 'KChanReq'):
                if app.get('pub') is not None or kind == 'KRSResp':
                    if not any(e[0] == 'pub' and e[1] == oid and e[2][0] == 'cancel' for e in effs):
                        out.append(E.failure('producer-not-cancelled', sc, oid=oid, kind=kind, step=i))
    return out


def classify(case):
    return None


def _descs(ctx, n):
    return E.mk_descs(ctx.rng, n, hostile=0.0, with_close=lambda r: r.random() < 0.3, steps=(4, 18), frag=0.15, race=0.6)


def correspond(ctx, corr, model_ok):
    from harness import battery
    battery.run(corr, ['rx-take', 'partial-request-cancel'])
    n = ctx.scale(220, 2500)
    runs, crashed = E.run_all(_descs(ctx, n))
    corr.oracle_failures.extend(crashed)
    for sc in runs:
        corr.oracle_failures.extend(oracle(sc))
        corr.count('raced', sc.raced)
        for s in EP.steps_of_log(sc.rec.log):
            if s[0][0] in ('cancel', 'futcancel'):
                corr.count('local ' + s[0][0])
            elif s[0][0] == 'recv' and s[0][1]['t'] == 'Cancel':
                corr.count('CANCEL received')
    for case in source_cases(ctx, ctx.scale(120, 1500)):
        r = run_cancel_source(*case)
        corr.oracle_failures.extend(source_oracle(case, r))
        corr.count('source %s cancelled after %s iterations' % (case[0], 'no' if case[5] == 0 else '1-3' if case[5] < 4 else '4+'))
        corr.evaluations += 1
    corr.oracle_failures.extend(routed_oracle())
    corr.count('routed responder (future / task) cancelled', 4)
    from harness import battery as _b
    _b.run(corr, ['graphql-subscription'])
    from harness.props import c20
    corr.oracle_failures.extend(c20.disposal_oracle())
    corr.count('Rx clients: observer disposed at every moment (subscribing turn .. after the last element)', 78)
    if model_ok:
        E.trace_corr(corr, runs, KEEP, KEYS, 'C09 cancellation projection vs model/Endpoint.v')
    corr.rule = ('legal random histories with cancellation by either side at every moment (60% of local cancels share '
                 'their loop iteration with an incoming frame or the loss of the connection)')
    corr.samples = [repr(EP.steps_of_log(sc.rec.log)[:3])[:400] for sc in runs[:3]]


def search(ctx, budget):
    import time
    t0 = time.time()
    found = []
    while time.time() - t0 < budget and not found:
        runs, crashed = E.run_all(_descs(ctx, 60))
        found.extend(crashed)
        for sc in runs:
            found.extend(f for f in oracle(sc))
        for case in source_cases(ctx, 60):
            found.extend(source_oracle(case, run_cancel_source(*case)))
        found.extend(routed_oracle())
        found.extend(graphql_oracle())
        from harness.props import c20
        found.extend(c20.disposal_oracle())
    return found


def replay(obj):
    from harness import battery as _bat
    _r = _bat.replay(obj.get('case') if isinstance(obj.get('case'), dict) else obj)
    if _r is not None:
        return _r
    case = obj.get('case') or obj
    if 'routed_case' in case:
        return bool(routed_oracle())
    if 'graphql_case' in case:
        return bool(graphql_oracle())
    if 'rx_case' in case:
        from harness.props import c20
        return bool(c20.oracle(c20.run_case(case['rx_case'])))
    if 'source_case' in case:
        c = tuple(case['source_case'])
        return bool(source_oracle(c, run_cancel_source(*c)))
    runs, crashed = E.run_all([case['scenario']])
    return bool(crashed) or any(oracle(sc) for sc in runs)


KNOWN = {}


# ---------------------------------------------------------------------------------------------
# production stops: the library's own sources behind a real responder, CANCEL at every moment

SOURCES = ('gen', 'agen', 'rx4', 'rx3')


def run_cancel_source(kind, n_items, credit, channel, lenreq, ticks):
    """A server whose handler answers with a library source over a counting iterable.  The peer sends the request with
    `credit` and, `ticks` loop iterations later (0 = in the same read, before any producer task has run), CANCEL.
    Returns what happened after the CANCEL had been handled."""
    from rsocket.rsocket_server import RSocketServer
    from rsocket.request_handler import BaseRequestHandler
    from rsocket.payload import Payload
    from harness import sim, frames as FR
    from harness.props import c06
    loop = sim.new_loop()
    T = sim.make_transport_class()
    t = T(lenreq=lenreq)
    pulled = []
    box = {}

    def items():
        for i in range(n_items):
            pulled.append(i)
            yield i + 1

    def make():
        if kind == 'gen':
            from rsocket.streams.stream_from_generator import StreamFromGenerator

            def g():
                for v in items():
                    yield Payload(b'%d' % v), False
            return StreamFromGenerator(g)
        if kind == 'agen':
            from rsocket.streams.stream_from_async_generator import StreamFromAsyncGenerator

            async def g():
                for v in items():
                    yield Payload(b'%d' % v), False
            return StreamFromAsyncGenerator(g)
        if kind == 'rx4':
            import reactivex
            from reactivex import operators as ops
            from rsocket.reactivex.back_pressure_publisher import observable_to_publisher
            return observable_to_publisher(reactivex.from_iterable(items()).pipe(ops.map(lambda v: Payload(b'%d' % v))))
        import rx
        from rx import operators as ops
        from rsocket.rx_support.back_pressure_publisher import observable_to_publisher
        return observable_to_publisher(rx.from_iterable(items()).pipe(ops.map(lambda v: Payload(b'%d' % v))))

    class H(BaseRequestHandler):
        async def request_stream(self, payload):
            return make()

        async def request_channel(self, payload):
            return make(), c06.Rec()
    try:
        loop.run(lambda: box.setdefault('s', RSocketServer(t, handler_factory=H)))
        loop.settle()
        s = box['s']
        mark = {}
        orig = s._handle_next_frame

        async def wrapped(frame, table):
            r = await orig(frame, table)
            if type(frame).__name__ == 'CancelFrame':
                mark['pulled'] = len(pulled)
                mark['queued'] = internals.send_queue(s).qsize()
                mark['sent'] = len(t.sent)
            return r
        s._handle_next_frame = wrapped
        first = {'t': 'RequestChannel' if channel else 'RequestStream', 'sid': 1, 'ign': False, 'follows': False,
                 'n': credit, 'md': b'', 'd': b'x'}
        if channel:
            first['complete'] = False
        t.inject_frame(FR.build(first).serialize())
        for _ in range(ticks):
            loop.tick()
        t.inject_frame(FR.build({'t': 'Cancel', 'sid': 1, 'ign': False}).serialize())
        unsettled = False
        try:
            loop.settle()
        except RuntimeError:
            unsettled = True            # still busy after 400 iterations
        for _ in range(30):
            loop.tick()
        wire = [sim.parse_sent(b) for b in t.sent]
        after = wire[mark.get('sent', 0) + mark.get('queued', 0):] if mark else []
        return {'handled': bool(mark), 'pulled_after_cancel': len(pulled) - mark.get('pulled', 0),
                'frames_after_cancel': [(f.get('t'), f.get('sid')) for f in after if f.get('sid') == 1],
                'pulled_total': len(pulled), 'errors': [f for f in wire if f.get('t') == 'Error'],
                'registered': 1 in s._stream_control._streams, 'escaped': list(loop.exceptions), 'unsettled': unsettled}
    finally:
        loop.finish()


def source_cases(ctx, n):
    rng = ctx.rng
    out = []
    for kind in SOURCES:
        for ticks in (0, 0, 1, 2, 3):
            out.append((kind, 50, 0x7FFFFFFF, False, False, ticks))
    while len(out) < n:
        out.append((rng.choice(SOURCES), rng.choice([1, 5, 50, 400]), rng.choice([1, 2, 7, 100, 0x7FFFFFFF]),
                    rng.random() < 0.4, rng.random() < 0.5, rng.choice([0, 0, 1, 2, 3, 4, 6, 9, 15])))
    return out


def source_oracle(case, r):
    kind, n_items, credit, channel, lenreq, ticks = case
    out = []
    base = {'what': None, 'source_case': list(case)}
    if not r['handled']:
        out.append(dict(base, what='cancel-not-handled'))
    if r['unsettled']:
        out.append(dict(base, what='still-busy-400-iterations-after-cancel'))
    if r['pulled_after_cancel'] > 0:
        out.append(dict(base, what='source-pulled-after-cancel', count=r['pulled_after_cancel']))
    if kind in ('gen', 'agen') and n_items >= 50 and credit >= n_items and r['pulled_total'] > 4 * ticks + 8:
        # the generator sources hand the loop back between elements, so a CANCEL arriving `ticks` iterations after the request
        # finds about that many elements produced; a source that runs through its whole credit in one go cannot be stopped
        # at any moment in between (generous bound: small batches are fine, the whole credit is not)
        out.append(dict(base, what='source-ran-through-its-credit-before-the-cancel-could-be-handled',
                        pulled=r['pulled_total'], iterations_before_cancel=ticks))
    if r['frames_after_cancel']:
        out.append(dict(base, what='frames-after-cancel', frames=r['frames_after_cancel'][:5]))
    if r['errors']:
        out.append(dict(base, what='error-frame-on-cancel', frames=repr(r['errors'][:2])[:200]))
    if r['escaped']:
        out.append(dict(base, what='exception-escaped-on-cancel', detail=r['escaped'][:2]))
    if r['registered'] and not channel:
        out.append(dict(base, what='stream-still-registered-after-cancel'))
    return out


# ---------------------------------------------------------------------------------------------
# the routed responder: a route that answers with a still-pending Task / Future is cancelled by CANCEL

def run_routed_cancel(kind, lenreq):
    """server = RoutingRequestHandler over a RequestRouter; route 'slow' returns a pending Future (kind='future') or a
    Task (kind='task'); the peer sends the request, CANCEL, and then a request for route 'fast' on another stream."""
    import asyncio
    from harness import sim, frames as FR
    from rsocket.rsocket_server import RSocketServer
    from rsocket.routing.request_router import RequestRouter
    from rsocket.routing.routing_request_handler import RoutingRequestHandler
    from rsocket.extensions.helpers import composite, route
    from rsocket.helpers import create_response
    loop = sim.new_loop()
    T = sim.make_transport_class()
    t = T(lenreq=lenreq)
    router = RequestRouter()
    state = {'started': False, 'cancelled': False, 'finished': False}

    async def work():
        state['started'] = True
        try:
            await asyncio.sleep(1000)
            state['finished'] = True
            from rsocket.payload import Payload
            return Payload(b'slow answer')
        except asyncio.CancelledError:
            state['cancelled'] = True
            raise

    @router.response('slow')
    async def slow():
        if kind == 'task':
            return asyncio.ensure_future(work())
        f = asyncio.get_event_loop().create_future()
        state['fut'] = f
        return f

    @router.response('fast')
    async def fast():
        return create_response(b'fast answer')
    try:
        loop.run(lambda: RSocketServer(t, handler_factory=lambda: RoutingRequestHandler(router)))
        loop.settle()
        t.inject_frame(FR.build({'t': 'Setup', 'sid': 0, 'ign': False, 'lease': False, 'major': 1, 'minor': 0, 'ka': 100000,
                                 'ml': 500000, 'resume': None, 'mdenc': b'message/x.rsocket.composite-metadata.v0',
                                 'denc': b'application/octet-stream', 'md': b'', 'd': b''}).serialize())
        loop.settle()
        t.inject_frame(FR.build({'t': 'RequestResponse', 'sid': 1, 'ign': False, 'follows': False,
                                 'md': bytes(composite(route('slow'))), 'd': b'q'}).serialize())
        for _ in range(3):
            loop.tick()
        t.inject_frame(FR.build({'t': 'Cancel', 'sid': 1, 'ign': False}).serialize())
        t.inject_frame(FR.build({'t': 'RequestResponse', 'sid': 3, 'ign': False, 'follows': False,
                                 'md': bytes(composite(route('fast'))), 'd': b'q2'}).serialize())
        loop.settle()
        wire = [sim.parse_sent(b) for b in t.sent]
        fut = state.get('fut')
        return {'producer_cancelled': state['cancelled'] if kind == 'task' else (fut is not None and fut.cancelled()),
                'frames_on_cancelled_stream': [w['t'] for w in wire if w.get('sid') == 1],
                'fast_answered': any(w.get('sid') == 3 and w['t'] == 'Payload' and w.get('d') == b'fast answer' for w in wire),
                'escaped': list(loop.exceptions)[:2]}
    finally:
        loop.finish()


def routed_oracle():
    out = []
    for kind in ('future', 'task'):
        for lenreq in (True, False):
            r = run_routed_cancel(kind, lenreq)
            if not r['producer_cancelled'] or r['frames_on_cancelled_stream'] or not r['fast_answered'] or r['escaped']:
                out.append({'what': 'routed-responder-not-cancelled', 'routed_case': [kind, lenreq], 'detail': repr(r)[:300]})
    return out


# ---------------------------------------------------------------------------------------------
# the GraphQL wrapper (rsocket.graphql): a subscription is a request-stream; a consumer that stops iterating cancels it

def run_graphql_break(stop_after):
    import asyncio
    from gql import Client, gql
    from graphql import build_schema
    from rsocket.extensions.mimetypes import WellKnownMimeTypes
    from rsocket.frame import FrameType
    from rsocket.graphql.rsocket_transport import RSocketTransport
    from rsocket.graphql.server_helper import graphql_handler
    from rsocket.helpers import single_transport_provider
    from rsocket.routing.routing_request_handler import RoutingRequestHandler
    from rsocket.rsocket_client import RSocketClient
    from rsocket.rsocket_server import RSocketServer
    from rsocket.transports.transport import Transport
    state = {'produced': 0, 'stopped': False}
    wire = []

    class Pipe(Transport):
        def __init__(self, name):
            super().__init__()
            self.name, self.inq, self.peer = name, asyncio.Queue(), None

        async def send_frame(self, frame):
            wire.append((self.name, frame.frame_type, frame.stream_id))
            self.peer.inq.put_nowait(frame.serialize())
            await asyncio.sleep(0)

        async def next_frame_generator(self):
            data = await self.inq.get()
            if data is None:
                return None
            return self._frame_parser.receive_data(data, 0)

        async def close(self):
            self.inq.put_nowait(None)

    def greetings(*args):
        async def results():
            try:
                for i in range(100000):
                    state['produced'] += 1
                    yield {'greetings': {'message': 'Hello %d' % i}}
                    await asyncio.sleep(0.002)
            finally:
                state['stopped'] = True
        return results()

    async def main():
        schema = build_schema('type Query { greeting: Greeting }\ntype Subscription { greetings: Greeting }\ntype Greeting { message: String }')
        schema.subscription_type.fields['greetings'].subscribe = greetings
        a, b = Pipe('client'), Pipe('server')
        a.peer, b.peer = b, a
        server = RSocketServer(b, handler_factory=lambda: RoutingRequestHandler(graphql_handler(schema, 'graphql')))
        client = RSocketClient(single_transport_provider(a), metadata_encoding=WellKnownMimeTypes.MESSAGE_RSOCKET_COMPOSITE_METADATA)
        await client.connect()
        g = Client(schema=schema, transport=RSocketTransport(client))
        got = []
        results = g.subscribe_async(document=gql('subscription { greetings {message} }'))
        async for r in results:
            got.append(r)
            if len(got) == stop_after:
                break
        await results.aclose()
        for _ in range(60):                  # the cancellation needs a few loop turns, however loaded the machine is
            await asyncio.sleep(0.03)
            if state['stopped']:
                break
        p1 = state['produced']
        await asyncio.sleep(0.1)
        res = {'got': len(got), 'cancels': [sid for (n, ty, sid) in wire if n == 'client' and ty is FrameType.CANCEL],
               'stopped': state['stopped'], 'still_producing': state['produced'] != p1,
               'open': [sorted(server._stream_control._streams), sorted(client._stream_control._streams)]}
        await client.close()
        await server.close()
        return res
    return asyncio.run(main())


def graphql_oracle():
    out = []
    try:
        import gql      # noqa: F401  (optional dependency of the library; nothing to check without it)
        import graphql  # noqa: F401
    except ImportError:
        return out
    old = logging.root.manager.disable
    logging.disable(logging.CRITICAL)
    try:
        for stop_after in (1, 3):
            r = run_graphql_break(stop_after)
            bad = []
            if r['cancels'] != [1]:
                bad.append('CANCEL frames sent: %s' % r['cancels'])
            if not r['stopped'] or r['still_producing']:
                bad.append('the source on the peer keeps producing')
            if r['open'] != [[], []]:
                bad.append('streams still registered (server, client): %s' % r['open'])
            if bad:
                out.append({'what': 'GraphQL subscription abandoned after %d results: %s' % (stop_after, '; '.join(bad)),
                            'graphql_case': stop_after})
    finally:
        logging.disable(old)
    return out
