"""C09 — cancellation stops the stream at both ends.
Correspondence: legal random histories on a real endpoint with cancellation at every moment relative to the request,
credits, elements in flight and completion (including cancel in the same loop iteration as an incoming element, completion
or error, and cancel of a response future racing its CANCEL); the cancellation-related projection of the trace (CANCEL
frames, publisher/future cancellations, everything the application is told) is compared with the model's replay.
Oracle (the property): exactly one CANCEL per cancelled stream, nothing delivered to the canceller afterwards, the
peer's publisher / handler future is cancelled in the section that handles CANCEL, nothing is sent on the stream after.
That production then actually stops for the library's stream sources is C06 (cancel theorems + correspondence)."""
import random

from harness import epcheck as E, endpoint as EP
from harness.ep_scenarios import Scenario

MODEL_TARGETS = E.MODEL_TARGETS
ASSUMPTIONS = [
    'application publishers and futures are recording doubles: "cancelled" means Subscription.cancel() / Future.cancel() '
    'was called on them by the library; that the library\'s own sources stop producing on cancel() is C06',
    'isolation (no other stream disturbed) is carried by the full-trace correspondence plus theorems '
    'C09_local_cancel_isolated / C09_peer_cancel_isolated',
]
KEEP, KEYS = 'keep_cancel', True


def oracle(sc):
    if not sc.legal:
        return []
    out = []
    steps = EP.steps_of_log(sc.rec.log)
    cancels_out = {}      # sid -> [step]
    for i, (lab, utf8, effs, tk, ck) in enumerate(steps):
        for e in effs:
            if e[0] == 'enq' and e[1]['t'] == 'Cancel':
                cancels_out.setdefault(e[1]['sid'], []).append(i)
    seen_cancel = set()
    for i, (lab, utf8, effs, tk, ck) in enumerate(steps):
        if lab[0] in ('cancel', 'futcancel'):
            oid = lab[1]
            if oid in seen_cancel or oid >= len(sc.rec.objs):
                continue
            seen_cancel.add(oid)
            obj = sc.rec.objs[oid]
            sid = obj.stream_id
            kind = E.kind_of(sc, oid)
            # was the interaction still pending?  (a terminal signal / resolution before the cancel makes it a no-op)
            before = [e for s in steps[:i] for e in s[2] if e[0] in ('cb', 'fut') and e[1] == oid]
            ended = any((e[0] == 'fut') or E.is_terminal(e[2]) for e in before)
            n = len(cancels_out.get(sid, []))
            if not ended:
                # the response, or the loss of the connection, overtook the done-callback: nothing left to cancel
                responded = lab[0] == 'futcancel' and any(
                    (s[0][0] == 'recv' and s[0][1]['sid'] == sid and s[0][1]['t'] in ('Payload', 'Error')) or s[0][0] == 'close'
                    for s in steps[i:i + 2])
                if n != 1 and not responded:
                    out.append(E.failure('cancel-frames-sent', sc, oid=oid, kind=kind, count=n, step=i))
                if n > 1:
                    out.append(E.failure('cancel-frames-sent', sc, oid=oid, kind=kind, count=n, step=i))
            after = [(j, e) for j, s in enumerate(steps[i:], i) for e in s[2] if e[0] in ('cb', 'fut') and e[1] == oid]
            if after:
                out.append(E.failure('delivered-after-cancel', sc, oid=oid, kind=kind, step=after[0][0],
                                     what_delivered=repr(after[0][1])[:120],
                                     sending_open=bool(getattr(obj, '_sent_complete', True) is False)))
        elif lab[0] == 'recv' and lab[1]['t'] == 'Cancel':
            sid = lab[1]['sid']
            # which responder object had the stream at that moment?
            prev_tk = steps[i - 1][3] if i > 0 else []
            if sid not in (prev_tk or []):
                continue
            oid = next((k for k, o in enumerate(sc.rec.objs) if o.stream_id == sid and k in sc.rec.app), None)
            cands = [k for k, o in enumerate(sc.rec.objs) if o.stream_id == sid]
            oid = cands[-1] if cands else None
            if oid is None:
                continue
            kind = E.kind_of(sc, oid)
            app = sc.rec.app.get(oid, {})
            if kind == 'KRRResp':
                fut = app.get('fut')
                resolved_before = any(s[0][0] == 'appresolve' and s[0][1] == oid for s in steps[:i])
                if fut is not None and not resolved_before and not any(e[0] == 'appfutcancel' and e[1] == oid for e in effs):
                    out.append(E.failure('producer-not-cancelled', sc, oid=oid, kind=kind, step=i))
            elif kind in ('KRSResp', 'KChanResp', 'KChanReq'):
                if app.get('pub') is not None or kind == 'KRSResp':
                    if not any(e[0] == 'pub' and e[1] == oid and e[2][0] == 'cancel' for e in effs):
                        out.append(E.failure('producer-not-cancelled', sc, oid=oid, kind=kind, step=i))
    return out


def classify(case):
    if case.get('what') == 'delivered-after-cancel' and case.get('kind') in ('KChanReq', 'KChanResp') and case.get('sending_open'):
        return 'KF-C09-channel-cancel-inflight'
    return None


def _descs(ctx, n):
    return E.mk_descs(ctx.rng, n, hostile=0.0, with_close=lambda r: r.random() < 0.3, steps=(4, 18), frag=0.15, race=0.6)


def correspond(ctx, corr, model_ok):
    n = ctx.scale(220, 2500)
    runs, crashed = E.run_all(_descs(ctx, n))
    corr.oracle_failures.extend(crashed)
    for sc in runs:
        corr.oracle_failures.extend(oracle(sc))
        corr.count('raced', sc.raced)
        for s in EP.steps_of_log(sc.rec.log):
            if s[0][0] in ('cancel', 'futcancel'):
                corr.count('local ' + s[0][0])
            elif s[0][0] == 'recv' and s[0][1]['t'] == 'Cancel':
                corr.count('CANCEL received')
    if model_ok:
        E.trace_corr(corr, runs, KEEP, KEYS, 'C09 cancellation projection vs model/Endpoint.v')
    corr.rule = ('legal random histories with cancellation by either side at every moment (60% of local cancels share '
                 'their loop iteration with an incoming frame or the loss of the connection)')
    corr.samples = [repr(EP.steps_of_log(sc.rec.log)[:3])[:400] for sc in runs[:3]]


def search(ctx, budget):
    import time
    t0 = time.time()
    found = []
    while time.time() - t0 < budget and not found:
        runs, crashed = E.run_all(_descs(ctx, 60))
        found.extend(crashed)
        for sc in runs:
            found.extend(f for f in oracle(sc))
    return found


def replay(obj):
    case = obj.get('case') or obj
    runs, crashed = E.run_all([case['scenario']])
    return bool(crashed) or any(oracle(sc) for sc in runs)


def known_channel_cancel_inflight():
    """requester channel with an open local publisher: cancel(), then an element still in flight is delivered"""
    sc = Scenario(random.Random(7), role='client', lenreq=False, with_close=False, steps=0)
    sc.desc = {'fixed': 'channel cancel with an element in flight'}
    try:
        sc.do_channel(hp=True, hs=True)
        obj = sc.mine[0]['obj']
        sid = sc.mine[0]['sid']
        sc.rec.label('cancel', 0)
        sc.rec.act(lambda: obj.cancel())
        sc.rec.settle()
        n0 = len(sc.rec.log)
        sc._inject({'t': 'Payload', 'sid': sid, 'ign': False, 'follows': False, 'complete': False, 'next': True,
                    'md': b'', 'd': b'inflight'})
        return any(x[0] == 'eff' and x[1] == 'cb' for x in sc.rec.log[n0:])
    finally:
        sc.rec.finish()


KNOWN = {'KF-C09-channel-cancel-inflight': known_channel_cancel_inflight}
