"""C13 — stream ids.  Correspondence: real rsocket.stream_control.StreamControl vs model/StreamIds.v
on histories of allocate / allocate+register / register / finish; oracle = the property's
predicates on the implementation's returned ids against a reference set."""
import itertools

from harness.common import cN, clist, copt, chunks, run_coq_cases

MODEL_TARGETS = ['model/StreamIds.vo', 'corr/C13Corr.vo', 'corr/Harness.vo', 'model/Endpoint.vo', 'corr/EndpointCorr.vo']
ASSUMPTIONS = [
    'StreamControl is driven only through allocate_stream/register_stream/finish_stream (as RSocketBase does)',
    'the reduced id spaces are obtained as the suite does, by lowering _maximum_stream_id after construction',
]
HEADER = ('From Coq Require Import NArith List.\nFrom RSV Require Import model.StreamIds corr.C13Corr corr.Harness.\n'
          'Import ListNotations.\nOpen Scope N_scope.\nDefinition chk := chk13.\n')


def _impl(case):
    """Run one case on the real StreamControl.  case = dict(m, first, cur0, ops)."""
    from rsocket.stream_control import StreamControl
    from rsocket.exceptions import RSocketStreamAllocationFailure
    sc = StreamControl(case['first'])
    sc._maximum_stream_id = (1 << case['m']) - 1
    if case['cur0'] is not None:
        sc._current_stream_id = case['cur0']
    res = []
    ref_active_before = []   # active set before each op (for the oracle)
    for op in case['ops']:
        ref_active_before.append(sorted(sc._streams))
        k = op[0]
        if k in ('A', 'AR'):
            try:
                i = sc.allocate_stream()
                res.append(('id', i))
                if k == 'AR':
                    try:
                        sc.register_stream(i, object())
                    except RuntimeError:
                        pass   # e.g. id 0 handed out: reported by the oracle
            except RSocketStreamAllocationFailure:
                res.append(('fail',))
        elif k == 'R':
            try:
                sc.register_stream(op[1], object())
                res.append(('ok',))
            except RuntimeError:
                res.append(('err',))
        elif k == 'F':
            sc.finish_stream(op[1])
            res.append(('ok',))
    return res, sc._current_stream_id, sorted(sc._streams), ref_active_before


def _oracle(case, res, before):
    """The property itself, on the implementation's outputs."""
    m, first = case['m'], case['first']
    M = 1 << m
    cur = case['cur0'] if case['cur0'] is not None else (first - 2) & 0x7FFFFFFF
    for op, r, act in zip(case['ops'], res, before):
        if op[0] in ('A', 'AR'):
            free = [x for x in range(first % 2, M, 2) if x != 0 and x not in act] if m <= 12 else None
            if r[0] == 'id':
                i = r[1]
                if i == 0:
                    return 'allocated id 0'
                if i % 2 != first % 2:
                    return 'allocated id %d has wrong parity' % i
                if i in act:
                    return 'allocated id %d is still active' % i
                if not (0 < i < M):
                    return 'allocated id %d out of range' % i
                # first free id in cyclic +2 order after cur
                c = cur
                for _ in range(M if m <= 12 else 4096):
                    c = (c + 2) & (M - 1)
                    if c != 0 and c not in act:
                        break
                if c != i:
                    return 'allocated id %d is not the next free id %d after %d' % (i, c, cur)
                cur = i
            else:
                if free is not None and free:
                    return 'allocation failed although ids %s are free' % free[:4]
                if free is None:
                    return 'allocation failed in the 31-bit space'
                # cur advances a full cycle
                cur = (cur + 2 * (((M - 1) // 2) + 1)) & (M - 1)
    return None


def _coq_case(case, res, cur, act):
    ops = []
    for op in case['ops']:
        ops.append({'A': 'OAlloc', 'AR': 'OAllocReg'}.get(op[0]) or
                   ('ORegister %s' % cN(op[1]) if op[0] == 'R' else 'OFinish %s' % cN(op[1])))
    rs = []
    for r in res:
        rs.append({'fail': 'RFail', 'ok': 'ROk', 'err': 'RErr'}.get(r[0]) or 'RId %s' % cN(r[1]))
    return '(%s, %s, %s, %s, %s, %s, %s)' % (
        cN(case['m']), cN(case['first']), copt(case['cur0'], cN), clist(ops), clist(rs), cN(cur),
        clist([cN(a) for a in act]))


def _gen_cases(ctx):
    cases = []
    # exhaustive: every history of length L over the reduced space m = 3, both parities
    L = ctx.scale(4, 5)
    for first in (1, 2):
        ids = [x for x in range(first % 2, 8, 2) if x != 0]
        other = 2 if first == 1 else 3
        alphabet = [('A',), ('AR',)] + [('F', i) for i in ids] + [('R', other), ('R', 0)]
        for ops in itertools.product(alphabet, repeat=L):
            cases.append({'m': 3, 'first': first, 'cur0': None, 'ops': list(ops), 'kind': 'exh-m3'})
    n_exh = len(cases)
    rng = ctx.rng
    # random long histories on m = 2, 4, 7 (wraps many times; fills the space)
    for _ in range(ctx.scale(300, 3000)):
        m = rng.choice([2, 4, 4, 7, 7])
        first = rng.choice([1, 2])
        M = 1 << m
        n = rng.randint(5, ctx.scale(120, 400))
        p_alloc = rng.choice([0.5, 0.7, 0.9])
        ops = []
        for _ in range(n):
            x = rng.random()
            if x < p_alloc:
                ops.append(('AR',) if rng.random() < 0.85 else ('A',))
            elif x < p_alloc + 0.08:
                ops.append(('R', rng.choice([0, M, M + 1, rng.randrange(1, M)])))
            else:
                ops.append(('F', rng.randrange(0, M)))
        cases.append({'m': m, 'first': first, 'cur0': None, 'ops': ops, 'kind': 'rand-m%d' % m})
    # production width near the wrap
    for _ in range(ctx.scale(60, 600)):
        first = rng.choice([1, 2])
        top = 0x7FFFFFFF
        start = (top - rng.randrange(0, 40))
        if start % 2 != first % 2:
            start -= 1
        pre = [('R', x) for x in rng.sample(range(1, 30), rng.randint(0, 12))]
        ops = pre + [rng.choice([('AR',), ('AR',), ('A',), ('F', rng.randrange(1, 30))])
                     for _ in range(rng.randint(3, 40))]
        cases.append({'m': 31, 'first': first, 'cur0': start, 'ops': ops, 'kind': 'wrap-m31'})
    # fresh endpoints at production width
    for first in (1, 2):
        cases.append({'m': 31, 'first': first, 'cur0': None, 'ops': [('AR',)] * 5 + [('F', 3), ('AR',)],
                      'kind': 'fresh-m31'})
    return cases, n_exh


def correspond(ctx, corr, model_ok):
    cases, n_exh = _gen_cases(ctx)
    corr.rule = ('histories of allocate / allocate+register / register(id) / finish(id) on the real StreamControl: '
                 'ALL histories of length %d over the 3-bit id space for both parities (exhaustive), random histories '
                 'up to %d ops on 2/4/7-bit spaces, and the 31-bit space with the current id preset near the wrap; '
                 'non-trivial = the history wraps the id space, skips an active id, or fails allocation; distinct by '
                 '(width, parity, ops)') % (ctx.scale(4, 5), ctx.scale(120, 400))
    corr.exhaustive = True
    corr.extra['exhaustive_window'] = '%d histories: all op sequences of length %d over m=3' % (n_exh, ctx.scale(4, 5))
    lines = []
    for case in cases:
        res, cur, act, before = _impl(case)
        corr.evaluations += 1
        corr.count(case['kind'])
        o = _oracle(case, res, before)
        if o:
            corr.oracle_failures.append({'what': o, 'input': case})
        wrapped = False
        prev = None
        for r, b in zip(res, before):
            if r[0] == 'fail':
                wrapped = True
            if r[0] == 'id':
                if prev is not None and (r[1] < prev or r[1] != prev + 2):
                    wrapped = True
                prev = r[1]
        if wrapped:
            corr.nontriv((case['m'], case['first'], case['cur0'], tuple(case['ops'])))
        if len(corr.samples) < 3 and wrapped and case['kind'] != 'exh-m3':
            corr.samples.append({'input': {k: case[k] for k in ('m', 'first', 'cur0')}, 'ops': case['ops'][:12],
                                 'impl_results': res[:12]})
        lines.append((_coq_case(case, res, cur, act), case))
    _dups(corr, model_ok)
    ne = ctx.scale(60, 1500)
    corr.oracle_failures.extend(endpoint_ids_oracle(ctx.rng, ne))
    corr.count('endpoint: ids on the request frames of all four request APIs, small id spaces with wrap', ne)
    corr.evaluations += ne
    if not model_ok:
        return
    shards = ['Definition cases : list case13 := [\n' + ';\n'.join(x[0] for x in ch) + '\n].'
              for ch in chunks(lines, 500)]
    out = run_coq_cases(shards, HEADER)
    for si, (n, nf, idx) in enumerate(out):
        for i in idx:
            case = lines[si * 500 + i][1]
            res, cur, act, _ = _impl(case)
            corr.disagreements.append({'what': 'StreamControl vs model/StreamIds.v', 'input': case,
                                       'impl': {'results': res, 'current': cur, 'active': act}})


# ---- a request frame that re-uses the id of a stream which is still active is rejected (all 4 x 4 type pairs) ----
REQT = ('RequestResponse', 'RequestStream', 'RequestChannel', 'RequestFnf')


def dup_scenario(first, second, role, lenreq, fragmented=False):
    """peer opens stream s with `first`, then sends `second` on the same id; afterwards the original stream is used"""
    import random
    from harness.ep_scenarios import Scenario
    sc = Scenario(random.Random(1), role=role, lenreq=lenreq, with_close=False, steps=0)
    sc.desc = {'dup': [first, second, role, lenreq]}
    sid = sc.peer_next
    out = {'RequestResponse': ('future',), 'RequestStream': ('publisher',), 'RequestChannel': ('channel', True, True),
           'RequestFnf': ('none',)}

    def fr(t, tag):
        f = {'t': t, 'sid': sid, 'ign': False, 'follows': False, 'md': b'', 'd': tag}
        if t in ('RequestStream', 'RequestChannel'):
            f['n'] = 3
        if t == 'RequestChannel':
            f['complete'] = False
        return f
    try:
        sc._inject(fr(first, b'first'), out[first])
        n0 = len(sc.rec.log)
        objs0 = len(sc.rec.objs)
        if fragmented:
            # the re-using request arrives in two fragments: its head (FOLLOWS set) and a PAYLOAD continuation
            head = dict(fr(second, b'second-head'), follows=True)
            sc._inject(head, out[second])
            sc._inject({'t': 'Payload', 'sid': sid, 'ign': False, 'follows': False, 'complete': False, 'next': True,
                        'md': b'', 'd': b'-tail'}, out[second])
        else:
            sc._inject(fr(second, b'second'), out[second])
        after = sc.rec.log[n0:]
        res = {'handler_called_again': any(x[0] == 'eff' and x[1] == 'handler' for x in after),
               'new_object': len(sc.rec.objs) > objs0,
               'answers': [x[2] for x in after if x[0] == 'eff' and x[1] == 'enq'],
               'signals_to_first': [x for x in after if x[0] == 'eff' and x[1] in ('cb', 'fut', 'pub')],
               'first_registered': first != 'RequestFnf'}
        # the original stream still belongs to the first handler object
        if first != 'RequestFnf':
            h = sc.rec.ep._stream_control._streams.get(sid)
            res['still_first'] = h is not None and getattr(h, '_verif_oid', None) == 0
        sc.rec.settle()
    finally:
        sc.rec.finish()
    return sc, res


def dup_oracle(first, second, res):
    if not res['first_registered']:
        return None          # fire-and-forget registers nothing: the id is free again
    a = res['answers']
    ok = (len(a) == 1 and a[0]['t'] == 'Error' and a[0]['sid'] != 0 and a[0]['code'] == 0x202
          and not res['handler_called_again'] and not res['new_object'] and res.get('still_first')
          and not res.get('signals_to_first'))
    return None if ok else 'request on an id in use not rejected: %r' % (res,)


def _dups(corr, model_ok):
    from harness import epcheck as E
    runs = []
    for first in REQT:
        for second in REQT:
            for role in ('server', 'client'):
                sc, res = dup_scenario(first, second, role, first == second)
                o = dup_oracle(first, second, res)
                corr.evaluations += 1
                corr.count('duplicate-id %s then %s' % (first, second))
                if o:
                    corr.oracle_failures.append({'what': o, 'dup': [first, second, role, first == second]})
                runs.append(sc)
                sc2, res2 = dup_scenario(first, second, role, first != second, fragmented=True)
                o2 = dup_oracle(first, second, res2)
                corr.evaluations += 1
                corr.count('duplicate-id, re-using request fragmented')
                if o2:
                    corr.oracle_failures.append({'what': 'fragmented ' + o2, 'dup': [first, second, role, first != second, True]})
                runs.append(sc2)
    if model_ok:
        E.trace_corr(corr, runs, 'keep_all', True, 'duplicate stream id: endpoint vs model/Endpoint.v')


# ---- the ids the ENDPOINT puts on its request frames (every request API, not only the allocator it is meant to use) ----
def run_endpoint_ids(role, m, script):
    """script: list of 'rr' | 'rs' | 'rc' | 'fnf' | ('end', k): requests of all kinds on a real endpoint whose id space is
    m bits; streams stay open unless ended (the peer answers stream number k).  Returns [(kind, id on the wire, ids active
    at that moment)] and the ids for which the call was refused."""
    import asyncio
    from datetime import timedelta
    from harness import sim, frames as FR
    from rsocket.rsocket_client import RSocketClient
    from rsocket.rsocket_server import RSocketServer
    from rsocket.helpers import single_transport_provider
    from rsocket.payload import Payload
    from reactivestreams.subscriber import DefaultSubscriber
    loop = sim.new_loop()
    sim.patch_clock(loop)
    T = sim.make_transport_class()
    t = T(lenreq=True)
    box = {}
    try:
        def mk():
            if role == 'client':
                box['e'] = RSocketClient(single_transport_provider(t), keep_alive_period=timedelta(seconds=1000),
                                         max_lifetime_period=timedelta(seconds=5000))
                asyncio.create_task(box['e'].connect())
            else:
                box['e'] = RSocketServer(t)
        loop.run(mk)
        loop.settle()
        ep = box['e']
        ep._stream_control._maximum_stream_id = (1 << m) - 1
        out, refused, opened = [], 0, []
        for step in script:
            seen = len(t.sent)
            active = sorted(ep._stream_control._streams)
            if step == 'sweep':
                # the public stop_all_streams() on a live connection: local streams are failed, the PEER still has them, the
                # numbering goes on
                loop.run(lambda: ep.stop_all_streams())
                loop.settle()
                out.append(('sweep', None, []))
                continue
            if isinstance(step, tuple):
                if step[1] < len(opened):
                    kind, sid = opened[step[1]]
                    if sid in ep._stream_control._streams:
                        t.inject_frame(FR.build({'t': 'Payload', 'sid': sid, 'ign': False, 'follows': False, 'complete': True,
                                                 'next': True, 'md': b'', 'd': b'x'}).serialize())
                        loop.settle()
                continue
            try:
                if step == 'rr':
                    loop.run(lambda: ep.request_response(Payload(b'x')))
                elif step == 'rs':
                    loop.run(lambda: ep.request_stream(Payload(b'x')).subscribe(DefaultSubscriber()))
                elif step == 'rc':
                    loop.run(lambda: ep.request_channel(Payload(b'x')).subscribe(DefaultSubscriber()))
                else:
                    loop.run(lambda: ep.fire_and_forget(Payload(b'x')))
            except Exception:
                refused += 1
                out.append(('refused', None, []))
                continue
            loop.settle()
            new = [sim.parse_sent(b) for b in t.sent[seen:]]
            req = [f for f in new if f['t'].startswith('Request') and f['t'] != 'RequestN']
            if req:
                out.append((step, req[0]['sid'], active))
                if step != 'fnf':
                    opened.append((step, req[0]['sid']))
        return out, refused
    finally:
        loop.finish()


def _ids_problem(res, role, m):
    par = 1 if role == 'client' else 0
    prev = None
    mask = (1 << m) - 1
    for kind, sid, active in res:
        if kind == 'sweep':
            continue
        if kind == 'refused':
            prev = None          # a failed allocation moves the allocator on by an amount this oracle does not track
            continue
        if prev is not None:
            # advance by 2 from the previous id, wrapping, skipping 0 and ids still in use
            c = prev
            for _ in range(mask + 2):
                c = (c + 2) & mask
                if c != 0 and c not in active:
                    break
            if sid != c and sid not in active:
                return '%s went out on id %d, the id after %d (active %s, %d-bit space) is %d' % (kind, sid, prev, active, m, c)
        prev = sid
        if sid in active:
            return '%s went out on id %d while that id was active (%s)' % (kind, sid, active)
        if sid == 0 or sid % 2 != par or sid > mask:
            return '%s went out on id %d (role %s, %d-bit id space)' % (kind, sid, role, m)
    return None


def endpoint_ids_oracle(rng, n):
    fails = []
    for _ in range(n):
        role = rng.choice(['client', 'server'])
        m = rng.choice([3, 4, 4, 5])
        script = []
        for _ in range(rng.randint(6, 40)):
            r = rng.random()
            script.append(('end', rng.randrange(0, 12)) if r < 0.25 else 'sweep' if r < 0.31 else
                          rng.choice(['rr', 'rs', 'rc', 'fnf', 'fnf', 'fnf']))
        res, refused = run_endpoint_ids(role, m, script)
        why = _ids_problem(res, role, m)
        if why:
            fails.append({'what': 'endpoint request ids: ' + why, 'endpoint_ids_case': [role, m, script]})
    return fails


def search(ctx, budget_s):
    import time
    t0 = time.time()
    rng = ctx.rng
    out = []
    while time.time() - t0 < budget_s and not out:
        m = rng.choice([2, 3, 4, 7])
        first = rng.choice([1, 2])
        M = 1 << m
        ops = [rng.choice([('AR',), ('AR',), ('A',), ('F', rng.randrange(0, M))]) for _ in range(rng.randint(1, 200))]
        case = {'m': m, 'first': first, 'cur0': None, 'ops': ops, 'kind': 'search'}
        res, cur, act, before = _impl(case)
        o = _oracle(case, res, before)
        if o:
            out.append({'what': o, 'input': case})
        out.extend(endpoint_ids_oracle(rng, 30))
    return out


def shrink(fc):
    if 'input' not in fc:
        return fc
    case = dict(fc['input'])
    ops = list(case['ops'])

    def fails(ops_):
        c = dict(case, ops=ops_)
        res, cur, act, before = _impl(c)
        return _oracle(c, res, before)
    i = 0
    while i < len(ops):
        cand = ops[:i] + ops[i + 1:]
        if fails(cand):
            ops = cand
        else:
            i += 1
    case['ops'] = ops
    return {'what': fails(ops), 'input': case}


def replay(obj):
    if 'endpoint_ids_case' in obj['case']:
        role, m, script = obj['case']['endpoint_ids_case']
        script = [tuple(x) if isinstance(x, list) else x for x in script]
        res, _ = run_endpoint_ids(role, m, script)
        par = 1 if role == 'client' else 0
        return bool(_ids_problem(res, role, m))
    if 'dup' in obj['case']:
        first, second, role, lenreq = obj['case']['dup'][:4]
        _, res = dup_scenario(first, second, role, lenreq, fragmented=len(obj['case']['dup']) > 4)
        return bool(dup_oracle(first, second, res))
    case = obj['case']['input']
    case['ops'] = [tuple(o) for o in case['ops']]
    res, cur, act, before = _impl(case)
    o = _oracle(case, res, before)
    if o:
        print('oracle:', o)
    return bool(o)
