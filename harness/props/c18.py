"""C18 — extension metadata codecs (composite metadata and its well-known entries).
Correspondence: model/Metadata.v (cm_encode_bk, cm_decode, pack24, parse_type, ser_wk, parse_wk) against the real
rsocket.extensions.helpers.composite / CompositeMetadata.parse / serialize, the helper constructors and the item classes,
serialize_well_known_encoding / parse_well_known_encoding, pack_24bit and parse_type, under cbitstruct and (in a
subprocess with cbitstruct blocked) the native struct helpers.  Entry lists of every kind with boundary lengths plus a
malformed byte stream for the decoder.  Oracle: the clauses of the property on the implementation's outputs."""
import os
import pickle
import re
import subprocess
import sys
import time

from harness import frames as FR
from harness.common import run_coq_cases, cN, cbool, clist, cbytes, REPO, VERIF

MODEL_TARGETS = ['model/Metadata.vo', 'corr/C18Corr.vo', 'corr/Harness.vo']
ASSUMPTIONS = [
    'entry values: encodings are bytes names, WellKnownMimeTypes members or WellKnownMimeType objects of the table '
    '(canonicalised to the name; a str or bytearray encoding raises TypeError in serialize_well_known_encoding and is '
    'outside the domain); tags, user names, passwords and tokens are bytes or str (ensure_bytes)',
    'round trip needs wf_cm (model/Metadata.v): custom names 1..128 bytes; the two reserved ..._DO_NOT_USE rows excluded '
    '(ids -2/-1 serialize as 0xFE/0xFF, i.e. as ROUTING / COMPOSITE_METADATA); a generic item must not carry the MIME type of '
    'a typed entry (it is decoded as that typed entry); tags <= 255 bytes; user name < 2^16 bytes; entry body < 2^24 bytes',
    'bodies >= 2^24 bytes are compared at the level of pack_24bit only (cbitstruct raises, native struct truncates); '
    'CPython struct / cbitstruct / bytes slicing are modelled, validated by this correspondence only',
]
HEADER = ('From Coq Require Import ZArith NArith List Init.Byte.\nFrom RSV Require Import lib.Bytes model.Frame model.Metadata '
          'corr.C18Corr corr.Harness.\nImport ListNotations.\nOpen Scope N_scope.\nDefinition chk := chk18.\n')
SHARD = 250
SHARD_CHARS = 60000
_PAT_RE = re.compile(r'\(pat \d+%N \d+%N (\d+)\)')
KINDS = ['item', 'route', 'dmime', 'amimes', 'simple', 'bearer']


# ---------------------------------------------------------------------------------------------
# worker (runs under either back end): canonical entry tuples <-> library objects
#   ('item', enc, content) ('route', [tags]) ('dmime', enc) ('amimes', [encs]) ('simple', user, pw) ('bearer', token)
# forms: dict with 'enc' in bytes|enum|obj (how a table encoding is passed), 'str' (pass text fields as str when they are
# valid UTF-8), 'ctor' in helper|class

def _member(name):
    from rsocket.extensions.mimetypes import WellKnownMimeTypes
    for m in WellKnownMimeTypes:
        if m.value.name == name:
            return m
    return None


def _enc_form(name, form):
    m = _member(name)
    if m is None or form == 'bytes':
        return name
    return m if form == 'enum' else m.value


def _txt(b, as_str):
    if as_str:
        try:
            s = b.decode('utf-8')
            if s.encode('utf-8') == b:
                return s
        except UnicodeDecodeError:
            pass
    return b


def build_item(e, forms):
    from rsocket.extensions import helpers as H
    from rsocket.extensions.authentication import AuthenticationBearer, AuthenticationSimple
    from rsocket.extensions.authentication_content import AuthenticationContent
    from rsocket.extensions.composite_metadata_item import CompositeMetadataItem
    from rsocket.extensions.routing import RoutingMetadata
    from rsocket.extensions.stream_data_mimetype import StreamDataMimetype, StreamDataMimetypes
    helper = forms.get('ctor', 'helper') == 'helper'
    s = forms.get('str', False)
    f = forms.get('enc', 'bytes')
    k = e[0]
    if k == 'item':
        enc = _enc_form(e[1], f)
        return H.metadata_item(e[2], enc) if helper else CompositeMetadataItem(enc, e[2])
    if k == 'route':
        tags = [_txt(t, s) for t in e[1]]
        return H.route(*tags) if helper else RoutingMetadata(tags)
    if k == 'dmime':
        enc = _enc_form(e[1], f)
        return H.data_mime_type(enc) if helper else StreamDataMimetype(enc)
    if k == 'amimes':
        encs = [_enc_form(x, f) for x in e[1]]
        return H.data_mime_types(*encs) if helper else StreamDataMimetypes(encs)
    if k == 'simple':
        u, p = _txt(e[1], s), _txt(e[2], s)
        return H.authenticate_simple(u, p) if helper else AuthenticationContent(AuthenticationSimple(u, p))
    if k == 'bearer':
        t = _txt(e[1], s)
        return H.authenticate_bearer(t) if helper else AuthenticationContent(AuthenticationBearer(t))
    raise ValueError(k)


def canon_item(it):
    """library item -> canonical tuple (exact classes; the encoding a typed item carries must be its own)."""
    from rsocket.extensions.authentication import AuthenticationBearer, AuthenticationSimple
    from rsocket.extensions.authentication_content import AuthenticationContent
    from rsocket.extensions.composite_metadata_item import CompositeMetadataItem
    from rsocket.extensions.mimetypes import WellKnownMimeTypes as W
    from rsocket.extensions.routing import RoutingMetadata
    from rsocket.extensions.stream_data_mimetype import StreamDataMimetype, StreamDataMimetypes

    def b(x):
        if not isinstance(x, (bytes, bytearray)):
            raise TypeError('not bytes: %r' % (x,))
        return bytes(x)
    t = type(it)
    if t is RoutingMetadata:
        if it.encoding != W.MESSAGE_RSOCKET_ROUTING.value.name:
            return ('weird', 'routing item with encoding %r' % (it.encoding,))
        return ('route', [b(x) for x in it.tags])
    if t is StreamDataMimetype:
        if it.encoding != W.MESSAGE_RSOCKET_MIMETYPE.value.name:
            return ('weird', 'mimetype item with encoding %r' % (it.encoding,))
        return ('dmime', b(it.data_encoding))
    if t is StreamDataMimetypes:
        if it.encoding != W.MESSAGE_RSOCKET_ACCEPT_MIMETYPES.value.name:
            return ('weird', 'accept item with encoding %r' % (it.encoding,))
        return ('amimes', [b(x) for x in it.data_encodings])
    if t is AuthenticationContent:
        if it.encoding != W.MESSAGE_RSOCKET_AUTHENTICATION.value.name:
            return ('weird', 'authentication item with encoding %r' % (it.encoding,))
        a = it.authentication
        if type(a) is AuthenticationSimple:
            return ('simple', b(a.username), b(a.password))
        if type(a) is AuthenticationBearer:
            return ('bearer', b(a.token))
        return ('weird', 'authentication %r' % (type(a).__name__,))
    if t is CompositeMetadataItem:
        return ('item', b(it.encoding), b(it.content))
    return ('weird', t.__name__)


def _parse(bs):
    from rsocket.extensions.composite_metadata import CompositeMetadata
    try:
        cm = CompositeMetadata().parse(bs)
        dec = ('ok', [canon_item(i) for i in cm.items])
    except Exception as ex:
        return ('raised', type(ex).__name__), None
    try:
        reser = ('ok', bytes(cm.serialize()))
    except Exception as ex:
        reser = ('raised', type(ex).__name__)
    return dec, reser


def run_jobs(jobs):
    from rsocket import frame_helpers, helpers
    from rsocket.extensions import helpers as H
    from rsocket.extensions.authentication_types import WellKnownAuthenticationTypes
    from rsocket.extensions.composite_metadata import CompositeMetadata
    from rsocket.extensions.mimetypes import WellKnownMimeTypes
    tables = [WellKnownMimeTypes, WellKnownAuthenticationTypes]
    out = []
    for job in jobs:
        k = job[0]
        if k == 'enc':
            try:
                objs = [build_item(e, f) for e, f in job[1]]
                bs = H.composite(*objs)
                # the same list through the class API
                objs2 = [build_item(e, f) for e, f in job[1]]
                bs2 = CompositeMetadata(objs2).serialize()
                if bytes(bs2) != bytes(bs):
                    out.append(('mismatch', 'composite() and CompositeMetadata(items).serialize() differ'))
                    continue
                bs = bytes(bs)
            except Exception as ex:
                out.append(('raised', type(ex).__name__))
                continue
            dec, reser = _parse(bs)
            out.append(('ok', bs, dec, reser))
        elif k == 'dec':
            dec, reser = _parse(job[1])
            out.append((dec, reser))
        elif k == 'pack':
            try:
                out.append(('ok', bytes(frame_helpers.pack_24bit(job[1]))))
            except Exception as ex:
                out.append(('raised', type(ex).__name__))
        elif k == 'ptype':
            try:
                a, b = frame_helpers.parse_type(job[1])
                out.append(('ok', bool(a), int(b)))
            except Exception as ex:
                out.append(('raised', type(ex).__name__))
        elif k == 'serwk':
            try:
                out.append(('ok', bytes(helpers.serialize_well_known_encoding(job[2], tables[job[1]].get_by_name))))
            except Exception as ex:
                out.append(('raised', type(ex).__name__))
        elif k == 'parsewk':
            try:
                n, off = helpers.parse_well_known_encoding(job[2], tables[job[1]].require_by_id)
                out.append(('ok', bytes(n), int(off)))
            except Exception as ex:
                out.append(('raised', type(ex).__name__))
        else:
            raise ValueError(k)
    return out


def backend_name():
    from rsocket import frame_helpers
    return 'cbit' if hasattr(frame_helpers, 'cbitstruct') else 'native'


def run_backend(jobs, native):
    env = dict(os.environ)
    env['PYTHONPATH'] = VERIF + os.pathsep + REPO
    env['PYTHONHASHSEED'] = '0'
    env['PYTHONDONTWRITEBYTECODE'] = '1'
    p = subprocess.run([sys.executable, '-m', 'harness.props.c18', 'native' if native else 'cbit'],
                       input=pickle.dumps(jobs), stdout=subprocess.PIPE, env=env, cwd=VERIF, timeout=1200)
    if p.returncode != 0:
        raise RuntimeError('C18 worker failed (%s)' % ('native' if native else 'cbit'))
    name, out = pickle.loads(p.stdout)
    if name != ('native' if native else 'cbit'):
        raise RuntimeError('C18 worker ran with back end %s, wanted %s' % (name, 'native' if native else 'cbit'))
    return out


# ---------------------------------------------------------------------------------------------
# tables of the implementation (read in-process; they do not depend on the back end)

_T = {}


def tables():
    if not _T:
        from rsocket.extensions.authentication_types import WellKnownAuthenticationTypes
        from rsocket.extensions.mimetypes import WellKnownMimeTypes
        _T['mime'] = [(m.value.name, m.value.id) for m in WellKnownMimeTypes]
        _T['auth'] = [(m.value.name, m.value.id) for m in WellKnownAuthenticationTypes]
        _T['mime_by_name'] = dict(_T['mime'])
        W = WellKnownMimeTypes
        _T['typed'] = {W.MESSAGE_RSOCKET_ROUTING.value.name, W.MESSAGE_RSOCKET_MIMETYPE.value.name,
                       W.MESSAGE_RSOCKET_ACCEPT_MIMETYPES.value.name, W.MESSAGE_RSOCKET_AUTHENTICATION.value.name}
        _T['reserved'] = [n for n, i in _T['mime'] if i < 0]
        _T['valid'] = [n for n, i in _T['mime'] if 0 <= i <= 127]
    return _T


def oracle_tables():
    """'ids and names map one-to-one' on the real enums and lookup functions; list of messages."""
    from rsocket.extensions.authentication_types import WellKnownAuthenticationTypes
    from rsocket.extensions.mimetypes import WellKnownMimeTypes
    bad = []
    for label, enum, reserved_ok in (('MIME', WellKnownMimeTypes, True), ('authentication', WellKnownAuthenticationTypes, False)):
        rows = [(m.value.name, m.value.id) for m in enum]
        names = [n for n, _ in rows]
        ids = [i for _, i in rows]
        if len(set(names)) != len(names):
            bad.append('%s table: duplicate name' % label)
        if len(set(ids)) != len(ids):
            bad.append('%s table: duplicate id' % label)
        for n, i in rows:
            if not (0 <= i <= 127) and not (reserved_ok and n.endswith(b'_DO_NOT_USE') and i in (-1, -2)):
                bad.append('%s table: id %d of %r does not fit 7 bits' % (label, i, n))
            if enum.get_by_name(n) != i:
                bad.append('%s table: get_by_name(%r) = %r, not %d' % (label, n, enum.get_by_name(n), i))
            try:
                back = enum.require_by_id(i)
            except Exception as ex:
                back = type(ex).__name__
            if back != n:
                bad.append('%s table: require_by_id(%d) = %r, not %r' % (label, i, back, n))
    return bad


# ---------------------------------------------------------------------------------------------
# the property's side conditions, written independently of the Coq wf_cm

def name_in_range(n):
    t = tables()
    if n in t['mime_by_name']:
        return 0 <= t['mime_by_name'][n] <= 127
    return 1 <= len(n) <= 128


def name_overlong(n):
    return n not in tables()['mime_by_name'] and len(n) > 128


def body_len(e):
    k = e[0]
    if k == 'item':
        return len(e[2])
    if k == 'route':
        return sum(1 + len(t) for t in e[1])
    if k == 'dmime':
        return 1 if e[1] in tables()['mime_by_name'] else 1 + len(e[1])
    if k == 'amimes':
        return sum(1 if x in tables()['mime_by_name'] else 1 + len(x) for x in e[1])
    if k == 'simple':
        return 1 + 2 + len(e[1]) + len(e[2])
    return 1 + len(e[1])


def entry_in_range(e):
    k = e[0]
    if body_len(e) >= 1 << 24:
        return False
    if k == 'item':
        return name_in_range(e[1]) and e[1] not in tables()['typed']
    if k == 'route':
        return all(len(t) <= 255 for t in e[1])
    if k == 'dmime':
        return name_in_range(e[1])
    if k == 'amimes':
        return all(name_in_range(x) for x in e[1])
    if k == 'simple':
        return len(e[1]) < 1 << 16
    return True


def entry_overlong(e):
    k = e[0]
    if k in ('item', 'dmime'):
        return name_overlong(e[1])
    if k == 'amimes':
        return any(name_overlong(x) for x in e[1])
    if k == 'route':
        return any(len(t) > 255 for t in e[1])
    return False


def oracle_enc(entries, outn, outc):
    """C18's clauses on the implementation's outputs for one entry list; message or None."""
    inr = all(entry_in_range(e) for e in entries)
    over = any(entry_overlong(e) for e in entries)
    for label, o in (('cbitstruct', outc), ('native', outn)):
        if o[0] == 'mismatch':
            return o[1]
        if over:
            if o[0] != 'raised':
                return 'an over-long MIME name or tag was serialized instead of rejected (%s)' % label
            continue
        if not inr:
            continue
        if o[0] != 'ok':
            return 'serialize raised %s on in-range entries (%s)' % (o[1], label)
        _, bs, dec, reser = o
        if dec[0] != 'ok':
            return 'parsing the serialized entries raised %s (%s)' % (dec[1], label)
        if dec[1] != list(entries):
            bad = [i for i, (a, b) in enumerate(zip(dec[1], entries)) if a != b]
            return 'parse(serialize(items)) differs from items at positions %s (%d vs %d items) (%s)' % (
                bad[:4], len(dec[1]), len(entries), label)
        if reser != ('ok', bs):
            return 'serialize(parse(bytes)) does not reproduce the bytes (%s)' % label
    if inr and outn != outc:
        return 'native and cbitstruct back ends differ on in-range entries'
    return None


# ---------------------------------------------------------------------------------------------
# Coq printers

def coq_entry(e, env=None):
    pb = lambda b: FR.pbytes(b, env)
    k = e[0]
    if k == 'item':
        return '(EItem %s %s)' % (pb(e[1]), pb(e[2]))
    if k == 'route':
        return '(ERouting %s)' % clist([pb(t) for t in e[1]])
    if k == 'dmime':
        return '(EDataMime %s)' % pb(e[1])
    if k == 'amimes':
        return '(EAcceptMimes %s)' % clist([pb(x) for x in e[1]])
    if k == 'simple':
        return '(EAuth (ASimple %s %s))' % (pb(e[1]), pb(e[2]))
    if k == 'bearer':
        return '(EAuth (ABearer %s))' % pb(e[1])
    raise ValueError('unprintable entry %r' % (e,))


def coq_entries(es, env=None):
    return clist([coq_entry(e, env) for e in es])


def coq_obytes(o, env=None):
    return '(Some %s)' % FR.pbytes(o[1], env) if o[0] == 'ok' else 'None'


def coq_odec(d, env=None):
    if d[0] != 'ok':
        return 'None'
    return '(Some %s)' % coq_entries(d[1], env)


def _norm_dec(d):
    return d if d[0] == 'ok' else d[:1]


def has_weird(d):
    return d[0] == 'ok' and any(x[0] == 'weird' for x in d[1])


# ---------------------------------------------------------------------------------------------
# generators

def rb(rng, n):
    return bytes(rng.getrandbits(8) for _ in range(n))


def rascii(rng, n):
    return bytes(rng.choice(b'abcdefghijklmnopqrstuvwxyz/.-+0123456789') for _ in range(n))


NAME_LENS = [0, 1, 2, 127, 128, 129]
TAG_LENS = [0, 1, 255, 256]


def gen_name(rng, what=None):
    """(name bytes, class label)"""
    t = tables()
    what = what or rng.choice(['valid', 'valid', 'valid', 'custom', 'custom', 'custom', 'boundary', 'reserved', 'typed',
                               'near'])
    if what == 'valid':
        return rng.choice(t['valid']), 'table'
    if what == 'reserved':
        return rng.choice(t['reserved']), 'reserved'
    if what == 'typed':
        return rng.choice(sorted(t['typed'])), 'typed'
    if what == 'boundary':
        n = rng.choice(NAME_LENS + [130, 200, 255, 256, 300])
        return (rascii(rng, n) if rng.random() < 0.7 else rb(rng, n)), 'custom-len-%s' % (n if n <= 129 else '130+')
    if what == 'near':
        base = rng.choice(t['valid'])
        return rng.choice([base + b'x', base[:-1], base.upper(), b' ' + base]), 'near-table'
    n = rng.randint(1, 40)
    return (rascii(rng, n) if rng.random() < 0.8 else rb(rng, n)), 'custom'


def gen_tag(rng, env):
    x = rng.random()
    if x < 0.35:
        n = rng.choice(TAG_LENS + [254, 257, 300])
    else:
        n = rng.randint(0, 30)
    if n >= 48 and rng.random() < 0.6:
        return env.add_pat(rng.randrange(1, 250), n)
    return rascii(rng, n) if rng.random() < 0.7 else rb(rng, n)


def gen_blob(rng, env, big=False):
    x = rng.random()
    if x < 0.2:
        n = 0
    elif x < 0.7:
        n = rng.randint(1, 30)
    elif x < 0.95 or not big:
        n = rng.choice([1, 2, 3, 127, 128, 255, 256, 257, 1000])
    else:
        n = rng.choice([65535, 65536, 65537, 70000])
    if n >= 48:
        return env.add_pat(rng.randrange(1, 250), n)
    return rb(rng, n) if rng.random() < 0.5 else rascii(rng, n)


def gen_entry(rng, env, kind=None, big=False):
    k = kind or rng.choice(KINDS)
    if k == 'item':
        n, _ = gen_name(rng)
        return ('item', n, gen_blob(rng, env, big))
    if k == 'route':
        return ('route', [gen_tag(rng, env) for _ in range(rng.choice([0, 1, 1, 1, 2, 3, 5]))])
    if k == 'dmime':
        return ('dmime', gen_name(rng)[0])
    if k == 'amimes':
        return ('amimes', [gen_name(rng)[0] for _ in range(rng.choice([0, 1, 2, 3, 6]))])
    if k == 'simple':
        return ('simple', gen_blob(rng, env, big), gen_blob(rng, env, False))
    return ('bearer', gen_blob(rng, env, big))


def gen_forms(rng):
    return {'enc': rng.choice(['bytes', 'enum', 'obj']), 'str': rng.random() < 0.4,
            'ctor': rng.choice(['helper', 'class'])}


def label_entry(e):
    k = e[0]
    if entry_overlong(e):
        return k + ':overlong'
    if not entry_in_range(e):
        return k + ':out-of-range'
    return k + ':in-range'


def boundary_lists(rng, thorough=True):
    """single- and two-entry lists putting each boundary value in each position that takes it."""
    t = tables()
    out = []
    # every table row (valid, reserved) as item encoding, data mimetype and inside an accept list
    for n, _ in t['mime']:
        out.append([('item', n, rb(rng, rng.randint(0, 5)))])
        out.append([('dmime', n)])
    out.append([('amimes', [n for n, _ in t['mime'] if n not in t['reserved']])])
    out.append([('amimes', [n for n, _ in t['mime']])])
    for ln in NAME_LENS + [130, 255, 256]:
        nm = rascii(rng, ln)
        out.append([('item', nm, b'abc')])
        out.append([('item', nm, b'abc'), ('bearer', b't')])
        out.append([('dmime', nm)])
        out.append([('amimes', [nm])])
        out.append([('amimes', [b'text/plain', nm, b'x/y'])])
        out.append([('route', [b'r']), ('dmime', nm), ('item', b'z', b'')])
    for ln in TAG_LENS + [254, 257]:
        tg = FR.pat(ln % 200 + 1, 0, ln)
        out.append([('route', [tg])])
        out.append([('route', [b'a', tg, b''])])
        out.append([('route', [tg, tg])])
    out.append([])
    out.append([('route', [])])
    out.append([('route', [b''])])
    out.append([('route', [b'', b''])])
    out.append([('amimes', [])])
    for ul in (0, 1, 255, 256, 65535, 65536) + ((65537,) if thorough else ()):
        for pl in (0, 3) if (thorough or ul < 1000) else (3,):
            out.append([('simple', FR.pat(ul % 97 + 1, 0, ul), FR.pat(5, 0, pl))])
    for tl in (0, 1, 300, 65536):
        out.append([('bearer', FR.pat(tl % 91 + 2, 0, tl))])
    for cl in (0, 1, 65535, 65536, 70000):
        out.append([('item', b'application/json', FR.pat(cl % 89 + 3, 0, cl))])
        if thorough or cl < 1000:
            out.append([('item', b'cust/om', FR.pat(cl % 89 + 4, 0, cl)), ('route', [b'after'])])
    # typed names used as generic item names, with bodies that do / do not parse as the typed entry
    for n in sorted(t['typed']):
        for body in (b'', b'\x03abc', b'\x80\x00\x01up', b'\x81tok', b'\x85', b'\x05a/b', b'\xff', b'\x00', rb(rng, 7)):
            out.append([('item', n, body)])
    return out


def _register_pats(env, entries):
    # long strings produced by FR.pat(seed, 0, n) inside boundary lists: find seed by matching the first bytes
    def reg(b):
        if len(b) >= 48:
            for seed in range(0, 256):
                if FR.pat(seed, 0, 24) == b[:24] and FR.pat(seed, 0, len(b)) == b:
                    if not any(k == ('pat', seed) and len(s) >= len(b) for k, s in env.items):
                        env.items.append((('pat', seed), b))
                    return
    for e in entries:
        for x in e[1:]:
            if isinstance(x, (bytes, bytearray)):
                reg(bytes(x))
            elif isinstance(x, list):
                for y in x:
                    reg(bytes(y))


def malformed(rng, valid_bufs, n_random):
    """(kind, bytes) for the decode-only stream."""
    t = tables()
    bufs = []
    short = [b for b in valid_bufs if 0 < len(b) <= 90]
    rng.shuffle(short)
    for b in short[:max(6, n_random // 12)]:
        for cut in range(len(b) + 1):
            bufs.append(('trunc', b[:cut]))
    for b in short[:max(20, n_random // 3)]:
        for _ in range(6):
            m = bytearray(b)
            m[rng.randrange(len(m))] ^= 1 << rng.randrange(8)
            bufs.append(('flip', bytes(m)))
        m = bytearray(b)
        m[0] = 0x80 | rng.choice([41, 42, 100, 121, 60])            # unassigned well-known id
        bufs.append(('unknown-id', bytes(m)))
        bufs.append(('extra', b + rb(rng, rng.randint(1, 6))))
    used = {i for _, i in t['mime']}
    for i in range(128):                                               # every 7-bit id as an entry header
        body = rb(rng, rng.choice([0, 1, 4]))
        bufs.append(('id-%s' % ('assigned' if i in used else 'unassigned'),
                     bytes([0x80 | i]) + len(body).to_bytes(3, 'big') + body))
    # typed entries spelled out as custom names, auth types spelled out, bodies of typed entries with every defect

    def entry(hdr, body, declared=None):
        return hdr + (len(body) if declared is None else declared).to_bytes(3, 'big') + body

    def custom(n):
        return bytes([(len(n) - 1) & 0x7f]) + n
    for n in sorted(t['typed']) + [b'application/json', b'text/plain']:
        for body in (b'', b'\x01a', b'\x05ab', b'\x80\x00\x01ab', b'\x80\x00', b'\x80', b'\x81', b'\x81tok', b'\x82x',
                     b'\x05simpleXYZ', b'\x05simple\x00\x02uspw', b'\x05bearertok', b'\x05beareR', b'\x03a/b\xa1', b'\xa9',
                     b'\x7f', b'\x00', b'\x00x\x85rest', rb(rng, 9)):
            bufs.append(('typed-custom-spelling', entry(custom(n), body)))
            idb = bytes([0x80 | (t['mime_by_name'][n] & 0x7f)])
            bufs.append(('typed-body', entry(idb, body)))
            bufs.append(('typed-body', entry(idb, body, declared=len(body) + 5)))          # declared longer than present
            bufs.append(('typed-body', entry(idb, body) + entry(b'\x00x', b'tail')))
            if body:
                bufs.append(('typed-body', entry(idb, body, declared=len(body) - 1) ))     # declared shorter: rest reparsed
    for ln in (1, 2, 127, 128):
        n = rascii(rng, ln)
        bufs.append(('custom-name', entry(custom(n), b'xy')))
        bufs.append(('custom-name-short', (custom(n) + b'\x00\x00')[:rng.randint(1, ln + 3)]))
    bufs.append(('empty', b''))
    # the two witnesses of C18_reencode_arbitrary_refuted
    bufs.append(('noncanonical-witness', b'\x07text/css\x00\x00\x01a'))
    bufs.append(('noncanonical-witness', b'\x00a\x00\x00\x05bc'))
    for _ in range(n_random):
        bufs.append(('random', rb(rng, rng.choice([1, 2, 3, 4, 5, 8, 12, 20, 40]))))
        # random but structurally plausible: known id, small declared length
        i = rng.choice(sorted(used & set(range(128))))
        body = rb(rng, rng.randint(0, 12))
        bufs.append(('random-body', bytes([0x80 | i]) + rng.choice([len(body), len(body), rng.randint(0, 20)]).to_bytes(3, 'big')
                     + body))
    return bufs


# ---------------------------------------------------------------------------------------------

def _enc_cases(ctx, corr, lists):
    """lists: [(entries, forms_per_entry)].  Returns (coq items, valid byte strings, decoded pairs)."""
    jobs = [('enc', list(zip(es, fs))) for es, fs in lists]
    outn = run_backend(jobs, native=True)
    outc = run_backend(jobs, native=False)
    items, bufs, seeds = [], [], []
    for (es, fs), on, oc in zip(lists, outn, outc):
        corr.evaluations += 1
        for e in es:
            corr.count('entry:' + label_entry(e))
        corr.count('list-len:%s' % (len(es) if len(es) < 4 else '4+'))
        corr.count('enc-result:' + oc[0])
        o = oracle_enc(es, on, oc)
        if o:
            corr.oracle_failures.append({'what': o, 'kind': 'enc', 'entries': es, 'forms': fs})
        if es:
            corr.nontriv(('enc', repr(es)))
        if not any(entry_overlong(e) for e in es) and not all(entry_in_range(e) for e in es) and oc[0] == 'ok':
            # outside the format limits but not rejected (empty name, reserved rows, typed name on a generic item,
            # user name >= 2^16): the property does not constrain these; the model predicts them exactly
            corr.count('out-of-range-accepted:' + ('decodes-differently' if oc[2] != ('ok', list(es)) else 'round-trips'))
        if on[0] == 'mismatch' or oc[0] == 'mismatch':
            corr.disagreements.append({'what': oc[1] if oc[0] == 'mismatch' else on[1], 'entries': es})
            continue
        env = FR.Env()
        _register_pats(env, es)
        info = {'kind': 'enc', 'entries': es, 'forms': fs, 'impl_cbit': oc[:2], 'impl_native': on[:2]}
        if oc[0] == 'ok' and on[0] == 'ok' and oc[1] == on[1] and _norm_dec(oc[2]) == _norm_dec(on[2]) \
                and not has_weird(oc[2]):
            # the common case, printed compactly: same bytes and same decoding under both back ends
            if oc[2] == ('ok', list(es)):
                txt = 'CRound %s %s' % (coq_entries(es, env), FR.pbytes(oc[1], env))
            else:
                txt = 'CEncDec %s %s %s' % (coq_entries(es, env), FR.pbytes(oc[1], env), coq_odec(oc[2], env))
                info['impl_decoded'] = repr(oc[2])[:400]
            seeds.append(oc[1])
        else:
            rc = ('ok', oc[1]) if oc[0] == 'ok' else ('raised',)
            rn = ('ok', on[1]) if on[0] == 'ok' else ('raised',)
            txt = 'CEnc %s %s %s' % (coq_entries(es, env), coq_obytes(rc, env), coq_obytes(rn, env))
            for o_ in (oc, on):
                if o_[0] == 'ok':
                    bufs.append((o_[1], env))
                    seeds.append(o_[1])
        items.append((txt, info))
        if len(corr.samples) < 3 and len(es) >= 2 and oc[0] == 'ok' and len(oc[1]) < 80:
            corr.samples.append({'entries': [repr(e)[:70] for e in es], 'bytes_hex': oc[1].hex()})
    return items, bufs, seeds


def _dec_cases(ctx, corr, bufs):
    """bufs: [(kind, bytes, env)] -> coq items"""
    seen = set()
    uniq = []
    for kind, b, env in bufs:
        if b not in seen:
            seen.add(b)
            uniq.append((kind, b, env))
    jobs = [('dec', b) for _, b, _ in uniq]
    outn = run_backend(jobs, native=True)
    outc = run_backend(jobs, native=False)
    items = []
    for (kind, b, env), (dn, rn), (dc, rc) in zip(uniq, outn, outc):
        corr.evaluations += 1
        corr.count('dec:' + kind)
        corr.count('dec-result:' + dc[0])
        corr.nontriv(('dec', b))
        if has_weird(dc) or has_weird(dn):
            corr.disagreements.append({'what': 'decoded item of an unexpected class / encoding', 'buf': b.hex(),
                                       'impl': repr(dc)[:300]})
            continue
        if _norm_dec(dn) != _norm_dec(dc):
            corr.count('dec-backends-differ')
        if dc[0] == 'ok' and kind != 'serialized':
            # arbitrary input: the decoder is not injective (C18_reencode_arbitrary_refuted); counted, not required
            corr.count('dec-arbitrary:' + ('reencodes-to-same-bytes' if rc == ('ok', b) else 'reencodes-differently'))
        if kind == 'noncanonical-witness' and not (dc[0] == 'ok' and rc[0] == 'ok' and rc[1] != b):
            corr.disagreements.append({'what': 'witness of C18_reencode_arbitrary_refuted does not behave as stated',
                                       'buf': b.hex(), 'impl': repr((dc, rc))})
        if _norm_dec(dn) == _norm_dec(dc):
            txt = 'CDec1 %s %s' % (FR.pbytes(b, env), coq_odec(dc, env))
        else:
            txt = 'CDec %s %s %s' % (FR.pbytes(b, env), coq_odec(dc, env), coq_odec(dn, env))
        items.append((txt, {'kind': 'dec', 'buf': b.hex() if len(b) < 400 else b[:400].hex() + '...', 'impl_cbit': repr(dc)[:400],
                            'impl_native': repr(dn)[:400]}))
        if len(corr.samples) < 6 and kind in ('trunc', 'typed-custom-spelling') and len(b) > 6:
            corr.samples.append({'malformed': kind, 'bytes_hex': b.hex()[:80], 'impl': repr(dc)[:120]})
    return items


def _unit_cases(ctx, corr):
    rng = ctx.rng
    t = tables()
    items = []
    # pack_24bit
    ns = [0, 1, 255, 256, 65535, 65536, (1 << 24) - 1, 1 << 24, (1 << 24) + 5, (1 << 32) - 1, 1 << 32, (1 << 32) + 7, 1 << 40]
    ns += [rng.getrandbits(rng.choice([8, 16, 24, 25, 32, 33])) for _ in range(ctx.scale(20, 200))]
    jobs = [('pack', n) for n in ns]
    # parse_type: every byte value alone and with a tail, and the empty buffer
    pts = [b''] + [bytes([i]) for i in range(256)] + [bytes([i]) + rb(rng, 2) for i in range(0, 256, 7)]
    jobs += [('ptype', b) for b in pts]
    # serialize_well_known_encoding over both tables
    sw = []
    for tbl, rows in ((0, t['mime']), (1, t['auth'])):
        for n, _ in rows:
            sw.append((tbl, n))
        for ln in NAME_LENS + [130, 256]:
            sw.append((tbl, rascii(rng, ln)))
        for n, _ in t['auth'] + t['mime'][:3]:
            sw.append((tbl, n))
            sw.append((tbl, n + b'x'))
    jobs += [('serwk', tbl, n) for tbl, n in sw]
    # parse_well_known_encoding over both tables: every first byte, with short and long tails
    pw = []
    for tbl in (0, 1):
        pw.append((tbl, b''))
        for i in range(256):
            pw.append((tbl, bytes([i])))
            pw.append((tbl, bytes([i]) + rascii(rng, rng.choice([1, 3, (i & 0x7f) + 1, (i & 0x7f) + 3]))))
    jobs += [('parsewk', tbl, b) for tbl, b in pw]
    outn = run_backend(jobs, native=True)
    outc = run_backend(jobs, native=False)
    for job, on, oc in zip(jobs, outn, outc):
        corr.evaluations += 1
        corr.count('unit:' + job[0])
        k = job[0]
        if on[0] == 'raised' and oc[0] == 'raised':
            on = oc      # the exception classes differ between the back ends (TypeError / struct.error)

        def ob(o):
            return '(Some %s)' % cbytes(o[1]) if o[0] == 'ok' else 'None'
        if k == 'pack':
            txt = 'CPack %s %s %s' % (cN(job[1]), ob(oc), ob(on))
            if oc != on:
                corr.count('pack-backends-differ')
        elif k == 'ptype':
            f = lambda o: '(Some (%s, %s))' % (cbool(o[1]), cN(o[2])) if o[0] == 'ok' else 'None'
            txt = 'CType %s %s %s' % (cbytes(job[1]), f(oc), f(on))
        elif k == 'serwk':
            if on != oc:
                corr.disagreements.append({'what': 'serialize_well_known_encoding differs between back ends', 'job': repr(job)})
            txt = 'CSerWk %s %s %s' % (cN(job[1]), cbytes(job[2]), ob(oc))
        else:
            if on != oc:
                corr.disagreements.append({'what': 'parse_well_known_encoding differs between back ends', 'job': repr(job)})
            txt = 'CParseWk %s %s %s' % (cN(job[1]), cbytes(job[2]),
                                         '(Some (%s, %s))' % (cbytes(oc[1]), cN(oc[2])) if oc[0] == 'ok' else 'None')
        items.append((txt, {'kind': k, 'job': repr(job)[:300], 'impl_cbit': repr(oc)[:200], 'impl_native': repr(on)[:200]}))
    return items


def correspond(ctx, corr, model_ok):
    rng = ctx.rng
    corr.rule = ('entry lists of all six kinds (generic item, routing, data MIME type, accept MIME types, simple and bearer '
                 'authentication): every table row (incl. the two reserved rows) in every position, custom names of 0/1/2/127/128/'
                 '129/130/255/256 bytes, tags of 0/1/254/255/256/257 bytes, user names 0/1/255/256/65535/65536/65537, bodies up to '
                 '70000 bytes, typed MIME names on generic items, empty lists, random mixtures of 0..6 entries; encodings passed '
                 'as bytes / enum member / WellKnownMimeType, text as bytes / str, helper constructors / classes; real composite(), '
                 'CompositeMetadata.parse/serialize under both back ends, compared with the model inside Coq.  Decode stream: '
                 'every serialized list, every truncation offset, bit flips, every 7-bit id, typed entries spelled as custom '
                 'names, typed bodies with every defect, declared lengths beyond/short of the data, random bytes.  Unit level: '
                 'pack_24bit, parse_type (all 256 bytes), serialize/parse_well_known_encoding on both tables.  distinct = '
                 'distinct entry list or byte string; non-trivial = non-empty')
    for msg in oracle_tables():
        corr.oracle_failures.append({'what': msg, 'kind': 'tables'})
    corr.oracle_failures.extend(reuse_oracle())
    corr.count('item objects used for more than one encode / decode', 30)
    corr.evaluations += 1
    lists = []
    for es in boundary_lists(rng, ctx.thorough):
        lists.append((es, [gen_forms(rng) for _ in es]))
        if es and rng.random() < 0.5 and sum(body_len(e) for e in es) < 5000:
            lists.append((es, [gen_forms(rng) for _ in es]))
    # text fields given as str whose UTF-8 form is longer than their character count
    for txt in ['\u00e9', 'a\u00e9\u00e9', 'donn\u00e9es/m\u00e9t\u00e9o', '\u65e5\u672c\u8a9e', 'x' * 250 + '\u00e9', '\u00e9' * 127,
                'x' + '\u00e9' * 127, '\u00e9' * 128, '\U0001f600' * 63, '\U0001f600' * 64]:
        b = txt.encode('utf-8')
        for ctor in ('helper', 'class'):
            fm = {'enc': 'bytes', 'str': True, 'ctor': ctor}
            lists.append(([('route', [b])], [fm]))
            lists.append(([('route', [b'a', b, b'z'])], [fm]))
            lists.append(([('simple', b, b'p' + b)], [fm]))
            lists.append(([('bearer', b), ('route', [b])], [fm, fm]))
    for _ in range(ctx.scale(350, 8000)):
        env = FR.Env()
        n = rng.choice([0, 1, 1, 2, 2, 3, 4, 6])
        es = [gen_entry(rng, env, big=(rng.random() < ctx.scale(0.008, 0.03))) for _ in range(n)]
        lists.append((es, [gen_forms(rng) for _ in es]))
    # in-range mixtures (the round-trip clause needs many of these)
    for _ in range(ctx.scale(300, 6000)):
        env = FR.Env()
        es = []
        for _ in range(rng.choice([1, 2, 3, 4, 6])):
            for _try in range(20):
                e = gen_entry(rng, env, big=(rng.random() < ctx.scale(0.005, 0.02)))
                if entry_in_range(e):
                    es.append(e)
                    break
        lists.append((es, [gen_forms(rng) for _ in es]))
    enc_items, bufs, seeds = _enc_cases(ctx, corr, lists)
    dbufs = [('serialized', b, env) for b, env in bufs]
    dbufs += [(k, b, None) for k, b in malformed(rng, seeds, ctx.scale(120, 2500))]
    dec_items = _dec_cases(ctx, corr, dbufs)
    unit_items = _unit_cases(ctx, corr)
    if not model_ok:
        return
    items = enc_items + dec_items + unit_items
    # shards bounded both in cases and in literal text (parsing the literals dominates the cost)
    # (a (pat seed off n) term costs about as much to evaluate as 0.7 n characters cost to parse)
    groups, cur, size = [], [], 0
    for it in items:
        cost = len(it[0]) + int(0.7 * sum(int(x) for x in _PAT_RE.findall(it[0])))
        if cur and (len(cur) >= SHARD or size + cost > SHARD_CHARS):
            groups.append(cur)
            cur, size = [], 0
        cur.append(it)
        size += cost
    if cur:
        groups.append(cur)
    shards = ['Definition cases : list case18 := [\n' + ';\n'.join(x[0] for x in g) + '\n].' for g in groups]
    out = run_coq_cases(shards, HEADER, timeout=900)
    for si, (n, nf, idx) in enumerate(out):
        for i in idx:
            info = groups[si][i][1]
            corr.disagreements.append(dict(info, what='metadata codecs (%s): implementation vs model/Metadata.v' % info['kind']))


def classify(case):
    return case.get('finding')


KNOWN = {}


def search(ctx, budget_s):
    t0 = time.time()
    rng = ctx.rng
    out = [{'what': m, 'kind': 'tables'} for m in oracle_tables()] + reuse_oracle()
    while time.time() - t0 < budget_s and not out:
        lists = []
        for es in boundary_lists(rng):
            lists.append((es, [gen_forms(rng) for _ in es]))
        for _ in range(400):
            env = FR.Env()
            es = [gen_entry(rng, env) for _ in range(rng.choice([1, 1, 2, 3]))]
            lists.append((es, [gen_forms(rng) for _ in es]))
        jobs = [('enc', list(zip(es, fs))) for es, fs in lists]
        outn = run_backend(jobs, native=True)
        outc = run_backend(jobs, native=False)
        for (es, fs), on, oc in zip(lists, outn, outc):
            o = oracle_enc(es, on, oc)
            if o:
                out.append({'what': o, 'kind': 'enc', 'entries': es, 'forms': fs})
                break
    return out[:1]


def shrink(case):
    """drop entries while the oracle still fails"""
    if case.get('kind') != 'enc':
        return case
    es, fs = list(case['entries']), list(case['forms'])

    def fails(es, fs):
        job = [('enc', list(zip(es, fs)))]
        return oracle_enc(es, run_backend(job, True)[0], run_backend(job, False)[0])
    i = 0
    while i < len(es) and len(es) > 1:
        es2, fs2 = es[:i] + es[i + 1:], fs[:i] + fs[i + 1:]
        if fails(es2, fs2):
            es, fs = es2, fs2
        else:
            i += 1
    return dict(case, entries=es, forms=fs, what=fails(es, fs) or case['what'])


def _unjson(x):
    import ast
    if isinstance(x, str) and x.startswith(("b'", 'b"')):
        return ast.literal_eval(x)
    if isinstance(x, list):
        return [_unjson(y) for y in x]
    return x


def replay(obj):
    case = obj['case']
    if case.get('kind') == 'reuse':
        return bool(reuse_oracle())
    if case.get('kind') == 'tables':
        bad = oracle_tables()
        for m in bad:
            print('oracle:', m)
        return bool(bad)
    es = []
    for e in case['entries']:
        e = _unjson(e)
        es.append(tuple(e))
    fs = case['forms']
    job = [('enc', list(zip(es, fs)))]
    o = oracle_enc(es, run_backend(job, True)[0], run_backend(job, False)[0])
    if o:
        print('oracle:', o)
    return bool(o)


if __name__ == '__main__':
    import logging
    logging.disable(logging.CRITICAL)
    if sys.argv[1] == 'native':
        sys.modules['cbitstruct'] = None   # import raises ImportError -> native helpers are selected
    _jobs = pickle.loads(sys.stdin.buffer.read())
    _res = run_jobs(_jobs)
    sys.stdout.buffer.write(pickle.dumps((backend_name(), _res)))


# ---------------------------------------------------------------------------------------------
# the item OBJECTS are reusable values: what an item encodes to is a function of its current fields — not of what it encoded to or
# was parsed from before

def reuse_oracle():
    from rsocket.extensions import helpers as H
    from rsocket.extensions.routing import RoutingMetadata
    from rsocket.extensions.tagging import TaggingMetadata
    from rsocket.extensions.authentication import AuthenticationSimple, AuthenticationBearer
    from rsocket.extensions.authentication_content import AuthenticationContent
    from rsocket.extensions.stream_data_mimetype import StreamDataMimetype, StreamDataMimetypes
    from rsocket.extensions.composite_metadata import CompositeMetadata
    from rsocket.extensions.mimetypes import WellKnownMimeTypes
    out = []

    def bad(what):
        out.append({'what': 'item object reused: ' + what, 'kind': 'reuse'})
    # 1. the same routing item sent with two different tag lists
    for make in (lambda tags: H.route(*tags), lambda tags: RoutingMetadata(tags),
                 lambda tags: TaggingMetadata(WellKnownMimeTypes.MESSAGE_RSOCKET_ROUTING, tags)):
        for t1, t2 in (([b'orders.create'], [b'orders.cancel']), ([b'a', b'b'], [b'c']), ([b'x'], []), ([], [b'y', b'z'])):
            item = make(list(t1))
            first = bytes(item.serialize())
            item.tags = list(t2)
            second = bytes(item.serialize())
            fresh = bytes(make(list(t2)).serialize())
            if second != fresh or first != bytes(make(list(t1)).serialize()):
                bad('routing item with tags %r then %r encodes the second time as %r, a fresh item as %r' % (t1, t2, second, fresh))
            dec = make([])
            dec.parse(first)
            dec.parse(fresh)
            if [bytes(x) if not isinstance(x, str) else x.encode() for x in dec.tags] != list(t2) or bytes(dec.serialize()) != fresh:
                bad('routing decoder used for %r then %r holds %r and re-encodes %r' % (first, fresh, dec.tags, bytes(dec.serialize())))
    # 2. serialize - parse other bytes - serialize, for the typed items whose parse REPLACES their content (the list-valued ones —
    #    accepted MIME types, composite — append by design)
    pairs = [
        (lambda: H.data_mime_type(b'text/plain'), lambda: H.data_mime_type(b'application/x-other')),
        (lambda: H.authenticate_simple('user', 'pw'), lambda: H.authenticate_simple('another-user', 'secret')),
        (lambda: H.authenticate_bearer('token-1'), lambda: H.authenticate_bearer('second-token')),
    ]
    for mk_a, mk_b in pairs:
        a = mk_a()
        ea = bytes(a.serialize())
        eb = bytes(mk_b().serialize())
        a.parse(eb)
        again = bytes(a.serialize())
        if again != eb:
            bad('%s serialized (%r), then parsed %r, re-encodes as %r' % (type(a).__name__, ea, eb, again))
    # 3. a composite used for two requests
    c1 = H.composite(H.route('first.route'), H.authenticate_bearer('t'))
    c2 = H.composite(H.route('second.route'), H.authenticate_bearer('t'))
    cm = CompositeMetadata()
    cm.parse(c1)
    r1 = bytes(cm.serialize())
    cm2 = CompositeMetadata()
    cm2.parse(c1)
    cm2.items.clear() if hasattr(cm2, 'items') else None
    cm2.parse(c2)
    if r1 != bytes(c1):
        bad('composite re-encodes %r as %r' % (bytes(c1), r1))
    tail = bytes(cm2.serialize())
    if not tail.endswith(bytes(c2)):
        bad('composite decoder used for a second request re-encodes %r, the second request was %r' % (tail, bytes(c2)))
    return out
