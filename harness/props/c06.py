"""C06 — request-n flow control.  Correspondence on the single-step loop:
(a) the library's own sources (StreamFromGenerator, StreamFromAsyncGenerator, ReactiveX and Rx BackPressurePublisher) driven by
    a recording subscriber with requests / idle iterations / cancel at arbitrary moments: what the subscriber saw once
    the loop has settled is compared with model/Publisher.v (settled = first `credit` events); at every intermediate
    point the oracle checks delivered <= credit;
(b) real endpoints: credit given by the application reaches the wire with exactly that value (initial request-n, REQUEST_N),
    received credit reaches the publisher with exactly that value, and a responder using the library's sources never puts
    more PAYLOAD elements on the wire than the credit it received (stream and both directions of a channel)."""
import os
import asyncio
from datetime import timedelta

from harness import frames as FR, sim
from harness.common import chunks, run_coq_cases, clist, cN, cbool

MODEL_TARGETS = ['model/Publisher.vo', 'corr/C06Corr.vo', 'corr/Harness.vo', 'model/Endpoint.vo', 'model/Network.vo',
                 'corr/NetworkCorr.vo']
ASSUMPTIONS = [
    'the internal scheduling of the producer tasks is asyncio\'s; the model covers every interleaving, the correspondence '
    'compares settled states and checks the safety bound at every intermediate loop iteration',
    'Rx operators (materialize, Subject) behave as documented',
    'request(0) and negative amounts are not generated (range(n) treats them as no credit)',
]
HEADER = ('From Coq Require Import NArith List Bool.\nFrom RSV Require Import model.Publisher corr.C06Corr corr.Harness.\n'
          'Import ListNotations.\nOpen Scope N_scope.\nDefinition chk := chk06.\n')
SHARD = 250
BIG = 0x7FFFFFFF


class Rec:
    """recording subscriber"""

    def __init__(self, request_in_on_subscribe=()):
        self.events = []
        self.subscription = None
        self.request_in_on_subscribe = request_in_on_subscribe

    def on_subscribe(self, subscription):
        self.subscription = subscription
        for n in self.request_in_on_subscribe:      # the usual reactive-streams idiom
            subscription.request(n)

    def on_next(self, value, is_complete=False):
        d = value.data if value is not None else None
        self.events.append(('next', int(d) if d else 0, bool(is_complete)))

    def on_complete(self):
        self.events.append(('complete',))

    def on_error(self, exception):
        self.events.append(('error',))


def make_source(kind, src):
    from rsocket.payload import Payload
    if kind == 'gen':
        from rsocket.streams.stream_from_generator import StreamFromGenerator

        def g():
            for p, c in src:
                yield Payload(b'%d' % p), c
        return StreamFromGenerator(g)
    if kind == 'agen':
        from rsocket.streams.stream_from_async_generator import StreamFromAsyncGenerator

        async def g():
            for p, c in src:
                yield Payload(b'%d' % p), c
        return StreamFromAsyncGenerator(g)
    vs, fails = src
    if kind == 'rx4':
        import reactivex
        from reactivex import operators as ops
        from rsocket.reactivex.back_pressure_publisher import observable_to_publisher
        obs = reactivex.from_iterable([Payload(b'%d' % v) for v in vs])
        if fails:
            obs = reactivex.concat(obs, reactivex.throw(RuntimeError('x')))
        return observable_to_publisher(obs)
    import rx
    from rsocket.rx_support.back_pressure_publisher import observable_to_publisher
    obs = rx.from_iterable([Payload(b'%d' % v) for v in vs])
    if fails:
        obs = rx.concat(obs, rx.throw(RuntimeError('x')))
    return observable_to_publisher(obs)


def run_source(kind, src, script):
    loop = sim.new_loop()
    rec = Rec()
    box = {}
    credit = 0
    cancelled = False
    worst = None
    try:
        def sub():
            box['p'] = make_source(kind, src)
            box['p'].subscribe(rec)
        loop.run(sub)
        for step in script:
            if step[0] == 'request' and not cancelled:
                credit += step[1]
                loop.run(lambda n=step[1]: rec.subscription.request(n))
            elif step[0] == 'burst' and not cancelled:
                # several request(n) calls in ONE loop iteration: the publisher finds them piled up
                credit += sum(step[1])
                loop.run(lambda ns=step[1]: [rec.subscription.request(n) for n in ns])
            elif step[0] == 'ticks':
                for _ in range(step[1]):
                    loop.tick()
                    if len(rec.events) > credit and worst is None:
                        worst = (len(rec.events), credit)
            elif step[0] == 'cancel' and not cancelled and rec.subscription is not None:
                try:
                    loop.run(lambda: rec.subscription.cancel())
                except Exception as e:
                    worst = ('cancel raised %s' % type(e).__name__, credit)
                cancelled = True
                at_cancel = len(rec.events)
            if len(rec.events) > credit and worst is None:
                worst = (len(rec.events), credit)
        loop.settle()
        if cancelled:
            for _ in range(20):
                loop.tick()
        return {'events': list(rec.events), 'credit': credit, 'cancelled': cancelled, 'over': worst,
                'after_cancel': (len(rec.events) - at_cancel) if cancelled else 0}
    finally:
        loop.finish()


def expected_events(kind, src):
    if kind in ('gen', 'agen'):
        out = []
        for p, c in src:
            out.append(('next', p, c))
            if c:
                return out
        return out + [('next', 0, True)]
    vs, fails = src
    return [('next', v, False) for v in vs] + [('error',) if fails else ('complete',)]


def oracle_source(kind, src, r):
    if r['over']:
        return 'subscriber had received %s with a total credit of %s' % r['over']
    exp = expected_events(kind, src)
    got = r['events']
    if got != exp[:len(got)]:
        return 'elements delivered out of order / altered: %s, source %s' % (got[:6], exp[:6])
    if len(got) > r['credit']:
        return '%d events delivered with a total credit of %d' % (len(got), r['credit'])
    if not r['cancelled'] and len(got) != min(r['credit'], len(exp)):
        return 'credit %d granted but only %d of %d events delivered' % (r['credit'], len(got), len(exp))
    if r['cancelled'] and r['after_cancel']:
        return '%d events delivered after cancel' % r['after_cancel']
    terms = [e for e in got if e[0] != 'next' or e[2]]
    if len(terms) > 1:
        return 'more than one terminal signal: %s' % terms
    return None


def _coq_event(e):
    if e[0] == 'next':
        return 'ENext %s %s' % (cN(e[1]), cbool(e[2]))
    return 'EComplete' if e[0] == 'complete' else 'EError'


def _coq_source(kind, src):
    if kind in ('gen', 'agen'):
        return 'SGen %s' % clist(['(%s, %s)' % (cN(p), cbool(c)) for p, c in src])
    return 'SObs %s %s' % (clist([cN(v) for v in src[0]]), cbool(src[1]))


# ---- endpoints -------------------------------------------------------------------------------

class RecPublisher:
    """application publisher that records the credit it is given"""

    def __init__(self):
        self.requests = []
        self.cancelled = 0
        self.subscriber = None

    def subscribe(self, subscriber):
        self.subscriber = subscriber
        subscriber.on_subscribe(self)

    def request(self, n):
        self.requests.append(n)

    def cancel(self):
        self.cancelled += 1


def run_responder(kind, n_items, credits, lenreq, channel):
    """server whose handler returns a library source (or a recording publisher when kind == 'rec'); the peer sends the
    request with credits[0] and then REQUEST_N for the rest.  Returns (payload-next frames on the wire, publisher requests)"""
    from rsocket.rsocket_server import RSocketServer
    from rsocket.request_handler import BaseRequestHandler
    loop = sim.new_loop()
    T = sim.make_transport_class()
    t = T(lenreq=lenreq)
    pubs = []

    class H(BaseRequestHandler):
        async def request_stream(self, payload):
            p = RecPublisher() if kind == 'rec' else make_source(kind, [(i + 1, False) for i in range(n_items)])
            pubs.append(p)
            return p

        async def request_channel(self, payload):
            p = RecPublisher() if kind == 'rec' else make_source(kind, [(i + 1, False) for i in range(n_items)])
            pubs.append(p)
            return p, Rec()
    try:
        loop.run(lambda: RSocketServer(t, handler_factory=H))
        loop.settle()
        first = {'t': 'RequestChannel' if channel else 'RequestStream', 'sid': 1, 'ign': False, 'follows': False,
                 'n': credits[0], 'md': b'', 'd': b'x'}
        if channel:
            first['complete'] = False
        t.inject_frame(FR.build(first).serialize())
        over = None
        total = credits[0]

        def count():
            return sum(1 for b in t.sent if sim.parse_sent(b)['t'] == 'Payload' and sim.parse_sent(b)['next'])
        for c in credits[1:]:
            for _ in range(3):
                loop.tick()
                if count() > total and over is None:
                    over = (count(), total)
            t.inject_frame(FR.build({'t': 'RequestN', 'sid': 1, 'ign': False, 'n': c}).serialize())
            total += c
        loop.settle()
        if count() > total and over is None:
            over = (count(), total)
        wire = [sim.parse_sent(b) for b in t.sent]
        return wire, (pubs[0].requests if kind == 'rec' and pubs else None), over
    finally:
        loop.finish()


def run_requester(initial, more, channel, lenreq, in_on_subscribe=()):
    """client: initial_request_n(initial) then subscription.request(m) for m in more -> request-n values on the wire"""
    from rsocket.rsocket_client import RSocketClient
    from rsocket.helpers import single_transport_provider
    from rsocket.payload import Payload
    loop = sim.new_loop()
    sim.patch_clock(loop)
    T = sim.make_transport_class()
    t = T(lenreq=lenreq)
    box = {}
    rec = Rec(in_on_subscribe)
    try:
        def mk():
            box['c'] = RSocketClient(single_transport_provider(t), keep_alive_period=timedelta(seconds=1000),
                                     max_lifetime_period=timedelta(seconds=5000))
            asyncio.create_task(box['c'].connect())
        loop.run(mk)
        loop.settle()
        c = box['c']

        def go():
            r = c.request_channel(Payload(b'q')) if channel else c.request_stream(Payload(b'q'))
            if initial is not None:
                r.initial_request_n(initial)
            r.subscribe(rec)
        loop.run(go)
        loop.settle()
        for m in more:
            loop.run(lambda m=m: rec.subscription.request(m))
        loop.settle()
        return [sim.parse_sent(b) for b in t.sent if sim.parse_sent(b)['t'] != 'Setup']
    finally:
        loop.finish()


def correspond(ctx, corr, model_ok):
    corr.oracle_failures.extend(credit_behind_request_oracle())
    corr.count('credit granted while the fragmented request is partly written', 20)
    corr.oracle_failures.extend(fragmented_initial_n_oracle())
    corr.count('initial request-n of fragmented and unfragmented stream / channel requests', 12)
    corr.oracle_failures.extend(awaitable_credit_oracle())
    corr.count('AwaitableRSocket: limit_rate = credit in the request frame and every refill (stream and channel)', 24)
    from harness.props import c20
    corr.oracle_failures.extend(c20.credit_oracle())
    corr.count('Rx adapters: configured limit = credit requested from the peer (both sides of streams and channels)', 36)
    rng = ctx.rng
    items = []
    kinds = ['gen', 'agen', 'rx4', 'rx3']
    for i in range(ctx.scale(300, 5000)):
        kind = kinds[i % 4]
        n = rng.choice([0, 1, 2, 3, 5, 8])
        if kind in ('gen', 'agen'):
            cpos = rng.choice([None, None, n - 1, rng.randrange(0, n) if n else None])
            src = [(j + 1, (cpos is not None and j == cpos)) for j in range(n)]
        else:
            src = ([j + 1 for j in range(n)], rng.random() < 0.3)
        script = []
        for _ in range(rng.randint(1, 7)):
            x = rng.random()
            if x < 0.12:
                script.append(('burst', [rng.choice([1, 2, 3, BIG, BIG]) for _ in range(rng.randint(2, 3))]))
            elif x < 0.5:
                script.append(('request', rng.choice([1, 1, 2, 3, n + 1 or 1, BIG])))
            elif x < 0.9:
                script.append(('ticks', rng.randint(0, 4)))
            else:
                script.append(('cancel',))
        r = run_source(kind, src, script)
        corr.evaluations += 1
        corr.count('source:' + kind)
        corr.count('cancelled' if r['cancelled'] else 'ran-to-quiescence')
        if r['credit'] and n:
            corr.nontriv((kind, repr(src), tuple(script)))
        o = oracle_source(kind, src, r)
        if o:
            corr.oracle_failures.append({'what': o, 'kind': 'source', 'source_kind': kind, 'src': src, 'script': script})
        items.append(('(%s, %s, %s, %s)' % (_coq_source(kind, src), cN(r['credit']), cbool(r['cancelled']),
                                            clist([_coq_event(e) for e in r['events']])),
                      {'kind': 'source', 'source_kind': kind, 'src': src, 'script': script, 'impl': r}))
        if len(corr.samples) < 3 and len(r['events']) >= 2 and len(script) >= 4:
            corr.samples.append({'source': kind, 'items': src, 'script': script, 'subscriber_saw': r['events'],
                                 'credit': r['credit']})
    # endpoints: responder never exceeds credit on the wire; credit forwarded exactly
    for i in range(ctx.scale(40, 600)):
        kind = ['gen', 'agen', 'rec'][i % 3]
        channel = rng.random() < 0.5
        n_items = rng.choice([0, 1, 3, 6, 10])
        credits = [rng.choice([1, 2, 3, BIG])] + [rng.choice([1, 2, 5, BIG]) for _ in range(rng.randint(0, 3))]
        wire, pubreq, over = run_responder(kind, n_items, credits, rng.random() < 0.5, channel)
        corr.evaluations += 1
        corr.count('responder:%s:%s' % (kind, 'channel' if channel else 'stream'))
        total = sum(credits)
        nexts = [w for w in wire if w['t'] == 'Payload' and w['next']]
        if over:
            corr.oracle_failures.append({'what': '%d payload elements on the wire with %d credit received' % over,
                                         'kind': 'responder', 'source_kind': kind, 'n_items': n_items, 'credits': credits,
                                         'channel': channel})
        if kind == 'rec':
            if pubreq != credits:
                corr.oracle_failures.append({'what': 'credit received %s, publisher was asked for %s' % (credits, pubreq),
                                             'kind': 'responder', 'source_kind': kind, 'n_items': n_items,
                                             'credits': credits, 'channel': channel})
        else:
            src = [(j + 1, False) for j in range(n_items)]
            # on the wire the synthetic completion on_next(Payload(), True) is a PAYLOAD with COMPLETE only
            evs = [('next', int(w['d']) if w['d'] else 0, bool(w['complete'])) if w['next'] else ('next', 0, True)
                   for w in wire if w['t'] == 'Payload']
            exp = expected_events(kind, src)[:total]
            if evs != exp:
                corr.oracle_failures.append({'what': 'wire carried %s, expected the first %d events %s' % (evs[:6], total, exp[:6]),
                                             'kind': 'responder', 'source_kind': kind, 'n_items': n_items,
                                             'credits': credits, 'channel': channel})
            items.append(('(%s, %s, false, %s)' % (_coq_source(kind, src), cN(total), clist([_coq_event(e) for e in evs])),
                          {'kind': 'responder', 'source_kind': kind, 'n_items': n_items, 'credits': credits,
                           'channel': channel, 'wire_events': evs}))
    for i in range(ctx.scale(30, 300)):
        channel = rng.random() < 0.5
        initial = rng.choice([None, 1, 2, 7, BIG])
        more = [rng.choice([1, 2, 100, BIG]) for _ in range(rng.randint(0, 3))]
        inside = tuple(rng.choice([1, 3, BIG]) for _ in range(rng.choice([0, 0, 1, 2])))
        wire = run_requester(initial, more, channel, rng.random() < 0.5, inside)
        more = list(inside) + more
        kinds_on_wire = [w['t'] for w in wire]
        if kinds_on_wire and kinds_on_wire[0] not in ('RequestStream', 'RequestChannel'):
            corr.oracle_failures.append({'what': 'the stream does not begin with its request frame: %s (credit requested from '
                                                 'inside on_subscribe)' % kinds_on_wire[:3], 'kind': 'requester',
                                         'initial': initial, 'more': more[len(inside):], 'inside': list(inside),
                                         'channel': channel})
        corr.evaluations += 1
        corr.count('requester:%s' % ('channel' if channel else 'stream'))
        exp_first = initial if initial is not None else BIG
        got_first = [w['n'] for w in wire if w['t'] in ('RequestStream', 'RequestChannel')]
        got_more = [w['n'] for w in wire if w['t'] == 'RequestN']
        if got_first != [exp_first] or got_more != more:
            corr.oracle_failures.append({'what': 'credit given by the application (%s then %s) went out as %s then %s' %
                                                 (exp_first, more, got_first, got_more), 'kind': 'requester',
                                         'initial': initial, 'more': more[len(inside):], 'inside': list(inside),
                                         'channel': channel})
    corr.rule = ('(a) sources gen / async-gen / ReactiveX v4 / Rx v3 with 0..8 items (complete flag nowhere, on the last, or on an '
                 'inner item; observable completing or failing), scripts of 1..7 steps of request(1|2|3|n+1|2^31-1), 0..4 idle loop '
                 'iterations and cancel; (b) real server with these sources behind request-stream / request-channel and credit '
                 'arriving in several REQUEST_N frames with idle iterations in between; a recording publisher for the forwarded '
                 'amounts; real client for initial_request_n / Subscription.request values. non-trivial = credit and items both non-zero')
    # the credit theorems of props/C06.v speak about model/Endpoint.v and model/Network.v: tied to the code by two RECORDED
    # real endpoints with the harness as the link (harness/netrec.py), every event's effects — the REQUEST_N / request frames
    # queued, the request(n) calls on recording producers — replayed through net_run inside Coq
    from harness.props import c01
    nets = c01.network_runs(ctx, corr) if os.environ.get('VERIF_C06_NO_NET') != '1' else []
    for n in nets:
        case = n.coq_case()
        corr.count('network: request(n) calls on producers', case.count('PRequestN'))
        corr.count('network: REQUEST_N frames queued', case.count('XEnq (FRequestN'))
        corr.count('network: initial_request_n calls', case.count('LInitialN'))
    if not model_ok:
        return
    if nets:
        c01.network_corr(ctx, corr, nets, exact=False)
    shards = ['Definition cases : list case06 := [\n' + ';\n'.join(x[0] for x in ch) + '\n].'
              for ch in chunks(items, SHARD)]
    out = run_coq_cases(shards, HEADER, timeout=600)
    for si, (n, nf, idx) in enumerate(out):
        for i in idx:
            corr.disagreements.append(dict(items[si * SHARD + i][1], what='credit-driven source vs model/Publisher.v'))


def search(ctx, budget_s):
    from harness.common import CorrResult
    c = CorrResult()
    correspond(ctx, c, False)
    return c.oracle_failures[:1]


def replay(obj):
    if 'credit_case' in (obj.get('case') or {}):
        return bool(credit_behind_request_oracle())
    if (obj.get('case') or {}).get('kind') == 'fragmented-initial-n':
        return bool(fragmented_initial_n_oracle())
    if (obj.get('case') or {}).get('kind') == 'awaitable-credit':
        return bool(awaitable_credit_oracle())
    if 'rx_case' in (obj.get('case') or {}):
        from harness.props import c20
        return bool(c20.oracle(c20.run_case(obj['case']['rx_case'])))
    case = obj['case']
    k = case['kind']
    if k == 'source':
        src = case['src']
        if case['source_kind'] in ('gen', 'agen'):
            src = [tuple(x) for x in src]
        else:
            src = (src[0], src[1])
        r = run_source(case['source_kind'], src, [tuple(s) for s in case['script']])
        o = oracle_source(case['source_kind'], src, r)
    elif k == 'responder':
        o = None
        for lenreq in (True, False):
            wire, pubreq, over = run_responder(case['source_kind'], case['n_items'], case['credits'], lenreq, case['channel'])
            total = sum(case['credits'])
            if over:
                o = 'over credit %s' % (over,)
            if case['source_kind'] == 'rec' and pubreq != case['credits']:
                o = 'forwarded %s' % pubreq
            if case['source_kind'] != 'rec':
                src = [(j + 1, False) for j in range(case['n_items'])]
                evs = [('next', int(w['d']) if w['d'] else 0, bool(w['complete'])) if w['next'] else ('next', 0, True)
                       for w in wire if w['t'] == 'Payload']
                if evs != expected_events(case['source_kind'], src)[:total]:
                    o = 'wire %s' % evs[:6]
    else:
        inside = tuple(case.get('inside', []))
        wire = run_requester(case['initial'], case['more'], case['channel'], True, inside)
        exp_first = case['initial'] if case['initial'] is not None else BIG
        got_first = [w['n'] for w in wire if w['t'] in ('RequestStream', 'RequestChannel')]
        got_more = [w['n'] for w in wire if w['t'] == 'RequestN']
        o = None if (got_first == [exp_first] and got_more == list(inside) + case['more']
                     and wire and wire[0]['t'] in ('RequestStream', 'RequestChannel')) else 'credit values altered or reordered'
    if o:
        print('oracle:', o)
    return bool(o)


# ---------------------------------------------------------------------------------------------
# credit granted right after subscribing, while the stream's own fragmented request frame is still being written

def run_credit_behind_request(permits, lenreq, channel, seed):
    """two real endpoints, requester fragment size 64 and a blocked writer; the 400-byte request needs several fragments;
    the subscriber grants 2 more credits from on_subscribe (initial request-n = 1); the responder serves 3 elements from a
    StreamFromGenerator.  All 3 must arrive: the REQUEST_N must not reach the peer before the request is complete."""
    import random as _r
    from harness import net as NET
    from rsocket.payload import Payload
    from rsocket.request_handler import BaseRequestHandler
    from rsocket.streams.stream_from_generator import StreamFromGenerator
    rng = _r.Random(seed)

    class H(BaseRequestHandler):
        async def request_stream(self, payload):
            def g():
                for i in range(3):
                    yield Payload(b'%d' % (i + 1)), i == 2
            return StreamFromGenerator(g)

        async def request_channel(self, payload):
            def g():
                for i in range(3):
                    yield Payload(b'%d' % (i + 1)), i == 2
            return StreamFromGenerator(g), None
    net = NET.Net(lenreq, 64, None, handler_factories={'server': H})
    try:
        net.flush(rng)
        t = net.t['client']
        t.gated = True
        sub = Rec(request_in_on_subscribe=(2,))
        ep = net.ep['client']
        p = Payload(b'Q' * 400)
        if channel:
            net.act(lambda: ep.request_channel(p).initial_request_n(1).subscribe(sub))
        else:
            net.act(lambda: ep.request_stream(p).initial_request_n(1).subscribe(sub))
        for _ in range(permits):
            t.permit(1)
            net.loop.settle()
        t.gated = False
        for _ in range(60):
            t.permit(1)
            net.loop.settle()
            net.flush(rng)
        got = [e for e in sub.events if e[0] == 'next']
        return {'elements': len(got), 'events': [e[0] for e in sub.events],
                'wire': [(sim.parse_sent(b)['t'], bool(sim.parse_sent(b).get('follows'))) for b in t.wire]}
    finally:
        net.finish()


def credit_behind_request_oracle():
    out = []
    n = 0
    for channel in (False, True):
        for permits in (0, 1, 2, 3, 5):
            for lenreq in (True, False):
                n += 1
                r = run_credit_behind_request(permits, lenreq, channel, n)
                if r['elements'] != 3:
                    out.append({'what': 'credit granted from on_subscribe was lost: %d of 3 elements delivered' % r['elements'],
                                'credit_case': [permits, lenreq, channel, n], 'wire': repr(r['wire'])[:300]})
    return out


# ---------------------------------------------------------------------------------------------
# AwaitableRSocket: the limit_rate an application passes is the credit it grants — in the request frame and in every refill

def awaitable_credit_oracle():
    from harness.props import c08
    out = []
    n = 0
    for kind in ('rs', 'rc'):
        for limit in (1, 2, 3, 5):
            for n_elems in (limit - 1, limit, 2 * limit + 1):
                n += 1
                case = [kind, max(n_elems, 1), limit, n % 2 == 0, n % 3 == 0, 500 + n]
                r = c08.run_collector(*case)
                granted = 0
                bad = None
                delivered = 0
                for d, fr in r['events']:
                    if fr.get('sid') != 1:
                        continue
                    if d == 'out' and fr['t'] in ('RequestStream', 'RequestChannel', 'RequestN'):
                        if fr['n'] != limit:
                            bad = '%s carries n=%d, the application granted limit_rate=%d' % (fr['t'], fr['n'], limit)
                            break
                        granted += fr['n']
                    elif d == 'in' and fr['t'] == 'Payload' and fr.get('next'):
                        delivered += 1
                        if delivered > granted:
                            bad = 'element %d arrived with %d granted' % (delivered, granted)
                            break
                if bad is None and not r['done']:
                    bad = 'the awaitable did not complete'
                if bad:
                    out.append({'what': 'AwaitableRSocket.%s(limit_rate=%d): %s' % ('request_stream' if kind == 'rs' else 'request_channel', limit, bad),
                                'kind': 'awaitable-credit', 'awaitable_case': case})
    return out


# ---------------------------------------------------------------------------------------------
# the initial request-n of a request that goes out FRAGMENTED is the application's value, like that of any other request

def fragmented_initial_n_oracle():
    import asyncio
    from datetime import timedelta
    from rsocket.rsocket_client import RSocketClient
    from rsocket.helpers import single_transport_provider
    from rsocket.payload import Payload
    from reactivestreams.subscriber import DefaultSubscriber
    out = []
    for kind in ('stream', 'channel'):
        for n in (1, 2, 77):
            for size in (20, 300):
                loop = sim.new_loop()
                sim.patch_clock(loop)
                T = sim.make_transport_class()
                t = T(lenreq=True)
                box = {}
                try:
                    def mk():
                        box['c'] = RSocketClient(single_transport_provider(t), fragment_size_bytes=64, keep_alive_period=timedelta(seconds=1000),
                                                 max_lifetime_period=timedelta(seconds=5000))
                        asyncio.create_task(box['c'].connect())
                    loop.run(mk)
                    loop.settle()
                    c = box['c']
                    p = Payload(b'q' * size)
                    if kind == 'stream':
                        loop.run(lambda: c.request_stream(p).initial_request_n(n).subscribe(DefaultSubscriber()))
                    else:
                        loop.run(lambda: c.request_channel(p).initial_request_n(n).subscribe(DefaultSubscriber()))
                    loop.settle()
                    frames = [sim.parse_sent(b) for b in t.sent]
                    req = [f for f in frames if f['t'] in ('RequestStream', 'RequestChannel')]
                    if len(req) != 1 or req[0]['n'] != n:
                        out.append({'what': 'request-%s with initial_request_n(%d) and a %d-byte payload at fragment size 64: the request frame '
                                            'carries n=%s' % (kind, n, size, [f['n'] for f in req]), 'kind': 'fragmented-initial-n'})
                finally:
                    loop.finish()
    return out
