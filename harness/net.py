"""Two REAL endpoints (RSocketClient + RSocketServer) joined by a harness-controlled link on one single-step loop.

Bytes written by one endpoint stay in the link until the harness delivers them: in byte-stream framing any number of bytes at
a time (frames cut anywhere, several frames in one read), in message framing whole messages.  Applications on both sides are
recording doubles: every payload handed to the library and every payload handed to the application is logged with the
interaction it belongs to.  Used by C01 (and by C20 with the Rx adapters in between)."""
import asyncio
from datetime import timedelta

from harness import sim, frames as FR


def make_net_transport():
    from rsocket.transports.transport import Transport

    class NetTransport(Transport):
        def __init__(self, name, lenreq):
            super().__init__()
            self.name = name
            self.lenreq = lenreq
            self.inq = asyncio.Queue()
            self.out = bytearray()      # byte-stream framing: written, not yet delivered
            self.msgs = []              # message framing
            self.wire = []              # every frame written, serialized, in order
            self.peer = None
            self.closed = False
            self.gated = False          # a blocked writer: send_frame waits for a permit
            self._permits = 0
            self._waiter = None

        def requires_length_header(self):
            return self.lenreq

        def permit(self, n=1):
            self._permits += n
            if self._waiter is not None and not self._waiter.done():
                self._waiter.set_result(None)

        async def send_frame(self, frame):
            while self.gated and self._permits == 0:
                self._waiter = asyncio.get_event_loop().create_future()
                await self._waiter
            if self.gated:
                self._permits -= 1
            b = frame.serialize()
            self.wire.append(b)
            if self.lenreq:
                self.out += len(b).to_bytes(3, 'big') + b
            else:
                self.msgs.append(b)

        async def next_frame_generator(self):
            item = await self.inq.get()
            if item is None:
                return None
            if self.lenreq:
                return self._frame_parser.receive_data(item)
            return self._frame_parser.receive_data(item, 0)

        async def close(self):
            self.closed = True

        # harness side
        def pending(self):
            return len(self.out) if self.lenreq else len(self.msgs)

        def deliver(self, n):
            """hand the next n bytes (byte stream) / n messages to the peer's reader; returns what was delivered"""
            if self.lenreq:
                chunk = bytes(self.out[:n])
                del self.out[:n]
                if chunk:
                    self.peer.inq.put_nowait(chunk)
                return [chunk] if chunk else []
            out = self.msgs[:n]
            del self.msgs[:n]
            for m in out:
                self.peer.inq.put_nowait(m)
            return out
    return NetTransport


class LogList(list):
    """a list whose appends can be observed at the moment they happen"""
    on_append = None

    def append(self, x):
        super().append(x)
        if self.on_append is not None:
            self.on_append(x)


class RecPub:
    """application publisher double: the script decides when it emits"""

    def __init__(self, app, key):
        self.app, self.key = app, key
        self.subscriber = None
        self.requested = 0
        self.cancelled = False

    def subscribe(self, subscriber):
        self.subscriber = subscriber
        subscriber.on_subscribe(self)

    def request(self, n):
        self.requested += n

    def cancel(self):
        self.cancelled = True


class RecSub:
    def __init__(self, app, key, credit=0x7FFFFFFF):
        self.app, self.key, self.credit = app, key, credit
        self.subscription = None
        self.events = []

    def on_subscribe(self, subscription):
        self.subscription = subscription

    def on_next(self, value, is_complete=False):
        self.events.append(('next', bytes(value.metadata or b''), bytes(value.data or b''), bool(is_complete)))

    def on_complete(self):
        self.events.append(('complete',))

    def on_error(self, exception):
        self.events.append(('error', repr(exception)[:80]))


class App:
    """the application of one endpoint: records what its handlers are given and owns the doubles it returns"""

    def __init__(self, net, side):
        self.net, self.side = net, side
        self.seen = []            # ('rr'|'rs'|'rc'|'fnf'|'push', md, data) in arrival order
        self.futures = {}         # request data -> future to resolve later
        self.pubs = {}            # request data -> RecPub (responder's publisher)
        self.subs = {}            # request data -> RecSub (responder's subscriber of a channel)

    def handler_class(app):
        from rsocket.request_handler import BaseRequestHandler

        def pl(p):
            return bytes(p.metadata or b''), bytes(p.data or b'')

        class H(BaseRequestHandler):
            async def request_response(self, payload):
                md, d = pl(payload)
                app.seen.append(('rr', md, d))
                f = asyncio.get_event_loop().create_future()
                app.futures[d] = f
                return f

            async def request_stream(self, payload):
                md, d = pl(payload)
                app.seen.append(('rs', md, d))
                p = RecPub(app, d)
                app.pubs[d] = p
                return p

            async def request_channel(self, payload):
                md, d = pl(payload)
                app.seen.append(('rc', md, d))
                p = RecPub(app, d)
                s = RecSub(app, d)
                app.pubs[d] = p
                app.subs[d] = s
                return p, s

            async def request_fire_and_forget(self, payload):
                md, d = pl(payload)
                app.seen.append(('fnf', md, d))

            async def on_metadata_push(self, payload):
                app.seen.append(('push', bytes(payload.metadata or b''), b''))
        return H


class LeasePub:
    """the server application's lease publisher: the script decides when a lease is granted"""

    def __init__(self):
        self.subscriber = None

    def subscribe(self, subscriber):
        self.subscriber = subscriber

    def grant(self, n, ttl_ms=3600000):
        from rsocket.lease import DefinedLease
        self.subscriber.on_next(DefinedLease(maximum_request_count=n, maximum_lease_time=timedelta(milliseconds=ttl_ms)))


class Net:
    def __init__(self, lenreq, frag_client=None, frag_server=None, lease=False, handler_factories=None, client_kwargs=None):
        from rsocket.rsocket_server import RSocketServer
        from rsocket.rsocket_client import RSocketClient
        from rsocket.helpers import single_transport_provider
        self.loop = sim.new_loop()
        sim.patch_clock(self.loop)
        T = make_net_transport()
        self.tc, self.ts = T('client', lenreq), T('server', lenreq)
        self.tc.peer, self.ts.peer = self.ts, self.tc
        self.lenreq = lenreq
        self.apps = {'client': App(self, 'client'), 'server': App(self, 'server')}
        self.chunks = {'client': [], 'server': []}      # what was delivered TO that side, in order
        box = {}
        self.lease = LeasePub() if lease else None

        hf = handler_factories or {}

        def mk():
            box['s'] = RSocketServer(self.ts, handler_factory=hf.get('server') or self.apps['server'].handler_class(),
                                     fragment_size_bytes=frag_server, lease_publisher=self.lease)
            box['c'] = RSocketClient(single_transport_provider(self.tc),
                                     handler_factory=hf.get('client') or self.apps['client'].handler_class(),
                                     fragment_size_bytes=frag_client, keep_alive_period=timedelta(seconds=100000),
                                     max_lifetime_period=timedelta(seconds=500000), honor_lease=lease, **(client_kwargs or {}))
            asyncio.create_task(box['c'].connect())
        self.loop.run(mk)
        self.loop.settle()
        self.ep = {'client': box['c'], 'server': box['s']}
        self.t = {'client': self.tc, 'server': self.ts}
        self.dispatched = {'client': LogList(), 'server': LogList()}    # complete frames reaching dispatch on that side
        for side in ('client', 'server'):
            self._wrap(side)

    def _wrap(self, side):
        ep = self.ep[side]
        log = self.dispatched[side]
        from rsocket.frame_fragment_cache import FrameFragmentCache

        class LoggingCache(FrameFragmentCache):
            __slots__ = ()

            def append(self, frame):
                r = super().append(frame)
                if r is not None:
                    log.append(FR.describe(r))
                return r
        ep._frame_fragment_cache = LoggingCache()       # (empty at this point: nothing has been received yet)
        orig_handle = ep._handle_next_frame
        from rsocket.frame import is_fragmentable_frame, InvalidFrame

        async def handle(frame, table):
            if not isinstance(frame, InvalidFrame) and not is_fragmentable_frame(frame):
                log.append(FR.describe(frame))
            return await orig_handle(frame, table)
        ep._handle_next_frame = handle

    def other(self, side):
        return 'server' if side == 'client' else 'client'

    def deliver(self, to_side, n):
        src = self.t[self.other(to_side)]
        got = src.deliver(n)
        self.chunks[to_side].extend(got)
        self.loop.settle()
        return got

    def act(self, fn):
        r = self.loop.run(fn)
        self.loop.settle()
        return r

    def flush(self, rng=None, limit=4000):
        """deliver everything (in random chunks if rng is given) until nothing is pending anywhere"""
        for _ in range(limit):
            self.loop.settle()
            pend = [s for s in ('client', 'server') if self.t[self.other(s)].pending()]
            if not pend:
                return True
            to = rng.choice(pend) if rng else pend[0]
            p = self.t[self.other(to)].pending()
            n = p if rng is None else (rng.choice([1, 2, 3, 5, 7, 20, 64, 200, p]) if self.lenreq else rng.choice([1, 1, 2, p]))
            self.deliver(to, max(1, min(n, p)))
        return False

    def finish(self):
        self.loop.finish()
