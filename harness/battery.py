"""Oracles shared between properties.  A change to the library rarely respects the boundaries between the properties: the same
slip is a violation of several of them (a publisher left running at connection loss breaks C11's sweep, C08's wire legality on
the next connection and C17's fresh start).  Each oracle here drives the REAL library through one family of awkward situations
and returns failure records; the property modules run the ones whose verdict is part of their statement."""

# name -> (module, function, key that identifies its failure records, approximate number of situations)
ORACLES = {
    'stale-partial-across-reconnect': ('c01', 'reconnect_oracle', 'reconnect_case', 4),
    'reconnect-window-requests': ('c07', 'reconnect_oracle', 'reconnect_case', 24),
    'late-requests': ('c07', 'late_requests_oracle', 'late_case', 18),
    'reconnect-producers-wire': ('c08', 'reconnect_wire_oracle', 'reconnect_wire_case', 18),
    'immediate-close': ('c11', 'immediate_close_oracle', 'immediate_case', 6),
    'reconnect-setup': ('c16', 'reconnect_setup_oracle', 'reconnect_setup_case', 6),
    'rx-disposal': ('c20', 'disposal_oracle', 'rx_case', 78),
    'rx-credit': ('c20', 'credit_oracle', 'rx_case', 36),
    'rx-take': ('c20', 'take_oracle', 'rx_case', 66),
    'slow-connect-keepalive': ('c15', 'slow_connect_oracle', 'slow_case', 3),
    'partial-request-cancel': ('c10', 'partial_cancel_oracle', 'partial_case', 40),
    'lease-queue-across-reconnect': ('c10', 'lease_reconnect_oracle', 'lease_reconnect_case', 9),
    'failing-source-wire': ('c08', 'failing_source_oracle', 'failing_source_case', 36),
    'second-connection-keepalive': ('c15', 'second_connection_oracle', 'second_connection_case', 3),
    'stream0-order': ('c05', 'stream0_order_oracle', 'stream0_case', 4),
    'messaging-transport-failure': ('c04', 'messaging_battery', 'messaging_case', 60),
    'rx-adapter-session': ('c20', 'adapter_session_oracle', 'adapter_session', 10),
    'gated-responder-error': ('c08', 'gated_oracle', 'gated_case', 24),
    'aiohttp-websocket': ('c12', 'websocket_oracle', 'websocket_case', 2),
    'graphql-subscription': ('c09', 'graphql_oracle', 'graphql_case', 2),
    'endpoint-reads': ('c04', 'endpoint_reads_battery', 'kind', 100),
}


# oracles on a REAL asyncio loop (asyncio.run): run in a child process under a wall-clock limit
ISOLATED = ('aiohttp-websocket', 'graphql-subscription')


def _fn(name):
    import importlib
    mod, fn, key, n = ORACLES[name]
    return getattr(importlib.import_module('harness.props.' + mod), fn), key, n


def run(corr, names):
    """run the named oracles, add their failures and their counts to the correspondence result"""
    for name in names:
        fn, key, n = _fn(name)
        from harness import epcheck, common
        if name in ISOLATED:
            fails = common.run_isolated(ORACLES[name][0], ORACLES[name][1])
        else:
            fails = epcheck.guarded(fn, 60, 'shared oracle ' + name)
        for f in fails:
            f.setdefault('battery', name)
        corr.oracle_failures.extend(fails)
        corr.count('shared oracle: ' + name, n)
        corr.evaluations += n


def search(names):
    out = []
    for name in names:
        fn, key, n = _fn(name)
        for f in fn():
            f.setdefault('battery', name)
            out.append(f)
    return out


def common_run_isolated(module, func):
    from harness import common
    return common.run_isolated(module, func)


def replay(case):
    """True / False if `case` is a failure record of a shared oracle (re-run it), None otherwise"""
    case = case or {}
    name = case.get('battery')
    if name is None and str(case.get('guarded', '')).startswith('shared oracle '):
        name = case['guarded'][len('shared oracle '):]
    if case.get('isolated'):
        return bool(common_run_isolated(*case['isolated']))
    if case.get('guarded') == 'whole correspondence':
        return True          # the run did not come back within its CPU budget: nothing smaller to replay
    if name not in ORACLES:
        return None
    fn, key, n = _fn(name)
    from harness import epcheck, common
    if name in ISOLATED:
        return bool(common.run_isolated(ORACLES[name][0], ORACLES[name][1]))
    return bool(epcheck.guarded(fn, 60, 'shared oracle ' + name))
