"""Trace recording on a real endpoint (shared by C07..C12, C01, C13's duplicate-id clause).

A real RSocketServer or RSocketClient runs on the single-step loop with a harness transport.  From OUTSIDE the library
(instance attributes and recording application objects — no source hooks) the harness records a flat log of
  ('label', <atomic section that ran>)      and      ('eff', <what the library did in it>)
together with the key sets of the stream table and the reassembly cache at every label boundary.  Coq replays the labels
through model/Endpoint.v and compares effects and key sets (corr/EndpointCorr.v)."""
from harness import internals, common
import asyncio
import functools
from datetime import timedelta

from harness import frames as FR, sim
from harness.common import cN, cbool, cbytes, clist

PKT = {'RequestResponseRequester': 'KRRReq', 'RequestResponseResponder': 'KRRResp', 'RequestStreamRequester': 'KRSReq',
       'RequestStreamResponder': 'KRSResp', 'RequestChannelRequester': 'KChanReq', 'RequestChannelResponder': 'KChanResp'}


class Recorder:
    def __init__(self, role='server', lenreq=False, fragment_size=None):
        self.role = role
        self.fragment_size = fragment_size
        self.loop = sim.new_loop()
        sim.patch_clock(self.loop)
        T = sim.make_transport_class()
        self.t = T(lenreq=lenreq)
        self.log = []                 # ('state', tk, ck) | ('label', ...) | ('eff', ...)
        self.objs = []                # handler objects by oid
        self.app = {}                 # oid -> dict(fut=..., pub=..., sub=...)
        self.next_outcome = ('none',)
        self.pending_app = None
        self.ep = None
        self.on_close_calls = 0
        self._install_class_wrappers()
        self._make_endpoint()

    # ---- logging primitives
    def snapshot(self):
        sc = self.ep._stream_control._streams
        ck = internals.cache_keys(self.ep)
        return ('state', sorted(sc.keys()), sorted(ck.keys()))

    def table_snapshot(self):
        """what is registered right now, in table order, as the facts the close sweep depends on"""
        out = []
        for sid, h in self.ep._stream_control._streams.items():
            kind = PKT.get(type(h).__name__, '?')
            ent = {'sid': sid, 'oid': getattr(h, '_verif_oid', None), 'kind': kind}
            if kind == 'KRRReq':
                ent['pending'] = not internals.rr_future(h).done()
            elif kind == 'KRRResp':
                ent['pending'] = not h.future.done()
            elif kind == 'KRSReq':
                ent['has_sub'] = getattr(h, '_subscriber', None) is not None
            elif kind in ('KChanReq', 'KChanResp'):
                ent['has_sub'] = h.remote_subscriber is not None
                ent['recv'] = internals.channel_direction_closed(h, 'recv')
                ent['has_pub'] = h.subscriber is not None and h.subscriber.subscription is not None
            out.append(ent)
        return out

    def label(self, *l):
        if getattr(self, 'stopped', False):
            return
        if self.ep is not None and hasattr(self.ep, '_stream_control'):
            self.log.append(self.snapshot())
        self.log.append(('label',) + l)

    def eff(self, *e):
        if getattr(self, 'stopped', False):
            return
        self.log.append(('eff',) + e)

    # ---- application objects
    def _handler_class(rec):
        from rsocket.request_handler import BaseRequestHandler
        from rsocket.payload import Payload

        def pl(p):
            return (bytes(p.metadata or b''), bytes(p.data or b''))

        class H(BaseRequestHandler):
            async def request_response(self, payload):
                rec.eff('handler', 'HResponse', *pl(payload))
                if rec.next_outcome[0] == 'raise':
                    raise RuntimeError('handler failed')
                f = rec.loop.create_future()
                rec.pending_app = {'fut': f}
                return f

            async def request_stream(self, payload):
                rec.eff('handler', 'HStream', *pl(payload))
                if rec.next_outcome[0] == 'raise':
                    raise RuntimeError('handler failed')
                p = RecPublisher(rec)
                rec.pending_app = {'pub': p}
                return p

            async def request_channel(self, payload):
                rec.eff('handler', 'HChannel', *pl(payload))
                if rec.next_outcome[0] == 'raise':
                    raise RuntimeError('handler failed')
                hp, hs = (rec.next_outcome[1], rec.next_outcome[2]) if rec.next_outcome[0] == 'channel' else (True, True)
                p = RecPublisher(rec) if hp else None
                s = RecSubscriber(rec) if hs else None
                rec.pending_app = {'pub': p, 'sub': s}
                return p, s

            async def request_fire_and_forget(self, payload):
                rec.eff('handler', 'HFnf', *pl(payload))
                if rec.next_outcome[0] == 'raise':
                    raise RuntimeError('handler failed')

            async def on_metadata_push(self, payload):
                rec.eff('handler', 'HMetaPush', bytes(payload.metadata or b''), b'')
                if rec.next_outcome[0] == 'raise':
                    raise RuntimeError('handler failed')

            async def on_error(self, error_code, payload):
                rec.eff('handler', 'HOnError', b'', bytes(payload.data or b''))
                if rec.next_outcome[0] == 'raise':
                    raise RuntimeError('handler failed')

            async def on_close(self, rsocket, exception=None):
                rec.on_close_calls += 1          # not part of the trace: counted for C11
                for _ in range(getattr(rec, 'on_close_suspends', 0)):      # an application hook that takes a while
                    await asyncio.sleep(0)
                rec.on_close_finished = getattr(rec, 'on_close_finished', 0) + 1
                if getattr(rec, 'on_close_raises', False):
                    raise RuntimeError('on_close failed')
        return H

    def _install_class_wrappers(rec):
        """per-recorder wrappers on done-callbacks (they are bound when add_done_callback is called, so they are wrapped on
        the instances at registration time, see _on_register)"""

    def _make_endpoint(self):
        from rsocket.rsocket_server import RSocketServer
        from rsocket.rsocket_client import RSocketClient
        from rsocket.helpers import single_transport_provider
        H = self._handler_class()
        box = {}
        if self.role == 'server':
            self.loop.run(lambda: box.setdefault('e', RSocketServer(self.t, handler_factory=H,
                                                                   fragment_size_bytes=self.fragment_size)))
            self.loop.settle()
            self.ep = box['e']
        else:
            def mk():
                box['e'] = RSocketClient(single_transport_provider(self.t), handler_factory=H,
                                         keep_alive_period=timedelta(seconds=100000),
                                         max_lifetime_period=timedelta(seconds=500000),
                                         fragment_size_bytes=self.fragment_size)
                asyncio.create_task(box['e'].connect())
            self.loop.run(mk)
            self.loop.settle()
            self.ep = box['e']
            self.t.sent.clear()
        ep = self.ep
        rec = self
        # --- outside-in wrappers (instance attributes)
        orig_send = ep.send_frame

        def send_frame(frame):
            rec.eff('enq', FR.describe(frame))
            return orig_send(frame)
        ep.send_frame = send_frame

        orig_reg = ep._register_stream

        def _register_stream(stream_id, handler):
            r = orig_reg(stream_id, handler)     # raises for stream 0 before anything is recorded
            rec._on_register(handler)
            return r
        ep._register_stream = _register_stream

        orig_handle = ep._handle_next_frame

        async def _handle_next_frame(frame, table):
            from rsocket.frame import InvalidFrame
            if isinstance(frame, InvalidFrame):
                return await orig_handle(frame, table)
            try:
                d = FR.describe(frame)
                if any(v is None for k, v in d.items() if k != 'resume'):
                    raise ValueError('half-parsed frame')
            except Exception:
                # a frame object that is only half parsed was handed to dispatch
                rec.broken_frames = getattr(rec, 'broken_frames', 0) + 1
                return await orig_handle(frame, table)
            utf8 = True
            if d['t'] == 'Error':
                try:
                    d['d'].decode('utf-8')
                except UnicodeDecodeError:
                    utf8 = False
            rec.label('recv', d, rec.next_outcome, utf8)
            return await orig_handle(frame, table)
        ep._handle_next_frame = _handle_next_frame

        orig_stop = ep.stop_all_streams

        def stop_all_streams(*a, **k):
            rec.label('close')
            rec.pre_close_all = getattr(rec, 'pre_close_all', []) + [rec.table_snapshot()]
            rec.pre_close = rec.pre_close_all[0]
            return orig_stop(*a, **k)
        ep.stop_all_streams = stop_all_streams

    def _on_register(self, handler):
        # called from inside the library's registration: a failure of the instrumentation itself must not turn into
        # behaviour of the library (it would be judged by the oracles as if the library had done it)
        try:
            self._on_register_(handler)
        except Exception as e:       # noqa
            common.harness_error('instrumenting a %s failed: %r' % (type(handler).__name__, e))

    def _on_register_(self, handler):
        oid = len(self.objs)
        self.objs.append(handler)
        handler._verif_oid = oid
        rec = self
        name = type(handler).__name__
        app = dict(self.pending_app or {})
        self.pending_app = None
        self.app[oid] = app
        if name == 'RequestResponseRequester':
            fut = internals.rr_future(handler)
            app['fut'] = fut
            _log_future(rec, fut, oid, requester=True)
            # wrap the done-callback the handler installs in setup() (register_new_stream(...).setup() runs after this):
            # found by what it is — a done-callback of the awaitable bound to the handler — not by its name
            orig_setup = handler.setup

            def setup(*a, **k):
                r = orig_setup(*a, **k)
                if not internals.wrap_done_callbacks(handler, fut, lambda f: rec.label('futcb', oid, ('cancel',))):
                    common.harness_error('no done-callback of the request-response awaitable is bound to its handler')
                return r
            handler.setup = setup
        elif name == 'RequestResponseResponder':
            fut = handler.future
            app['fut'] = fut
            _log_future(rec, fut, oid, requester=False)
            orig_done = handler.future_done

            def done(f):
                if f.cancelled():
                    r = ('cancel',)
                elif f.exception() is not None:
                    r = ('error',)
                else:
                    p = f.result()
                    r = ('result', bytes(p.metadata or b''), bytes(p.data or b''))
                rec.label('futcb', oid, r)
                return orig_done(f)
            handler.future_done = done
        for k in ('pub', 'sub'):
            if app.get(k) is not None:
                app[k].oid = oid

    # ---- actions (each one atomic section executed as a loop callback)
    def act(self, fn):
        return self.loop.run(fn)

    def settle(self):
        self.loop.settle()

    def finish(self):
        self.log.append(self.snapshot())
        self.stopped = True          # what the teardown of the harness loop triggers is not part of the trace
        self.loop.finish()


def _log_future(rec, fut, oid, requester):
    orig_sr, orig_se, orig_c = fut.set_result, fut.set_exception, fut.cancel
    if requester:
        def set_result(v):
            rec.eff('fut', oid, True, bytes(getattr(v, 'metadata', None) or b''), bytes(getattr(v, 'data', None) or b''))
            return orig_sr(v)

        def set_exception(e):
            rec.eff('fut', oid, False)
            return orig_se(e)
        fut.set_result, fut.set_exception = set_result, set_exception
    else:
        def cancel(*a, **k):
            if not fut.done():
                if getattr(fut, '_verif_app_cancel', False):
                    fut._verif_app_cancel = False
                else:
                    rec.eff('appfutcancel', oid)
            return orig_c(*a, **k)
        fut.cancel = cancel


class RecPublisher:
    def __init__(self, rec):
        self.rec = rec
        self.oid = None
        self.subscriber = None

    def subscribe(self, subscriber):
        self.subscriber = subscriber
        self.rec.eff('pub', self.oid, ('subscribe',))
        subscriber.on_subscribe(self)

    def request(self, n):
        self.rec.eff('pub', self.oid, ('request', n))

    def cancel(self):
        self.rec.eff('pub', self.oid, ('cancel',))
        if getattr(self.rec, 'pub_cancel_raises', False):
            raise RuntimeError('publisher.cancel failed')


class RecSubscriber:
    def __init__(self, rec):
        self.rec = rec
        self.oid = None
        self.subscription = None

    def on_subscribe(self, subscription):
        self.subscription = subscription
        self.rec.eff('cb', self.oid, ('subscribe',))

    def on_next(self, value, is_complete=False):
        self.rec.eff('cb', self.oid, ('next', bytes(value.metadata or b''), bytes(value.data or b''), bool(is_complete)))

    def on_complete(self):
        self.rec.eff('cb', self.oid, ('complete',))

    def on_error(self, exception):
        self.rec.eff('cb', self.oid, ('error',))
        if getattr(self.rec, 'sub_error_raises', False):
            raise RuntimeError('subscriber.on_error failed')


# ---------------------------------------------------------------------------------------------
# log -> Coq

def _outcome(o):
    if o[0] == 'raise':
        return 'ORaise'
    if o[0] == 'future':
        return 'OFuture'
    if o[0] == 'publisher':
        return 'OPublisher'
    if o[0] == 'channel':
        return '(OChannel %s %s)' % (cbool(o[1]), cbool(o[2]))
    return 'ONone'


def _appres(r):
    if r[0] == 'result':
        return '(ARResult %s %s)' % (cbytes(r[1]), cbytes(r[2]))
    return 'ARError' if r[0] == 'error' else 'ARCancel'


def coq_label(l):
    k = l[0]
    B = cbytes
    if k == 'recv':
        return 'LRecv %s %s' % (FR.coq_frame(l[1]), _outcome(l[2]))
    if k == 'close':
        return 'LClose'
    if k == 'futcb':
        return 'LFutCb %d%%nat %s' % (l[1], _appres(l[2]))
    if k == 'reqresponse':
        return 'LReqResponse %s %s' % (B(l[1]), B(l[2]))
    if k == 'reqstream':
        return 'LReqStream %s %s' % (B(l[1]), B(l[2]))
    if k == 'reqchannel':
        return 'LReqChannel %s %s %s' % (B(l[1]), B(l[2]), cbool(l[3]))
    if k == 'initialn':
        return 'LInitialN %d%%nat %s %s' % (l[1], cN(max(l[2], 0)), cbool(l[2] > 0))
    if k == 'subscribe':
        return 'LSubscribe %d%%nat %s %s %s' % (l[1], cbool(l[2]), B(l[3]), B(l[4]))
    if k == 'fnf':
        return 'LFnf %s %s' % (B(l[1]), B(l[2]))
    if k == 'metapush':
        return 'LMetaPush %s' % B(l[1])
    if k == 'requestn':
        return 'LRequestN %d%%nat %s' % (l[1], cN(l[2]))
    if k == 'cancel':
        return 'LCancel %d%%nat' % l[1]
    if k == 'futcancel':
        return 'LFutCancel %d%%nat' % l[1]
    if k == 'appresolve':
        return 'LAppResolve %d%%nat %s' % (l[1], _appres(l[2]))
    if k == 'pubnext':
        return 'LPubNext %d%%nat %s %s %s' % (l[1], B(l[2]), B(l[3]), cbool(l[4]))
    if k == 'pubcomplete':
        return 'LPubComplete %d%%nat' % l[1]
    if k == 'puberror':
        return 'LPubError %d%%nat' % l[1]
    raise ValueError(l)


def coq_effect(e):
    k = e[0]
    if k == 'enq':
        d = dict(e[1])
        if d['t'] == 'Error':
            d['d'] = b''
        return 'XEnq %s' % FR.coq_frame(d)
    if k == 'fut':
        md, d = (e[3], e[4]) if len(e) > 3 else (b'', b'')
        return 'XFut %d%%nat %s %s %s' % (e[1], cbool(e[2]), cbytes(md), cbytes(d))
    if k == 'cb':
        s = e[2]
        sig = {'subscribe': 'SSubscribe', 'complete': 'SComplete', 'error': 'SError'}.get(s[0]) or \
            '(SNext %s %s %s)' % (cbytes(s[1]), cbytes(s[2]), cbool(s[3]))
        return 'XCb %d%%nat %s' % (e[1] if e[1] is not None else 999, sig)
    if k == 'pub':
        p = e[2]
        op = {'subscribe': 'PSubscribe', 'cancel': 'PCancelOp'}.get(p[0]) or '(PRequestN %s)' % cN(p[1])
        return 'XPub %d%%nat %s' % (e[1] if e[1] is not None else 999, op)
    if k == 'appfutcancel':
        return 'XAppFutCancel %d%%nat' % e[1]
    if k == 'handler':
        return 'XHandler %s %s %s' % (e[1], cbytes(e[2]), cbytes(e[3]))
    if k == 'raised':
        return 'XRaised'
    raise ValueError(e)


def steps_of_log(log):
    """[(label, utf8, [effects], table_keys_after, cache_keys_after)]"""
    steps = []
    cur = None
    for ent in log:
        if ent[0] == 'state':
            if cur is not None:
                cur[3], cur[4] = ent[1], ent[2]
        elif ent[0] == 'label':
            if cur is not None:
                steps.append(cur)
            utf8 = ent[4] if ent[1] == 'recv' else True
            cur = [ent[1:], utf8, [], None, None]
        else:
            if cur is not None:
                cur[2].append(ent[1:])
    if cur is not None:
        steps.append(cur)
    return steps


def coq_case(first, log):
    steps = steps_of_log(log)
    rows = []
    for lab, utf8, effs, tk, ck in steps:
        rows.append('(%s, %s, %s, %s, %s)' % (coq_label(lab), cbool(utf8), clist([coq_effect(e) for e in effs]),
                                              clist([cN(x) for x in (tk or [])]), clist([cN(x) for x in (ck or [])])))
    return '(%s, %s)' % (cN(first), clist(rows))
