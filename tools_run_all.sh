#!/bin/bash
# usage: tools_run_all.sh [quick|thorough] [ids...]  -- every check on the tree as it is; one line per check with its exit status
tier=${1:-quick}; shift
ids=${@:-C01 C02 C03 C04 C05 C06 C07 C08 C09 C10 C11 C12 C13 C14 C15 C16 C17 C18 C19 C20}
cd /verif
for p in $ids; do
  out=$(./check $p --tier $tier 2>&1); rc=$?
  echo "$p rc=$rc $(echo "$out" | grep -E "^C[0-9]+ (quick|thorough)" | cut -c1-220)"
  echo "$out" | grep -E "^(VIOLATION|BROKEN)" | cut -c1-400
done
