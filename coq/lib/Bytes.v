(* Byte strings as [list byte]; big-endian fixed-width integers; N-indexed take/drop (so that a
   declared 24-bit length never builds a unary nat).  Definitions and their basic facts. *)
From Coq Require Import ZArith NArith List Bool Lia ZifyBool ZifyNat ZifyN Init.Byte Strings.Byte.
Import ListNotations.
Open Scope N_scope.
Ltac Zify.zify_post_hook ::= Z.to_euclidean_division_equations.

Definition bytes := list byte.

Definition byte_of_N (n : N) : byte :=
  match Byte.of_N (n mod 256) with Some b => b | None => x00 end.

Lemma to_N_byte_of_N n : Byte.to_N (byte_of_N n) = n mod 256.
Proof.
  unfold byte_of_N. destruct (Byte.of_N (n mod 256)) as [b|] eqn:E.
  - apply Byte.to_of_N in E. exact E.
  - exfalso. apply Byte.of_N_None_iff in E. pose proof (N.mod_lt n 256). lia.
Qed.

Lemma byte_of_to_N b : byte_of_N (Byte.to_N b) = b.
Proof.
  unfold byte_of_N. pose proof (Byte.to_N_bounded b).
  rewrite N.mod_small by lia. rewrite Byte.of_to_N. reflexivity.
Qed.

Lemma to_N_lt b : Byte.to_N b < 256.
Proof. pose proof (Byte.to_N_bounded b). lia. Qed.

(* big-endian, k bytes *)
Fixpoint be (k : nat) (v : N) : bytes :=
  match k with
  | O => []
  | S k' => be k' (v / 256) ++ [byte_of_N v]
  end.

Definition dec (l : bytes) : N := fold_left (fun acc b => acc * 256 + Byte.to_N b) l 0.

Lemma be_length k : forall v, length (be k v) = k.
Proof. induction k as [|k IH]; intro v; cbn [be]; [reflexivity|]. rewrite app_length, IH. cbn. lia. Qed.

Lemma dec_snoc l b : dec (l ++ [b]) = dec l * 256 + Byte.to_N b.
Proof. unfold dec. rewrite fold_left_app. reflexivity. Qed.

Lemma dec_be k : forall v, dec (be k v) = v mod 256 ^ N.of_nat k.
Proof.
  induction k as [|k IH]; intro v.
  - cbn. rewrite N.mod_1_r. reflexivity.
  - cbn [be]. rewrite dec_snoc, IH, to_N_byte_of_N.
    rewrite Nat2N.inj_succ, N.pow_succ_r'.
    assert (0 < 256 ^ N.of_nat k) by (apply N.neq_0_lt_0, N.pow_nonzero; discriminate).
    set (P := 256 ^ N.of_nat k) in *.
    rewrite N.mod_mul_r by lia. lia.
Qed.

Lemma dec_be_small k v : v < 256 ^ N.of_nat k -> dec (be k v) = v.
Proof. intro H. rewrite dec_be. apply N.mod_small. exact H. Qed.

Lemma dec_bound l : dec l < 256 ^ N.of_nat (length l).
Proof.
  induction l as [|b l IH] using rev_ind.
  - cbn. lia.
  - rewrite dec_snoc, app_length. cbn [length]. replace (length l + 1)%nat with (S (length l)) by lia.
    rewrite Nat2N.inj_succ, N.pow_succ_r'. pose proof (to_N_lt b). lia.
Qed.

(* N-indexed take / drop: structural on the list *)
Fixpoint takeN (l : bytes) (n : N) : bytes :=
  match l with
  | [] => []
  | x :: r => if n =? 0 then [] else x :: takeN r (N.pred n)
  end.

Fixpoint dropN (l : bytes) (n : N) : bytes :=
  match l with
  | [] => []
  | x :: r => if n =? 0 then l else dropN r (N.pred n)
  end.

Lemma takeN_firstn l : forall n, takeN l n = firstn (N.to_nat n) l.
Proof.
  induction l as [|x r IH]; intro n; cbn [takeN].
  - rewrite firstn_nil. reflexivity.
  - destruct (N.eqb_spec n 0) as [->|Hn]; [reflexivity|].
    replace (N.to_nat n) with (S (N.to_nat (N.pred n))) by lia. cbn [firstn]. rewrite IH. reflexivity.
Qed.

Lemma dropN_skipn l : forall n, dropN l n = skipn (N.to_nat n) l.
Proof.
  induction l as [|x r IH]; intro n; cbn [dropN].
  - rewrite skipn_nil. reflexivity.
  - destruct (N.eqb_spec n 0) as [->|Hn]; [reflexivity|].
    replace (N.to_nat n) with (S (N.to_nat (N.pred n))) by lia. cbn [skipn]. rewrite IH. reflexivity.
Qed.

Definition lenN (l : bytes) : N := N.of_nat (length l).

Lemma takeN_app_exact a b : takeN (a ++ b) (lenN a) = a.
Proof. rewrite takeN_firstn. unfold lenN. rewrite Nat2N.id. rewrite firstn_app, Nat.sub_diag, firstn_all. cbn. apply app_nil_r. Qed.

Lemma dropN_app_exact a b : dropN (a ++ b) (lenN a) = b.
Proof. rewrite dropN_skipn. unfold lenN. rewrite Nat2N.id. rewrite skipn_app, Nat.sub_diag, skipn_all. reflexivity. Qed.

Lemma takeN_dropN l n : takeN l n ++ dropN l n = l.
Proof. rewrite takeN_firstn, dropN_skipn. apply firstn_skipn. Qed.

Lemma takeN_all l n : lenN l <= n -> takeN l n = l.
Proof. intro H. rewrite takeN_firstn. apply firstn_all2. unfold lenN in H. lia. Qed.

Lemma dropN_all l n : lenN l <= n -> dropN l n = [].
Proof. intro H. rewrite dropN_skipn. apply skipn_all2. unfold lenN in H. lia. Qed.

(* read a k-byte big-endian integer from the front (struct.unpack_from: fails when short) *)
Definition get_be (k : nat) (buf : bytes) : option (N * bytes) :=
  if (length buf <? k)%nat then None else Some (dec (firstn k buf), skipn k buf).

Lemma get_be_app k v rest : v < 256 ^ N.of_nat k -> get_be k (be k v ++ rest) = Some (v, rest).
Proof.
  intro Hv. unfold get_be. rewrite app_length, be_length.
  destruct (Nat.ltb_spec (k + length rest) k) as [H|H]; [lia|].
  rewrite firstn_app, be_length, Nat.sub_diag. cbn [firstn]. rewrite app_nil_r.
  rewrite <- (be_length k v) at 1. rewrite firstn_all.
  rewrite skipn_app, be_length, Nat.sub_diag. cbn [skipn].
  rewrite <- (be_length k v) at 2. rewrite skipn_all. cbn [app].
  rewrite dec_be_small by exact Hv. reflexivity.
Qed.

Lemma get_be_some k buf v rest : get_be k buf = Some (v, rest) ->
  buf = be k v ++ rest /\ v < 256 ^ N.of_nat k.
Proof.
  unfold get_be. destruct (Nat.ltb_spec (length buf) k) as [H|H]; [discriminate|].
  intro E. injection E as Ev Er. subst.
  assert (length (firstn k buf) = k) as Hl by (rewrite firstn_length; lia).
  split.
  - rewrite <- (firstn_skipn k buf) at 1. f_equal.
    (* be k (dec l) = l when length l = k *)
    revert Hl. generalize (firstn k buf). clear. intros l. revert k.
    induction l as [|b l IH] using rev_ind; intros k Hl.
    + cbn in Hl. subst k. reflexivity.
    + rewrite app_length in Hl. cbn in Hl. destruct k as [|k]; [lia|].
      cbn [be]. rewrite dec_snoc. pose proof (to_N_lt b).
      assert ((dec l * 256 + Byte.to_N b) / 256 = dec l) as -> by lia.
      rewrite <- IH by lia. f_equal. f_equal.
      rewrite <- (byte_of_to_N b) at 1. unfold byte_of_N.
      assert ((dec l * 256 + Byte.to_N b) mod 256 = Byte.to_N b mod 256) as -> by lia. reflexivity.
  - rewrite <- Hl at 2. apply dec_bound.
Qed.

Fixpoint bytes_eqb (a b : bytes) : bool :=
  match a, b with
  | [], [] => true
  | x :: a', y :: b' => Byte.eqb x y && bytes_eqb a' b'
  | _, _ => false
  end.

Lemma bytes_eqb_eq a : forall b, bytes_eqb a b = true <-> a = b.
Proof.
  induction a as [|x a IH]; intros [|y b]; cbn; split; intro H; try discriminate; try reflexivity.
  - apply andb_true_iff in H. destruct H as [H1 H2]. apply Byte.byte_dec_bl in H1. apply IH in H2. subst. reflexivity.
  - injection H as -> ->. apply andb_true_iff. split; [apply Byte.byte_dec_lb; reflexivity|apply IH; reflexivity].
Qed.

Definition is_nil (l : bytes) : bool := match l with [] => true | _ => false end.

(* index-computable pattern payload used by the correspondence files: byte i of pattern
   (seed) is (seed*7 + i*13 + i/251) mod 256; [pat seed off len] *)
Fixpoint pat_from (seed : N) (i : N) (len : nat) : bytes :=
  match len with
  | O => []
  | S l => byte_of_N (seed * 7 + i * 13 + i / 251) :: pat_from seed (N.succ i) l
  end.
Definition pat (seed off : N) (len : nat) : bytes := pat_from seed off len.

Lemma dropN_length l n : length (dropN l n) = (length l - N.to_nat n)%nat.
Proof. rewrite dropN_skipn. apply skipn_length. Qed.
Lemma takeN_length l n : length (takeN l n) = Nat.min (N.to_nat n) (length l).
Proof. rewrite takeN_firstn. apply firstn_length. Qed.
Lemma takeN_app_le (a b : bytes) n : n <= lenN a -> takeN (a ++ b) n = takeN a n.
Proof.
  intro H. rewrite !takeN_firstn, firstn_app. unfold lenN in H.
  replace (N.to_nat n - length a)%nat with 0%nat by lia. cbn [firstn]. apply app_nil_r.
Qed.
Lemma dropN_app_le (a b : bytes) n : n <= lenN a -> dropN (a ++ b) n = dropN a n ++ b.
Proof.
  intro H. rewrite !dropN_skipn, skipn_app. unfold lenN in H.
  replace (N.to_nat n - length a)%nat with 0%nat by lia. reflexivity.
Qed.
