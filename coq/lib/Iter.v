(* Positive-fuel search: up to [p] applications of [step], stopping at the first
   state accepted by [ok].  Structural recursion on the binary representation of
   [p], so a fuel of 2^30 costs 30 constructors and evaluation stops at the first hit.
   (CompCert's iteration pattern.) *)
From Coq Require Import Arith NArith PArith Lia.

Section Find.
  Context {S : Type} (step : S -> S) (ok : S -> bool).

  (* inl s : first accepted state;  inr s : none accepted, s = state after p steps *)
  Fixpoint find_pos (p : positive) (s : S) : S + S :=
    match p with
    | xH => let s' := step s in if ok s' then inl s' else inr s'
    | xO q => match find_pos q s with
              | inl r => inl r
              | inr s' => find_pos q s'
              end
    | xI q => let s1 := step s in
              if ok s1 then inl s1 else
              match find_pos q s1 with
              | inl r => inl r
              | inr s' => find_pos q s'
              end
    end.

  Fixpoint iter_nat (k : nat) (s : S) : S :=
    match k with O => s | Datatypes.S k' => iter_nat k' (step s) end.

  Lemma iter_nat_add a b s : iter_nat (a + b) s = iter_nat b (iter_nat a s).
  Proof. revert s; induction a as [|a IH]; intro s; cbn; [reflexivity| apply IH]. Qed.

  Lemma iter_nat_succ_r k s : iter_nat (Datatypes.S k) s = step (iter_nat k s).
  Proof. replace (Datatypes.S k) with (k + 1)%nat by lia. rewrite iter_nat_add. reflexivity. Qed.

  (* Specification of find_pos in terms of iterates. *)
  Definition specn (n : nat) (s : S) (r : S + S) : Prop :=
    match r with
    | inl x => exists k, (1 <= k <= n)%nat /\ x = iter_nat k s /\ ok x = true /\
                         forall j, (1 <= j < k)%nat -> ok (iter_nat j s) = false
    | inr x => x = iter_nat n s /\
               forall j, (1 <= j <= n)%nat -> ok (iter_nat j s) = false
    end.

  Definition spec (p : positive) := specn (Pos.to_nat p).

  Definition andthen (r1 : S + S) (f : S -> S + S) : S + S :=
    match r1 with inl x => inl x | inr s' => f s' end.

  Lemma specn_compose n1 n2 s r1 f :
    specn n1 s r1 -> (forall s', r1 = inr s' -> specn n2 s' (f s')) ->
    specn (n1 + n2) s (andthen r1 f).
  Proof.
    intros H1 H2. destruct r1 as [x|s']; cbn [andthen].
    - cbn [specn] in *. destruct H1 as (k & Hk & Hx & Hok & Hmin).
      exists k. split; [lia|]. split; [exact Hx|]. split; [exact Hok|exact Hmin].
    - specialize (H2 s' eq_refl). cbn [specn] in H1. destruct H1 as (Hs' & Hnone).
      destruct (f s') as [x|s'']; cbn [specn] in *.
      + destruct H2 as (k & Hk & Hx & Hok & Hmin).
        exists (n1 + k)%nat. split; [lia|]. split; [|split; [exact Hok|]].
        * rewrite iter_nat_add, <- Hs'. exact Hx.
        * intros j Hj. destruct (Nat.le_gt_cases j n1) as [Hle|Hgt].
          -- apply Hnone; lia.
          -- replace j with (n1 + (j - n1))%nat by lia.
             rewrite iter_nat_add, <- Hs'. apply Hmin; lia.
      + destruct H2 as (Hs'' & Hnone2). split.
        * rewrite iter_nat_add, <- Hs'. exact Hs''.
        * intros j Hj. destruct (Nat.le_gt_cases j n1) as [Hle|Hgt].
          -- apply Hnone; lia.
          -- replace j with (n1 + (j - n1))%nat by lia.
             rewrite iter_nat_add, <- Hs'. apply Hnone2; lia.
  Qed.

  Definition one (s : S) : S + S := let s' := step s in if ok s' then inl s' else inr s'.

  Lemma specn_one s : specn 1 s (one s).
  Proof.
    unfold one. destruct (ok (step s)) eqn:E; cbn [specn].
    - exists 1%nat. split; [lia|]. split; [reflexivity|]. split; [exact E|]. intros j Hj; lia.
    - split; [reflexivity|]. intros j Hj. replace j with 1%nat by lia. exact E.
  Qed.

  Lemma find_pos_xO q s : find_pos (xO q) s = andthen (find_pos q s) (find_pos q).
  Proof. reflexivity. Qed.

  Lemma find_pos_xI q s :
    find_pos (xI q) s = andthen (one s) (fun s1 => andthen (find_pos q s1) (find_pos q)).
  Proof. cbn [find_pos]. unfold one. destruct (ok (step s)); reflexivity. Qed.

  Lemma find_pos_xH s : find_pos xH s = one s.
  Proof. reflexivity. Qed.

  Lemma find_pos_spec p : forall s, spec p s (find_pos p s).
  Proof.
    unfold spec. induction p as [q IH|q IH|]; intro s.
    - rewrite find_pos_xI, Pos2Nat.inj_xI.
      replace (Datatypes.S (2 * Pos.to_nat q)) with (1 + (Pos.to_nat q + Pos.to_nat q))%nat by lia.
      apply specn_compose; [apply specn_one|]. intros s1 _.
      apply specn_compose; [apply IH|]. intros s2 _. apply IH.
    - rewrite find_pos_xO, Pos2Nat.inj_xO.
      replace (2 * Pos.to_nat q)%nat with (Pos.to_nat q + Pos.to_nat q)%nat by lia.
      apply specn_compose; [apply IH|]. intros s2 _. apply IH.
    - rewrite find_pos_xH. apply specn_one.
  Qed.
End Find.
