From Coq Require Import NArith List Bool Init.Byte.
From RSV Require Import gen.GenConst lib.Bytes model.Routing corr.C13Corr.
Import ListNotations.
Open Scope N_scope.

(* short constructors for the generated case files *)
Definition P (named_cm : bool) (a : annot) : param := {| p_named_cm := named_cm; p_annot := a |}.
Definition H (id : N) (ps : list param) (b : hbeh) : handler := {| hid := id; hparams := ps; hdoes := b |}.

(* the harness' verifier: accepts credentials in `ok` unless the route is in `denied` *)
Definition vspec := option (list N * list name).
Definition mk_verifier (v : vspec) : verifier :=
  match v with
  | None => None
  | Some (ok, denied) => Some (fun r a => existsb (N.eqb a) ok && negb (existsb (bytes_eqb r) denied))
  end.
(* the harness' deserializer raises for the listed classes *)
Definition mk_des (failing : list N) : N -> bool := fun c => negb (existsb (N.eqb c) failing).

Definition argval_eqb (a b : argval) : bool :=
  match a, b with
  | VComposite, VComposite | VPayload, VPayload => true
  | VDeserialized x, VDeserialized y => x =? y
  | _, _ => false end.
Definition errkind_eqb (a b : errkind) : bool :=
  match a, b with
  | EChannelStream, EChannelStream | ESwallowed, ESwallowed | EFuture, EFuture | EStream, EStream => true
  | _, _ => false end.
Definition why_eqb (a b : why) : bool :=
  match a, b with
  | WParse, WParse | WNoRoute, WNoRoute | WEmptyTags, WEmptyTags | WBadTag, WBadTag | WAuthMissing, WAuthMissing
  | WAuthRejected, WAuthRejected | WNoTable, WNoTable | WUnknownRoute, WUnknownRoute | WDeserialize, WDeserialize
  | WHandler, WHandler | WSerialize, WSerialize => true
  | _, _ => false end.
Definition delivery_eqb (a b : delivery) : bool :=
  match a, b with
  | DAsIs, DAsIs | DFuture, DFuture | DFutureSer, DFutureSer | DNone, DNone => true
  | _, _ => false end.
Definition result_eqb (a b : result) : bool :=
  match a, b with
  | Delivered x, Delivered y => delivery_eqb x y
  | Failed k w, Failed k' w' => errkind_eqb k k' && why_eqb w w'
  | _, _ => false end.
Definition outcome_eqb (a b : outcome) : bool :=
  match a, b with
  | Ran h args r, Ran h' args' r' => (h =? h') && list_eqb argval_eqb args args' && result_eqb r r'
  | ErrorOn k w, ErrorOn k' w' => errkind_eqb k k' && why_eqb w w'
  | _, _ => false end.

(* ---- request cases: (index of the registration program, request method, metadata, verifier, classes the
   deserializer rejects, serializer ok, what the implementation did) *)
Definition case19 := (nat * meth * metadata * vspec * list N * bool * outcome)%type.

Definition chk19 (progs : list (list reg)) (c : case19) : bool :=
  let '(pi, m, md, v, desfail, ser_ok, exp) := c in
  outcome_eqb (dispatch (build (nth pi progs [])) (mk_verifier v) (mk_des desfail) ser_ok m md) exp.

(* ---- registration cases: a program, which decorator applications raised, and the router's dicts afterwards:
   five route dicts as (name, handler id) in insertion order [channel; stream; response; fnf; metadata_push],
   and the Handlers fields [response; stream; channel; fire_and_forget; metadata_push] *)
Definition case19r := (list reg * list bool * list (list (name * N)) * list (option N))%type.

Definition view_routes (r : routes) : list (name * N) := map (fun kh => (fst kh, hid (snd kh))) r.
Definition pair_eqb (a b : name * N) : bool := bytes_eqb (fst a) (fst b) && (snd a =? snd b).
Definition optN_eqb (a b : option N) : bool :=
  match a, b with Some x, Some y => x =? y | None, None => true | _, _ => false end.

Definition chk19r (c : case19r) : bool :=
  let '(rs, raised, dicts, unk) := c in
  let tb := build rs in
  list_eqb Bool.eqb (build_raised empty_tables rs) raised
  && list_eqb (list_eqb pair_eqb)
       (map (fun s => view_routes (get_slot s tb)) [SlChannel; SlStream; SlResponse; SlFnf; SlPush]) dicts
  && list_eqb optN_eqb
       (map (fun u => option_map hid (get_unknown u tb)) [UResponse; UStream; UChannel; UFnf; UPush]) unk.
