From Coq Require Import NArith List Bool.
From RSV Require Import gen.GenConst model.StreamIds.
Import ListNotations.
Open Scope N_scope.

Fixpoint list_eqb {A} (eqb : A -> A -> bool) (a b : list A) : bool :=
  match a, b with
  | [], [] => true
  | x :: a', y :: b' => eqb x y && list_eqb eqb a' b'
  | _, _ => false
  end.

Definition subset (a b : list N) : bool := forallb (fun x => mem x b) a.
Definition set_eqb (a b : list N) : bool := subset a b && subset b a && Nat.eqb (length a) (length b).

(* (width m, first id, preset current id, ops, expected results, expected current, expected active set) *)
Definition case13 := (N * N * option N * list op * list res * N * list N)%type.

Definition chk13 (c : case13) : bool :=
  let '(m, first, cur0, ops, eres, ecur, eact) := c in
  let s0 := sc_init first (N.ones m) in
  let s0 := match cur0 with
            | Some c0 => {| cur := c0; active := active s0; maxid := maxid s0 |}
            | None => s0 end in
  let (r, s) := run s0 ops in
  list_eqb res_eqb r eres && (cur s =? ecur) && set_eqb (active s) eact.
