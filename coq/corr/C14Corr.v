From Coq Require Import ZArith NArith List Bool Init.Byte.
From RSV Require Import lib.Bytes model.Frame model.Setup model.Lease corr.C13Corr corr.C02Corr corr.C16Corr.
Import ListNotations.

Inductive case14 :=
| CRequester (t0 : Z) (qmax : nat) (evs : list lev) (sent queue refused : list N)
| CAnnounce (n : N) (ttl_us : Z) (f : frame).      (* LEASE frame a real responder wrote for DefinedLease(n, ttl) *)

Definition nlist_eqb := list_eqb N.eqb.

Definition chk14 (c : case14) : bool :=
  match c with
  | CRequester t0 qm evs snt q rf =>
      let s := lrun t0 qm evs in
      nlist_eqb (sent s) snt && nlist_eqb (queue s) q && nlist_eqb (refused s) rf
  | CAnnounce n ttl f =>
      match f with
      | FLease sid ign ttl_ms cnt md =>
          frame_eqb (FLease 0 false ttl_ms n []) f && ms_ok ttl ttl_ms
          && (if (ttl mod 1000 =? 0)%Z then (ttl_ms =? to_ms ttl)%N else true)
      | _ => false
      end
  end.
