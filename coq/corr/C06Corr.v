From Coq Require Import NArith List Bool.
From RSV Require Import model.Publisher corr.C13Corr.
Import ListNotations.
Open Scope N_scope.

Definition event_eqb (a b : event) : bool :=
  match a, b with
  | ENext p c, ENext q d => (p =? q) && Bool.eqb c d
  | EComplete, EComplete => true
  | EError, EError => true
  | _, _ => false
  end.

Inductive source := SGen (src : list (N * bool)) | SObs (vs : list N) (fails : bool).

Definition events_of (s : source) : list event :=
  match s with SGen src => gen_events src | SObs vs f => obs_events vs f end.

Fixpoint is_prefix (a b : list event) : bool :=
  match a, b with
  | [], _ => true
  | x :: a', y :: b' => event_eqb x y && is_prefix a' b'
  | _, [] => false
  end.

(* source, total credit granted, whether the subscription was cancelled, what the subscriber (or the wire) saw at quiescence *)
Definition case06 := (source * N * bool * list event)%type.

Definition chk06 (c : case06) : bool :=
  let '(s, credit, cancelled, seen) := c in
  let evs := events_of s in
  if cancelled then is_prefix seen (settled evs credit)
  else list_eqb event_eqb (settled evs credit) seen.
