(* Correspondence of model/Network.v with two recorded real endpoints whose link the harness plays (harness/netrec.py). *)
From Coq Require Import NArith List Bool Init.Byte.
From RSV Require Import gen.GenConst lib.Bytes model.Frame model.Fragmenter model.StreamIds model.Endpoint model.Network
     corr.C13Corr corr.C02Corr corr.EndpointCorr.
Import ListNotations.
Open Scope N_scope.

(* one recorded network step: the label, the effects the real endpoint produced, the frame it was handed (deliveries) *)
Definition nrec := (nlabel * list effect * option frame)%type.

Definition fr_eqb (a b : frame) : bool := frame_eqb (strip_error a) (strip_error b).

Definition event_ok (evs : list nevent) (r : nrec) : bool :=
  let '(l, effs, fr) := r in
  match evs, l, fr with
  | [EvLocal s _ x], NLocal s' _, None => side_eqb s s' && list_eqb effect_eqb x effs
  | [EvDeliver s f x], NDeliver s' _ _ _, Some g => side_eqb s s' && fr_eqb f g && list_eqb effect_eqb x effs
  | _, _, _ => false
  end.

Fixpoint nreplay (n : net) (rs : list nrec) (i : nat) : net * option nat :=
  match rs with
  | [] => (n, None)
  | r :: rest =>
      let (n', evs) := net_step n (fst (fst r)) in
      if event_ok evs r then nreplay n' rest (S i) else (n', Some i)
  end.

(* recorded history, frames still under way to A, to B at the end *)
Definition case_net := (list nrec * list frame * list frame)%type.

Definition chk_net (c : case_net) : bool :=
  let '(rs, qa, qb) := c in
  match nreplay net_init rs 0 with
  | (n, None) => list_eqb fr_eqb (to_a n) qa && list_eqb fr_eqb (to_b n) qb
  | (_, Some _) => false
  end.

Definition first_bad_net (c : case_net) : option nat :=
  let '(rs, qa, qb) := c in
  match nreplay net_init rs 0 with
  | (n, None) => if list_eqb fr_eqb (to_a n) qa && list_eqb fr_eqb (to_b n) qb then None else Some (length rs)
  | (_, Some i) => Some i
  end.
