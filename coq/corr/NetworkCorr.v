(* Correspondence of model/Network.v with two recorded real endpoints whose link the harness plays (harness/netrec.py). *)
From Coq Require Import NArith List Bool Init.Byte.
From RSV Require Import gen.GenConst lib.Bytes model.Frame model.Fragmenter model.StreamIds model.Endpoint model.Network
     corr.C13Corr corr.C02Corr corr.EndpointCorr proofs.NetworkExact.
Import ListNotations.
Open Scope N_scope.

(* one recorded network step: the label, the effects the real endpoint produced, the frame it was handed (deliveries) *)
Definition nrec := (nlabel * list effect * option frame)%type.

Definition fr_eqb (a b : frame) : bool := frame_eqb (strip_error a) (strip_error b).

Definition event_ok (evs : list nevent) (r : nrec) : bool :=
  let '(l, effs, fr) := r in
  match evs, l, fr with
  | [EvLocal s _ x], NLocal s' _, None => side_eqb s s' && list_eqb effect_eqb x effs
  | [EvDeliver s f x], NDeliver s' _ _ _, Some g => side_eqb s s' && fr_eqb f g && list_eqb effect_eqb x effs
  | _, _, _ => false
  end.

Fixpoint nreplay (n : net) (rs : list nrec) (i : nat) : net * option nat :=
  match rs with
  | [] => (n, None)
  | r :: rest =>
      let (n', evs) := net_step n (fst (fst r)) in
      if event_ok evs r then nreplay n' rest (S i) else (n', Some i)
  end.

(* recorded history, frames still under way to A, to B at the end *)
Definition case_net := (list nrec * list frame * list frame)%type.

Definition chk_net (c : case_net) : bool :=
  let '(rs, qa, qb) := c in
  match nreplay net_init rs 0 with
  | (n, None) => list_eqb fr_eqb (to_a n) qa && list_eqb fr_eqb (to_b n) qb
  | (_, Some _) => false
  end.

Definition first_bad_net (c : case_net) : option nat :=
  let '(rs, qa, qb) := c in
  match nreplay net_init rs 0 with
  | (n, None) => if list_eqb fr_eqb (to_a n) qa && list_eqb fr_eqb (to_b n) qb then None else Some (length rs)
  | (_, Some i) => Some i
  end.

(* ---------- how often do recorded histories of the REAL endpoints meet the premises of C01_network_exactly_once? ----------
   For a recorded history: the (side, stream) pairs, stream <> 0, on which the side was listening throughout
   (listeningb, sound for `listening`), nothing of the stream is still under way, and at least one payload with content
   was given to the application.  On those the conclusion is recomputed as well (it cannot fail: the theorem). *)
Definition nil_l {A} (l : list A) : bool := match l with [] => true | _ => false end.

Definition pay_eqb (a b : bytes * bytes) : bool := bytes_eqb (fst a) (fst b) && bytes_eqb (snd a) (snd b).

Definition exact_pairs (c : case_net) : list (side * N) :=
  let '(rs, _, _) := c in
  let ls := map (fun r : nrec => fst (fst r)) rs in
  let res := net_run net_init ls in
  let keys := nodup N.eq_dec (map fsid (nwire (snd res) SA ++ nwire (snd res) SB)) in
  flat_map (fun k => flat_map (fun s =>
      if negb (k =? 0) && listeningb net_init ls s k && nil_l (on_stream k (inbox (fst res) s))
         && negb (nil_l (wanted (got (snd res) s k)))
      then [(s, k)] else []) [SA; SB]) keys.

Definition exact_conclusion (c : case_net) : bool :=
  let '(rs, _, _) := c in
  let ls := map (fun r : nrec => fst (fst r)) rs in
  let res := net_run net_init ls in
  forallb (fun sk : side * N => let (s, k) := sk in
             list_eqb pay_eqb (wanted (got (snd res) s k)) (wanted (pmap carried (on_stream k (nwire (snd res) (other s))))))
          (exact_pairs c).

(* true = the premises are met nowhere in this history (so that Harness.report counts the histories where they are) *)
Definition exact_vacuous (c : case_net) : bool := nil_l (exact_pairs c).
