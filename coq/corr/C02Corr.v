From Coq Require Import NArith List Bool Init.Byte.
From RSV Require Import gen.GenConst lib.Bytes model.Frame corr.C13Corr.
Import ListNotations.
Open Scope N_scope.

Definition fields_eqb (a b : N * list N * list bytes) : bool :=
  let '(ta, na, ba) := a in let '(tb, nb, bb) := b in
  (ta =? tb) && list_eqb N.eqb na nb && list_eqb bytes_eqb ba bb.

Definition frame_eqb (f g : frame) : bool := fields_eqb (fields f) (fields g).

(* model result vs recorded implementation result; the unmodelled region (negative MIME lengths in SETUP) passes *)
Definition dres_matches (model impl : dres) : bool :=
  match model, impl with
  | DUnmodelled, _ => true
  | DOk f, DOk g => frame_eqb f g
  | DIgnored, DIgnored => true
  | DInvalid, DInvalid => true
  | _, _ => false
  end.

Inductive case02 :=
| CEnc (f : frame) (ser pre tcp : bytes) (parsed_native parsed_cbit : dres)
| CDec (buf : bytes) (native cbit : dres).

Definition chk02 (c : case02) : bool :=
  match c with
  | CEnc f ser pre tcp pn pc =>
      wf f && bytes_eqb (encode f) ser && bytes_eqb (encode_prefixed f) pre && bytes_eqb (encode_partial f) tcp
      && dres_matches (decode Native ser) pn && dres_matches (decode Cbit ser) pc
  | CDec buf pn pc => dres_matches (decode Native buf) pn && dres_matches (decode Cbit buf) pc
  end.

Definition unmodelled (c : case02) : bool :=
  match c with
  | CEnc _ ser _ _ _ _ => match decode Cbit ser with DUnmodelled => true | _ => false end
  | CDec buf _ _ => match decode Cbit buf with DUnmodelled => true | _ => false end
  end.
