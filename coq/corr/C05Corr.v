From Coq Require Import NArith List Bool Init.Byte.
From RSV Require Import lib.Bytes model.Frame model.Fragmenter model.SendQueue corr.C13Corr corr.C02Corr.
Import ListNotations.
Open Scope N_scope.

(* fragment size, framing, history of send_frame / send_priority_frame calls and sender steps, frames written *)
Definition case05 := (option N * bool * list qlabel * list frame)%type.

Definition chk05 (c : case05) : bool :=
  let '(size, lenreq, ls, w) := c in
  list_eqb frame_eqb (map norm (wire (qrun size lenreq ls))) w.   (* the wire is observed re-parsed: NEXT normalised *)
