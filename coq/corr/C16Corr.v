From Coq Require Import ZArith NArith List Bool Init.Byte.
From RSV Require Import gen.GenConst lib.Bytes model.Frame model.Setup corr.C13Corr corr.C02Corr.
Import ListNotations.
Open Scope N_scope.

Definition tag_eqb (a b : tag) : bool :=
  match a, b with TSetup, TSetup => true | TOther x, TOther y => x =? y | _, _ => false end.

(* milliseconds announced vs microseconds configured: exact on whole ms, within half a ms otherwise *)
Definition ms_ok (us : Z) (ms : N) : bool :=
  (if (us mod 1000 =? 0)%Z then Z.of_N ms =? us / 1000 else true)%Z
  && (Z.abs (1000 * Z.of_N ms - us) <=? 500)%Z.

Definition with_periods (f : frame) (ka ml : N) : frame :=
  match f with
  | FSetup sid ign lease major minor _ _ resume mdenc denc md d => FSetup sid ign lease major minor ka ml resume mdenc denc md d
  | other => other
  end.

Definition outcome_eqb (a b : setup_outcome) : bool :=
  match a, b with
  | SAccept d1 m1 md1 dd1 l1, SAccept d2 m2 md2 dd2 l2 =>
      bytes_eqb d1 d2 && bytes_eqb m1 m2 && bytes_eqb md1 md2 && bytes_eqb dd1 dd2 && Bool.eqb l1 l2
  | SError s1 c1, SError s2 c2 => (s1 =? s2) && (c1 =? c2)
  | SDropped, SDropped => true
  | _, _ => false
  end.

Inductive case16 :=
| CSetup (c : client_cfg) (ka ml : N) (first : frame)    (* first frame the client wrote, as decoded from the wire *)
| COrder (ls : list clabel) (w : list tag)               (* observed history of one connect and the frames written *)
| CServer (f : frame) (has_pub raises : bool) (o : setup_outcome).

Definition chk16 (c : case16) : bool :=
  match c with
  | CSetup cfg ka ml first =>
      wf_cfg cfg && frame_eqb (with_periods (setup_frame cfg) ka ml) first && ms_ok (ka_us cfg) ka && ms_ok (ml_us cfg) ml
      && (if (ka_us cfg mod 1000 =? 0)%Z then ka =? to_ms (ka_us cfg) else true)
  | COrder ls w => list_eqb tag_eqb (wire (crun ls)) w
  | CServer f pub raises o => outcome_eqb (server_decision f pub raises) o
  end.
