(* C18 correspondence checker: model/Metadata.v against the recorded outputs of the real library under both
   bit-packing back ends. *)
From Coq Require Import ZArith NArith List Bool Init.Byte.
From RSV Require Import lib.Bytes gen.GenMime model.Frame model.Metadata corr.C13Corr.
Import ListNotations.
Open Scope N_scope.

Definition auth_eqb (a b : auth) : bool :=
  match a, b with
  | ASimple u p, ASimple u' p' => bytes_eqb u u' && bytes_eqb p p'
  | ABearer t, ABearer t' => bytes_eqb t t'
  | _, _ => false
  end.

Definition entry_eqb (a b : entry) : bool :=
  match a, b with
  | EItem e c, EItem e' c' => bytes_eqb e e' && bytes_eqb c c'
  | ERouting t, ERouting t' => list_eqb bytes_eqb t t'
  | EDataMime e, EDataMime e' => bytes_eqb e e'
  | EAcceptMimes l, EAcceptMimes l' => list_eqb bytes_eqb l l'
  | EAuth x, EAuth y => auth_eqb x y
  | _, _ => false
  end.

Definition opt_eqb {A} (eqb : A -> A -> bool) (a b : option A) : bool :=
  match a, b with Some x, Some y => eqb x y | None, None => true | _, _ => false end.

Definition obytes_eqb := opt_eqb bytes_eqb.
Definition oentries_eqb := opt_eqb (list_eqb entry_eqb).
Definition ptype_eqb (a b : option (bool * N)) : bool :=
  opt_eqb (fun x y => Bool.eqb (fst x) (fst y) && (snd x =? snd y)) a b.

(* None = the implementation raised *)
Inductive case18 :=
(* helpers.composite applied to the items, under cbitstruct / native *)
| CEnc (items : list entry) (cbit native : option bytes)
(* both back ends serialize the items to [bs], and parsing [bs] gives [dec] under both *)
| CEncDec (items : list entry) (bs : bytes) (dec : option (list entry))
(* the same with dec = Some items (keeps the case files small) *)
| CRound (items : list entry) (bs : bytes)
(* CompositeMetadata().parse(bs).items, same outcome under both back ends *)
| CDec1 (bs : bytes) (out : option (list entry))
(* CompositeMetadata().parse(bs).items under cbitstruct / native *)
| CDec (bs : bytes) (cbit native : option (list entry))
(* frame_helpers.pack_24bit(n) *)
| CPack (n : N) (cbit native : option bytes)
(* frame_helpers.parse_type(bs), is_known normalised to bool *)
| CType (bs : bytes) (cbit native : option (bool * N))
(* serialize_well_known_encoding(name, table.get_by_name): 0 = MIME table, 1 = authentication table *)
| CSerWk (tbl : N) (name : bytes) (out : option bytes)
(* parse_well_known_encoding(bs, table.require_by_id) -> (name, offset) *)
| CParseWk (tbl : N) (bs : bytes) (out : option (bytes * N)).

Definition chk18 (c : case18) : bool :=
  match c with
  | CEnc items cb nat => obytes_eqb (cm_encode_bk Cbit items) cb && obytes_eqb (cm_encode_bk Native items) nat
  | CEncDec items bs dec =>
      obytes_eqb (cm_encode_bk Cbit items) (Some bs) && obytes_eqb (cm_encode_bk Native items) (Some bs)
      && oentries_eqb (cm_decode bs) dec
  | CRound items bs =>
      obytes_eqb (cm_encode_bk Cbit items) (Some bs) && obytes_eqb (cm_encode_bk Native items) (Some bs)
      && oentries_eqb (cm_decode bs) (Some items)
  | CDec1 bs out => oentries_eqb (cm_decode bs) out
  | CDec bs cb nat => oentries_eqb (cm_decode bs) cb && oentries_eqb (cm_decode bs) nat
  | CPack n cb nat => obytes_eqb (pack24 Cbit n) cb && obytes_eqb (pack24 Native n) nat
  | CType bs cb nat => ptype_eqb (parse_type bs) cb && ptype_eqb (parse_type bs) nat
  | CSerWk t name out => obytes_eqb (ser_wk (if t =? 0 then mime_table else auth_table) name) out
  | CParseWk t bs out =>
      opt_eqb (fun x y => bytes_eqb (fst x) (fst y) && (snd x =? snd y))
              (parse_wk (if t =? 0 then mime_name_of_id else auth_name_of_id) bs) out
  end.
