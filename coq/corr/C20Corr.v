From Coq Require Import NArith List Bool.
From RSV Require Import model.RxAdapter corr.C13Corr.
Import ListNotations.
Open Scope N_scope.

Definition oev_eqb (a b : oev) : bool :=
  match a, b with ONext x, ONext y => x =? y | OCompleted, OCompleted => true | OError, OError => true | _, _ => false end.

(* requester side (true) or handler side of a channel (false); the limit; what the adapter's subscriber was given, with
   STask where its request task ran; what the application's observer saw; the amounts it requested *)
Definition case20 := (bool * N * list sin * list oev * list N)%type.

Definition chk20 (c : case20) : bool :=
  let '(requester, limit, ins, seen, reqs) := c in
  if requester then
    let '(_, o, q) := rx_run limit rxs_init ins in list_eqb oev_eqb o seen && list_eqb N.eqb q reqs
  else
    let '(_, o, q) := hs_run limit 0 ins in list_eqb oev_eqb o seen && list_eqb N.eqb q reqs.
