From Coq Require Import ZArith NArith List Bool Init.Byte.
From RSV Require Import lib.Bytes model.Frame model.Keepalive corr.C13Corr corr.C02Corr.
Import ListNotations.

Inductive case15 :=
| CEcho (f : frame) (sent : list frame)                          (* frame handled by an endpoint, frames it queued *)
| CTiming (P L t0 : Z) (n_sent : nat) (sent_at : list Z)          (* client keepalive send instants *)
          (arrivals : list Z) (n_checks : nat) (timeouts_at : list Z).

Definition zlist_eqb := list_eqb Z.eqb.

Definition chk15 (c : case15) : bool :=
  match c with
  | CEcho f sent => list_eqb frame_eqb (ka_echo f) sent
  | CTiming P L t0 n_sent sent_at arrivals n_checks touts =>
      zlist_eqb (send_times t0 P (repeat 0%Z n_sent)) sent_at
      && zlist_eqb (timeouts L t0 arrivals (repeat 0%Z n_checks)) touts
  end.
