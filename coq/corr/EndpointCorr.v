From Coq Require Import NArith List Bool Init.Byte.
From RSV Require Import gen.GenConst lib.Bytes model.Frame model.Fragmenter model.StreamIds model.Endpoint
     corr.C13Corr corr.C02Corr.
Import ListNotations.
Open Scope N_scope.

Definition signal_eqb (a b : signal) : bool :=
  match a, b with
  | SSubscribe, SSubscribe => true
  | SNext m1 d1 c1, SNext m2 d2 c2 => bytes_eqb m1 m2 && bytes_eqb d1 d2 && Bool.eqb c1 c2
  | SComplete, SComplete => true
  | SError, SError => true
  | _, _ => false
  end.
Definition pubop_eqb (a b : pubop) : bool :=
  match a, b with
  | PSubscribe, PSubscribe => true | PRequestN x, PRequestN y => x =? y | PCancelOp, PCancelOp => true | _, _ => false end.
Definition hcall_eqb (a b : hcall) : bool :=
  match a, b with
  | HResponse, HResponse | HStream, HStream | HChannel, HChannel | HFnf, HFnf | HMetaPush, HMetaPush
  | HOnError, HOnError | HOnSetup, HOnSetup => true
  | _, _ => false
  end.

(* ERROR frames are compared without their text (it is str(exception)) *)
Definition strip_error (f : frame) : frame :=
  match f with FError s i c _ => FError s i c [] | other => other end.

Definition effect_eqb (a b : effect) : bool :=
  match a, b with
  | XEnq f, XEnq g => frame_eqb (strip_error f) (strip_error g)
  | XFut o1 r1 m1 d1, XFut o2 r2 m2 d2 => Nat.eqb o1 o2 && Bool.eqb r1 r2 && bytes_eqb m1 m2 && bytes_eqb d1 d2
  | XCb o1 s1, XCb o2 s2 => Nat.eqb o1 o2 && signal_eqb s1 s2
  | XPub o1 p1, XPub o2 p2 => Nat.eqb o1 o2 && pubop_eqb p1 p2
  | XAppFutCancel o1, XAppFutCancel o2 => Nat.eqb o1 o2
  | XHandler k1 m1 d1, XHandler k2 m2 d2 => hcall_eqb k1 k2 && bytes_eqb m1 m2 && bytes_eqb d1 d2
  | XRaised, XRaised => true
  | _, _ => false
  end.

(* one recorded atomic section: the label, whether an ERROR text decodes, the effects the real endpoint
   produced, and the keys of its stream table and reassembly cache afterwards *)
Definition step_rec := (label * bool * list effect * list N * list N)%type.

Definition keys_eqb (a b : list N) : bool := set_eqb a b.

Fixpoint replay (e : ep) (rs : list step_rec) (i : nat) : option nat :=   (* index of the first mismatching step *)
  match rs with
  | [] => None
  | (l, u, effs, tk, ck) :: r =>
      let (e', x) := ep_step u e l in
      if list_eqb effect_eqb x effs && keys_eqb (map fst (table e')) tk && keys_eqb (map fst (cachek e')) ck
      then replay e' r (S i) else Some i
  end.

(* first stream id (1 client, 2 server), recorded trace *)
Definition case_ep := (N * list step_rec)%type.

Definition chk_ep (c : case_ep) : bool :=
  let '(first, rs) := c in match replay (ep_init first) rs 0 with None => true | Some _ => false end.

Definition first_bad (c : case_ep) : option nat := let '(first, rs) := c in replay (ep_init first) rs 0.

(* ---------- projections: each property compares the part of the trace it speaks about ---------- *)
Fixpoint replay_p (keep : effect -> bool) (cmpkeys : bool) (e : ep) (rs : list step_rec) (i : nat) : option nat :=
  match rs with
  | [] => None
  | (l, u, effs, tk, ck) :: r =>
      let (e', x) := ep_step u e l in
      if list_eqb effect_eqb (filter keep x) (filter keep effs) &&
         (negb cmpkeys || (keys_eqb (map fst (table e')) tk && keys_eqb (map fst (cachek e')) ck))
      then replay_p keep cmpkeys e' r (S i) else Some i
  end.

Definition chk_ep_p (keep : effect -> bool) (cmpkeys : bool) (c : case_ep) : bool :=
  let '(first, rs) := c in match replay_p keep cmpkeys (ep_init first) rs 0 with None => true | Some _ => false end.
Definition first_bad_p (keep : effect -> bool) (cmpkeys : bool) (c : case_ep) : option nat :=
  let '(first, rs) := c in replay_p keep cmpkeys (ep_init first) rs 0.

(* C07: what the application is told *)
Definition keep_signals (x : effect) : bool := match x with XFut _ _ _ _ | XCb _ _ => true | _ => false end.
(* C08: what is put on the wire *)
Definition keep_wire (x : effect) : bool := match x with XEnq _ | XRaised => true | _ => false end.
(* C09: cancellation, both ends *)
Definition keep_cancel (x : effect) : bool :=
  match x with
  | XEnq (FCancel _ _) | XPub _ PCancelOp | XAppFutCancel _ | XCb _ _ | XFut _ _ _ _ => true
  | _ => false
  end.
(* C10: nothing but the key sets *)
Definition keep_none (x : effect) : bool := false.
(* C11: what close does to the application *)
Definition keep_close (x : effect) : bool :=
  match x with XFut _ _ _ _ | XCb _ SError | XPub _ PCancelOp | XAppFutCancel _ => true | _ => false end.
(* C12: handlers reached and answers given *)
Definition keep_service (x : effect) : bool := match x with XEnq _ | XHandler _ _ _ => true | _ => false end.
Definition keep_all (x : effect) : bool := true.
