From Coq Require Import NArith List Bool.
From RSV Require Import model.Client corr.C13Corr.
Import ListNotations.
Open Scope N_scope.

Definition wtag_eqb (a b : wtag) : bool :=
  match a, b with WSetup, WSetup => true | WReq x, WReq y => x =? y | _, _ => false end.

Definition hist_eqb (a b : nat * list wtag) : bool := Nat.eqb (fst a) (fst b) && list_eqb wtag_eqb (snd a) (snd b).
Definition fail_eqb (a b : nat * N) : bool := Nat.eqb (fst a) (fst b) && (snd a =? snd b).

(* observation of the real client after the whole action list *)
Record obs := { o_conn : nat; o_connected : bool; o_alive : bool; o_pending : list N; o_wire : list wtag;
                o_history : list (nat * list wtag); o_closed : list nat; o_failed : list (nat * N);
                o_on_close : nat; o_timeouts : nat; o_probes : nat }.

Definition case17 := (policy * list action * obs)%type.

Definition chk17 (c : case17) : bool :=
  let '(p, acts, o) := c in
  let s := crun_client true p acts in
  Nat.eqb (conn s) (o_conn o) && Bool.eqb (connected s) (o_connected o) && Bool.eqb (alive s) (o_alive o)
  && list_eqb N.eqb (pending s) (o_pending o) && list_eqb wtag_eqb (wire s) (o_wire o)
  && list_eqb hist_eqb (history s) (o_history o) && list_eqb Nat.eqb (closed s) (o_closed o)
  && list_eqb fail_eqb (failed s) (o_failed o) && Nat.eqb (on_close_calls s) (o_on_close o)
  && Nat.eqb (timeout_calls s) (o_timeouts o) && Nat.eqb (probes s) (o_probes o).
