(* Shared by the generated cases_*.v files: index the cases on which the model and the
   recorded implementation output disagree. *)
From Coq Require Import List NArith.
Import ListNotations.

Fixpoint failing_from {A} (chk : A -> bool) (i : nat) (l : list A) : list nat :=
  match l with
  | [] => []
  | x :: r => if chk x then failing_from chk (S i) r else i :: failing_from chk (S i) r
  end.

Definition failing {A} (chk : A -> bool) (l : list A) : list nat := failing_from chk 0 l.

(* What a shard prints: number of cases, number failing, first few failing indices. *)
Definition report {A} (chk : A -> bool) (l : list A) : nat * nat * list nat :=
  let f := failing chk l in (length l, length f, firstn 20 f).
