From Coq Require Import NArith List Bool Init.Byte.
From RSV Require Import lib.Bytes model.Frame model.Parser corr.C13Corr corr.C02Corr.
Import ListNotations.
Open Scope N_scope.

Definition item_eqb (a b : item) : bool :=
  match a, b with
  | IFrame f, IFrame g => frame_eqb f g
  | IInvalid, IInvalid => true
  | _, _ => false
  end.

Definition has_unmodelled (l : list item) : bool :=
  existsb (fun i => match i with IUnmodelled => true | _ => false end) l.

Inductive case04 :=
| CStream (chunks : list bytes) (items : list item) (resid : bytes)
| CMsg (st data : bytes) (res : option (list item * bytes)).   (* None: the implementation did not terminate *)

Definition chk04 (c : case04) : bool :=
  match c with
  | CStream chunks items resid =>
      let (o, r) := feed_all (decode Cbit) [] chunks in
      has_unmodelled o || (list_eqb item_eqb o items && bytes_eqb r resid)
  | CMsg st data res =>
      match msg_feed (decode Cbit) true 8 st data, res with
      | Some (o, r), Some (o', r') => has_unmodelled o || (list_eqb item_eqb o o' && bytes_eqb r r')
      | None, None => true
      | _, _ => false
      end
  end.
