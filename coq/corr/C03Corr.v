From Coq Require Import NArith List Bool Init.Byte.
From RSV Require Import gen.GenConst lib.Bytes model.Frame model.Fragmenter corr.C13Corr corr.C02Corr.
Import ListNotations.
Open Scope N_scope.

(* base frame, fragment size, length-prefix mode, the implementation's fragments, their serialized lengths,
   and what FrameFragmentCache returned after the last fragment (None: nothing / still cached) *)
Definition case03 := (frame * option N * bool * list frame * list N * option frame)%type.

Definition last_frame (l : list ares) : option frame :=
  match rev l with AFrame f :: _ => Some f | _ => None end.

Definition opt_frame_eqb (a b : option frame) : bool :=
  match a, b with Some x, Some y => frame_eqb x y | None, None => true | _, _ => false end.

Definition chk03 (c : case03) : bool :=
  let '(f, size, lenreq, frs, lens, reasm) := c in
  let m := frame_fragments f size lenreq in
  list_eqb frame_eqb m frs
  && list_eqb N.eqb (map (fun g => lenN (encode g)) m) lens
  && (let (c', rs) := cache_feed [] (map norm m) in
      opt_frame_eqb (last_frame rs) reasm && match c' with [] => true | _ => false end).
