From Coq Require Import NArith List Bool Init.Byte.
From RSV Require Import gen.GenConst lib.Bytes model.Frame model.Parser model.Fragmenter model.SendQueue model.Pipeline
     corr.C13Corr corr.C02Corr proofs.SendQueueProofs.
Import ListNotations.
Open Scope N_scope.

(* one direction of one run: the sender's fragment size and framing, the frames it queued (send_frame), the chunks the
   receiver read (byte-stream framing; one chunk per message otherwise), and the complete frames the real receiver
   handed to dispatch, in order *)
Definition case01 := (option N * bool * list frame * list bytes * list frame)%type.

Definition sids_of (l : list frame) : list N := nodup N.eq_dec (map fsid l).

Definition chk01 (bk : backend) (c : case01) : bool :=
  let '(size, lenreq, queued, chunks, dispatched) := c in
  (* the real dispatched frames are exactly what the model's receiving pipeline makes of the chunks read ... *)
  (if lenreq then list_eqb frame_eqb (receive bk chunks) dispatched else true)
  (* ... and, stream by stream, what the model makes of the frames the sender queued with send_frame
  (SETUP goes through send_priority_frame: C16 / C08) *)
  && (let disp := filter (fun f => negb (ftype f =? FT_SETUP)) dispatched in
      forallb (fun k => list_eqb frame_eqb (on k (expected_rx size lenreq queued)) (on k disp))
              (sids_of (queued ++ disp))).
