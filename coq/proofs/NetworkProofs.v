(* C01 above the pipeline: two endpoints joined by per-stream FIFO links (model/Network.v). *)
From Coq Require Import Arith NArith List Bool Lia Init.Byte.
From RSV Require Import gen.GenConst lib.Bytes model.Frame model.Fragmenter model.StreamIds model.Endpoint model.Network
     proofs.EndpointProofs proofs.EndpointWire.
Import ListNotations.
Open Scope N_scope.

(* ---------- small facts ---------- *)
Lemma app_payloads_app a b : app_payloads (a ++ b) = app_payloads a ++ app_payloads b.
Proof. unfold app_payloads. apply flat_map_app. Qed.

Lemma sent_frames_app a b : sent_frames (a ++ b) = sent_frames a ++ sent_frames b.
Proof. unfold sent_frames. apply flat_map_app. Qed.

Lemma on_stream_app k a b : on_stream k (a ++ b) = on_stream k a ++ on_stream k b.
Proof. unfold on_stream. apply filter_app. Qed.

Lemma pmap_app {A B} (f : A -> option B) a b : pmap f (a ++ b) = pmap f a ++ pmap f b.
Proof. induction a as [|x a IH]; [reflexivity|]. cbn [pmap app]. destruct (f x); cbn [app]; rewrite IH; reflexivity. Qed.

Lemma subseq_refl {A} (l : list A) : subseq l l.
Proof. induction l; constructor; assumption. Qed.

Lemma subseq_app {A} (a b c d : list A) : subseq a b -> subseq c d -> subseq (a ++ c) (b ++ d).
Proof.
  intros H1 H2. induction H1 as [l|x a b _ IH|x a b _ IH]; cbn [app].
  - induction l as [|y l IHl]; [exact H2|]. cbn [app]. apply sub_skip. exact IHl.
  - apply sub_take. exact IH.
  - apply sub_skip. exact IH.
Qed.

Lemma subseq_app_r {A} (a b c : list A) : subseq a b -> subseq a (b ++ c).
Proof. intro H. rewrite <- (app_nil_r a). apply subseq_app; [exact H|constructor]. Qed.

Lemma subseq_filter {A} (p : A -> bool) (a b : list A) : subseq a b -> subseq (filter p a) (filter p b).
Proof.
  intro H. induction H as [l|x a b _ IH|x a b _ IH]; cbn [filter].
  - constructor.
  - destruct (p x); [apply sub_take|]; exact IH.
  - destruct (p x); [apply sub_skip|]; exact IH.
Qed.

Lemma subseq_length {A} (a b : list A) : subseq a b -> (length a <= length b)%nat.
Proof. intro H. induction H; cbn [length]; lia. Qed.

Lemma subseq_In {A} (a b : list A) x : subseq a b -> In x a -> In x b.
Proof.
  intro H. induction H as [l|y a b _ IH|y a b _ IH]; intro Hin.
  - destruct Hin.
  - destruct Hin as [->|Hin]; [left; reflexivity|right; apply IH; exact Hin].
  - right. apply IH. exact Hin.
Qed.

(* ---------- the link: per stream, first in first out ---------- *)
Lemma pop_spec : forall q k f r, pop q k = Some (f, r) ->
  fsid f = k /\ forall j, on_stream j q = if j =? k then f :: on_stream j r else on_stream j r.
Proof.
  induction q as [|x q IH]; intros k f r H; [discriminate|]. cbn [pop] in H.
  destruct (N.eqb_spec (fsid x) k) as [E|Hne].
  - injection H as -> ->. split; [exact E|]. intro j. unfold on_stream. cbn [filter]. rewrite E.
    rewrite (N.eqb_sym k j). destruct (j =? k); reflexivity.
  - destruct (pop q k) as [[g r']|] eqn:Hp; [|discriminate]. injection H as E1 E2. subst f r.
    destruct (IH k g r' Hp) as [Hs Hon]. split; [exact Hs|]. intro j. unfold on_stream in *. cbn [filter].
    specialize (Hon j). destruct (N.eqb_spec j k) as [Ejk|Hjk].
    + subst j. destruct (N.eqb_spec (fsid x) k); [contradiction|]. exact Hon.
    + destruct (fsid x =? j); rewrite Hon; reflexivity.
Qed.

Lemma side_eqb_refl s : side_eqb s s = true.  Proof. destruct s; reflexivity. Qed.
Lemma side_eqb_other s : side_eqb s (other s) = false /\ side_eqb (other s) s = false.  Proof. destruct s; split; reflexivity. Qed.
Lemma side_eqb_eq a b : side_eqb a b = true <-> a = b.  Proof. destruct a, b; cbn; split; congruence. Qed.
Lemma side_cases a b : a = b \/ a = other b.  Proof. destruct a, b; cbn; auto. Qed.

Lemma update_inbox_self n s e q sent : inbox (update n s e q sent) s = q.
Proof. destruct s; reflexivity. Qed.
Lemma update_inbox_other n s e q sent : inbox (update n s e q sent) (other s) = inbox n (other s) ++ map on_wire sent.
Proof. destruct s; reflexivity. Qed.

(* what one step does to the queues, stream by stream *)
Lemma step_link n l n' x : net_step n l = (n', x) -> forall s k,
  on_stream k (inbox n s) ++ on_stream k (nwire x (other s)) = on_stream k (delivered x s) ++ on_stream k (inbox n' s).
Proof.
  intros H s k. destruct l as [s0 l|s0 k0 o u]; cbn [net_step] in H.
  - destruct (is_recv l).
    + injection H as <- <-. cbn [nwire delivered on_stream filter app]. rewrite app_nil_r. reflexivity.
    + destruct (ep_step true (ep_of n s0) l) as [e' effs]. injection H as <- <-.
      cbn [nwire delivered]. rewrite !app_nil_r. cbn [on_stream filter app].
      destruct (side_cases s s0) as [-> | ->].
      * rewrite update_inbox_self. destruct (side_eqb_other s0) as [E _]. rewrite E. cbn [on_stream filter]. rewrite app_nil_r. reflexivity.
      * rewrite update_inbox_other. destruct s0; cbn [other side_eqb]; rewrite on_stream_app; reflexivity.
  - destruct (pop (inbox n s0) k0) as [[f rest]|] eqn:Hp.
    + destruct (recv_dispatch (ep_of n s0) f o u) as [e' effs]. injection H as <- <-.
      destruct (pop_spec _ _ _ _ Hp) as [Hs Hon].
      cbn [nwire delivered]. rewrite !app_nil_r.
      destruct (side_cases s s0) as [-> | ->].
      * rewrite update_inbox_self, side_eqb_refl. destruct (side_eqb_other s0) as [E _]. rewrite E.
        cbn [on_stream filter app]. rewrite app_nil_r, (Hon k). rewrite Hs.
        rewrite (N.eqb_sym k0 k). destruct (k =? k0); reflexivity.
      * rewrite update_inbox_other. destruct s0; cbn [other side_eqb app on_stream filter]; rewrite on_stream_app; reflexivity.
    + injection H as <- <-. cbn [nwire delivered on_stream filter app]. rewrite app_nil_r. reflexivity.
Qed.

Lemma wire_app a b s : nwire (a ++ b) s = nwire a s ++ nwire b s.
Proof. induction a as [|x a IH]; [reflexivity|]. destruct x; cbn [nwire app]; rewrite IH, app_assoc; reflexivity. Qed.
Lemma delivered_app a b s : delivered (a ++ b) s = delivered a s ++ delivered b s.
Proof. induction a as [|x a IH]; [reflexivity|]. destruct x; cbn [delivered app]; rewrite IH, ?app_assoc; reflexivity. Qed.
Lemma got_app a b s k : got (a ++ b) s k = got a s k ++ got b s k.
Proof. induction a as [|x a IH]; [reflexivity|]. destruct x; cbn [got app]; rewrite IH, app_assoc; reflexivity. Qed.

(* over a whole history: what the peer queued on stream k = what was dispatched here on k, then what is still under way *)
Theorem run_link : forall ls n n' tr, net_run n ls = (n', tr) -> forall s k,
  on_stream k (inbox n s) ++ on_stream k (nwire tr (other s)) = on_stream k (delivered tr s) ++ on_stream k (inbox n' s).
Proof.
  induction ls as [|l ls IH]; intros n n' tr H s k; cbn [net_run] in H.
  - injection H as <- <-. cbn [nwire delivered on_stream filter app]. rewrite app_nil_r. reflexivity.
  - destruct (net_step n l) as [n1 x] eqn:Hs. destruct (net_run n1 ls) as [n2 xs] eqn:Hr. injection H as <- <-.
    rewrite wire_app, delivered_app, !on_stream_app, app_assoc, (step_link _ _ _ _ Hs s k), <- app_assoc,
      (IH _ _ _ Hr s k), app_assoc. reflexivity.
Qed.

(* ---------- what a section hands to the application ---------- *)
Ltac crush_ifs :=
  repeat match goal with
         | |- context [match o_fut ?o with _ => _ end] => destruct (o_fut o)
         | |- context [if ?b then _ else _] => destruct b
         end.

(* a frame given to the registered handler: nothing, or exactly the payload the frame carries *)
Lemma handler_frame_payloads e oid o f u :
  app_payloads (snd (fst (handler_frame e oid o f u))) = [] \/
  exists p, carried f = Some p /\ app_payloads (snd (fst (handler_frame e oid o f u))) = [p].
Proof.
  unfold handler_frame.
  destruct (o_kind o); destruct f; cbn [fst snd app_payloads flat_map carried]; try (left; reflexivity);
    crush_ifs; cbn [fst snd app_payloads flat_map app];
    first [left; reflexivity | right; eexists; split; reflexivity].
Qed.

Lemma open_responder_payloads e f o :
  app_payloads (snd (open_responder e f o)) = [] \/
  exists p, carried f = Some p /\ app_payloads (snd (open_responder e f o)) = [p].
Proof.
  unfold open_responder. destruct f; destruct o; cbn [snd app_payloads flat_map carried app]; try (left; reflexivity);
    try (right; eexists; split; reflexivity).
  destruct has_sub, has_pub, complete; cbn [snd app_payloads flat_map app fst]; right; eexists; split; reflexivity.
Qed.

Theorem dispatch_intact e f o u :
  app_payloads (snd (recv_dispatch e f o u)) = [] \/
  exists p, carried f = Some p /\ app_payloads (snd (recv_dispatch e f o u)) = [p].
Proof.
  unfold recv_dispatch, raised_error.
  destruct ((fsid f =? CONNECTION_STREAM_ID) || is_request_type f).
  - destruct f; cbn [snd app_payloads flat_map app carried fsid]; try (left; reflexivity).
    + destruct respond; left; reflexivity.
    + destruct (tget (table e) sid); cbn [snd app_payloads flat_map app]; [left; reflexivity|].
      destruct (default_outcome _ o) eqn:Eo; cbn [snd app_payloads flat_map app]; try (right; eexists; split; reflexivity);
        destruct (sid =? CONNECTION_STREAM_ID); cbn [snd app_payloads flat_map app]; try (right; eexists; split; reflexivity);
        apply (open_responder_payloads e (FRequestResponse sid ign follows md d)).
    + destruct (tget (table e) sid); cbn [snd app_payloads flat_map app]; [left; reflexivity|].
      destruct (default_outcome _ o); cbn [snd app_payloads flat_map app]; right; eexists; split; reflexivity.
    + destruct (tget (table e) sid); cbn [snd app_payloads flat_map app]; [left; reflexivity|].
      destruct (default_outcome _ o) eqn:Eo; cbn [snd app_payloads flat_map app]; try (right; eexists; split; reflexivity);
        destruct (sid =? CONNECTION_STREAM_ID); cbn [snd app_payloads flat_map app]; try (right; eexists; split; reflexivity);
        apply (open_responder_payloads e (FRequestStream sid ign follows n md d)).
    + destruct (tget (table e) sid); cbn [snd app_payloads flat_map app]; [left; reflexivity|].
      destruct (default_outcome _ o) eqn:Eo; cbn [snd app_payloads flat_map app]; try (right; eexists; split; reflexivity);
        destruct (sid =? CONNECTION_STREAM_ID); cbn [snd app_payloads flat_map app]; try (right; eexists; split; reflexivity);
        apply (open_responder_payloads e (FRequestChannel sid ign follows complete n md d)).
    + destruct (default_outcome _ o); left; reflexivity.
    + destruct (default_outcome _ o); cbn [app_payloads flat_map app]; right; eexists; split; reflexivity.
  - destruct (tget (table e) (fsid f)) as [j|]; [|left; reflexivity].
    destruct (nth_error (objs e) j) as [ob|]; [|left; reflexivity].
    pose proof (handler_frame_payloads e j ob f u) as H. destruct (handler_frame e j ob f u) as [[e' effs] raised].
    cbn [fst snd] in *. rewrite app_payloads_app.
    assert (app_payloads (if raised then [XEnq (f_error (fsid f) EC_APPLICATION_ERROR [])] else []) = []) as ->
      by (destruct raised; reflexivity).
    rewrite app_nil_r. exact H.
Qed.

(* sections that are not receptions hand no payload to the application *)
Lemma close_one_payloads e sid oid : app_payloads (snd (close_one e sid oid)) = [].
Proof.
  unfold close_one. destruct (nth_error (objs e) oid) as [ob|]; [|reflexivity].
  destruct (is_requester (o_kind ob)) eqn:Er.
  - unfold handler_frame, f_error.
    destruct (o_kind ob); try discriminate Er; cbn [fst snd];
      crush_ifs; cbn [fst snd];
      repeat match goal with
             | |- context [nth_error ?l ?i] => destruct (nth_error l i)
             | |- context [match o_kind ?x with _ => _ end] => destruct (o_kind x)
             | |- context [match o_fut ?x with _ => _ end] => destruct (o_fut x)
             | |- context [if ?b then _ else _] => destruct b
             end; reflexivity.
  - cbn [fst snd].
    repeat match goal with
           | |- context [match o_kind ?x with _ => _ end] => destruct (o_kind x)
           | |- context [match o_fut ?x with _ => _ end] => destruct (o_fut x)
           | |- context [if ?b then _ else _] => destruct b
           end; reflexivity.
Qed.

Lemma close_all_payloads : forall entries e, app_payloads (snd (close_all e entries)) = [].
Proof.
  induction entries as [|[sid oid] r IH]; intro e; [reflexivity|]. cbn [close_all].
  pose proof (close_one_payloads e sid oid) as H1. destruct (close_one e sid oid) as [e1 x1].
  pose proof (IH e1) as H2. destruct (close_all e1 r) as [e2 x2]. cbn [snd] in *. rewrite app_payloads_app, H1, H2. reflexivity.
Qed.

Theorem local_no_payloads u e l : is_recv l = false -> app_payloads (snd (ep_step u e l)) = [].
Proof.
  intro Hl. destruct l; try discriminate Hl; cbn [ep_step];
    try (destruct (alloc e) as [[sid|] e1]; reflexivity);
    try (unfold with_obj; destruct (nth_error (objs e) oid) as [ob|]; [|reflexivity];
         repeat match goal with
                | |- context [match o_kind ?x with _ => _ end] => destruct (o_kind x)
                | |- context [match o_fut ?x with _ => _ end] => destruct (o_fut x)
                | |- context [match ?r with ARResult _ _ => _ | ARError => _ | ARCancel => _ end] => destruct r
                | |- context [if ?b then _ else _] => destruct b
                end; cbn [snd fst app_payloads flat_map app]; reflexivity).
  apply close_all_payloads.
Qed.

(* ---------- END TO END above the pipeline ---------- *)
(* per event: payloads reach the application only in deliveries, and only the delivered frame's own payload *)
Lemma step_got n l n' x s k : net_step n l = (n', x) ->
  subseq (got x s k) (pmap carried (on_stream k (delivered x s))).
Proof.
  intro H. destruct l as [s0 l|s0 k0 o u]; cbn [net_step] in H.
  - destruct (is_recv l) eqn:Hl.
    + injection H as <- <-. constructor.
    + pose proof (local_no_payloads true (ep_of n s0) l Hl) as Hp.
      destruct (ep_step true (ep_of n s0) l) as [e' effs]. injection H as <- <-. cbn [snd] in Hp.
      cbn [got delivered]. rewrite Hp. destruct (side_eqb s0 s); constructor.
  - destruct (pop (inbox n s0) k0) as [[f rest]|] eqn:Hp; [|injection H as <- <-; constructor].
    pose proof (dispatch_intact (ep_of n s0) f o u) as Hd.
    destruct (recv_dispatch (ep_of n s0) f o u) as [e' effs]. injection H as <- <-. cbn [snd] in Hd.
    cbn [got delivered]. rewrite !app_nil_r.
    destruct (side_eqb s0 s); cbn [andb]; [|constructor].
    cbn [on_stream filter]. destruct (fsid f =? k); [|constructor].
    cbn [pmap]. destruct Hd as [->|[p [-> ->]]]; [constructor|]. apply subseq_refl.
Qed.

Lemma run_got : forall ls n n' tr s k, net_run n ls = (n', tr) ->
  subseq (got tr s k) (pmap carried (on_stream k (delivered tr s))).
Proof.
  induction ls as [|l ls IH]; intros n n' tr s k H; cbn [net_run] in H.
  - injection H as <- <-. constructor.
  - destruct (net_step n l) as [n1 x] eqn:Hs. destruct (net_run n1 ls) as [n2 xs] eqn:Hr. injection H as <- <-.
    rewrite got_app, delivered_app, on_stream_app, pmap_app. apply subseq_app; [eapply step_got; exact Hs|eapply IH; exact Hr].
Qed.

(* For EVERY history of the two endpoints from connection start, each side s and each stream k: the payloads the
   application at s is given from stream k — handler arguments, subscriber elements, awaitable results — are, in order
   and without repetition, payloads of frames its peer queued on stream k.  Nothing is fabricated, duplicated, reordered
   within the stream, altered, or taken from another stream. *)
Theorem network_delivery ls s k :
  let tr := snd (net_run net_init ls) in
  subseq (got tr s k) (pmap carried (on_stream k (nwire tr (other s)))).
Proof.
  cbn zeta. destruct (net_run net_init ls) as [n' tr] eqn:H. cbn [snd].
  pose proof (run_link ls net_init n' tr H s k) as L.
  assert (on_stream k (inbox net_init s) = []) as E by (destruct s; reflexivity). rewrite E in L. cbn [app] in L.
  rewrite L, pmap_app. apply subseq_app_r. eapply run_got. exact H.
Qed.

(* what has been queued on a stream and not yet dispatched is exactly the tail of what the peer queued *)
Theorem network_in_flight ls s k :
  let r := net_run net_init ls in
  on_stream k (nwire (snd r) (other s)) = on_stream k (delivered (snd r) s) ++ on_stream k (inbox (fst r) s).
Proof.
  cbn zeta. destruct (net_run net_init ls) as [n' tr] eqn:H. cbn [fst snd].
  pose proof (run_link ls net_init n' tr H s k) as L.
  assert (on_stream k (inbox net_init s) = []) as E by (destruct s; reflexivity). rewrite E in L. exact L.
Qed.

(* ---------- emission: the payload-carrying frames a section queues carry what the application handed over ---------- *)
(* frames that carry an element / request / response payload (a bare COMPLETE does not) *)
Definition pcarried (f : frame) : option (bytes * bytes) :=
  match f with
  | FPayload _ _ _ _ nx md d => if nx then Some (md, d) else None
  | _ => carried f
  end.

Theorem local_emission u e l : is_recv l = false ->
  pmap pcarried (sent_frames (snd (ep_step u e l))) = [] \/
  exists p, label_payload l = Some p /\ pmap pcarried (sent_frames (snd (ep_step u e l))) = [p].
Proof.
  intro Hl. destruct l; try discriminate Hl; cbn [ep_step label_payload];
    try (destruct (alloc e) as [[sid|] e1]; cbn [snd sent_frames flat_map app pmap pcarried carried];
         first [left; reflexivity | right; eexists; split; reflexivity]);
    try (unfold with_obj; destruct (nth_error (objs e) oid) as [ob|]; [|left; reflexivity];
         repeat match goal with
                | |- context [match o_kind ?x with _ => _ end] => destruct (o_kind x)
                | |- context [match o_fut ?x with _ => _ end] => destruct (o_fut x)
                | |- context [match ?r with ARResult _ _ => _ | ARError => _ | ARCancel => _ end] => destruct r
                | |- context [if ?b then _ else _] => destruct b
                end; cbn [snd fst sent_frames flat_map app pmap pcarried carried f_payload f_error f_cancel f_request_n];
         first [left; reflexivity | right; eexists; split; reflexivity]).
  left. pose proof (close_sends_nothing u e) as H. cbn [ep_step] in H. unfold enqs in H. unfold sent_frames. rewrite H. reflexivity.
Qed.

(* what an endpoint queues in reaction to a delivered frame (ERROR, KEEPALIVE answer, bare COMPLETE) carries no payload *)
Lemma reaction_no_payload f g : reaction_ok f g -> pcarried g = None.
Proof. intros [_ H]. destruct g; try contradiction; try reflexivity. destruct H as [_ [_ [-> _]]]. reflexivity. Qed.

Theorem delivery_emits_no_payload e f o u : pmap pcarried (sent_frames (snd (recv_dispatch e f o u))) = [].
Proof.
  pose proof (recv_dispatch_enqs e f o u) as H. unfold enqs in H. unfold sent_frames.
  induction H as [|g l Hg _ IH]; [reflexivity|]. cbn [pmap]. rewrite (reaction_no_payload f g Hg). exact IH.
Qed.

(* ---------- nothing lost at dispatch: a payload frame for a stream whose local party is still listening is handed over ---------- *)
(* the object registered for the stream still expects elements / its response *)
Definition receptive (o : hobj) : bool :=
  match o_kind o with
  | KRRReq => match o_fut o with FPending => true | _ => false end
  | KRSReq => o_has_sub o
  | KChanReq | KChanResp => o_has_sub o && negb (o_recv o)
  | _ => false
  end.

Definition for_object (oid : nat) (x : effect) : Prop :=
  match x with
  | XFut i _ _ _ | XCb i _ | XPub i _ | XAppFutCancel i => i = oid
  | XEnq _ | XHandler _ _ _ | XRaised => True
  end.

Theorem element_delivered e sid oid ob ign fo co md d oc u :
  sid <> 0 -> tget (table e) sid = Some oid -> nth_error (objs e) oid = Some ob -> receptive ob = true ->
  let effs := snd (recv_dispatch e (FPayload sid ign fo co true md d) oc u) in
  app_payloads effs = [(md, d)] /\ Forall (for_object oid) effs.
Proof.
  intros Hs Ht Ho Hr. unfold recv_dispatch. cbn [fsid].
  change (is_request_type (FPayload sid ign fo co true md d)) with false. rewrite orb_false_r.
  change CONNECTION_STREAM_ID with 0. destruct (N.eqb_spec sid 0) as [E|_]; [contradiction|].
  rewrite Ht, Ho. unfold receptive in Hr. unfold handler_frame.
  destruct (o_kind ob); try discriminate Hr; cbn [orb].
  - destruct (o_fut ob); try discriminate Hr. cbn [fst snd app]. split; [reflexivity|repeat constructor].
  - rewrite Hr. cbn [negb andb fst snd app]. split; [reflexivity|destruct co; repeat constructor].
  - apply andb_true_iff in Hr as [H1 H2]. apply negb_true_iff in H2. rewrite H1, H2. cbn [negb andb fst snd app].
    split; [reflexivity|destruct co; repeat constructor].
  - apply andb_true_iff in Hr as [H1 H2]. apply negb_true_iff in H2. rewrite H1, H2. cbn [negb andb fst snd app].
    split; [reflexivity|destruct co; repeat constructor].
Qed.

(* a request on an id that is free here reaches the application's handler with its payload, raising handler or not *)
Theorem request_delivered e f o u : is_request_type f = true -> fsid f <> 0 -> tget (table e) (fsid f) = None ->
  exists p, carried f = Some p /\ app_payloads (snd (recv_dispatch e f o u)) = [p].
Proof.
  intros Hq Hs Ht. unfold recv_dispatch. rewrite Hq, orb_true_r.
  destruct f; try discriminate Hq; cbn [fsid] in *; rewrite Ht; change CONNECTION_STREAM_ID with 0;
    try (destruct (N.eqb_spec sid 0) as [E|_]; [contradiction|]).
  - destruct o as [| | |hp hs|]; cbn [default_outcome snd app_payloads flat_map app open_responder]; eexists; split; reflexivity.
  - destruct (default_outcome _ o); cbn [snd app_payloads flat_map app]; eexists; split; reflexivity.
  - destruct o as [| | |hp hs|]; cbn [default_outcome snd app_payloads flat_map app open_responder]; eexists; split; reflexivity.
  - destruct o as [| | |hp hs|]; cbn [default_outcome snd app_payloads flat_map app open_responder];
      try (eexists; split; reflexivity);
      try (destruct hs, hp, complete; cbn [snd fst app_payloads flat_map app]; eexists; split; reflexivity);
      destruct complete; cbn [snd fst app_payloads flat_map app]; eexists; split; reflexivity.
Qed.

(* every signal a delivery produces goes to the object registered for the frame's stream, or to the one it creates *)
Theorem delivery_reaches_own_object e f o u : Inv e ->
  Forall (fun x => match x with
                   | XFut i _ _ _ | XCb i _ | XPub i _ | XAppFutCancel i =>
                       tget (table e) (fsid f) = Some i \/ (tget (table e) (fsid f) = None /\ i = length (objs e))
                   | _ => True end) (snd (recv_dispatch e f o u)).
Proof.
  intro I. unfold recv_dispatch, raised_error.
  destruct ((fsid f =? CONNECTION_STREAM_ID) || is_request_type f).
  - destruct f; cbn [snd fsid]; try (repeat constructor).
    + destruct respond; repeat constructor.
    + destruct (tget (table e) sid) eqn:Ht; [repeat constructor|].
      destruct (default_outcome _ o); try (repeat constructor);
        destruct (sid =? CONNECTION_STREAM_ID); try (repeat constructor).
    + destruct (tget (table e) sid); [repeat constructor|]. destruct (default_outcome _ o); repeat constructor.
    + destruct (tget (table e) sid) eqn:Ht; [repeat constructor|].
      destruct (default_outcome _ o); try (repeat constructor);
        destruct (sid =? CONNECTION_STREAM_ID); try (repeat constructor); cbn [open_responder snd]; repeat constructor; right; split; reflexivity.
    + destruct (tget (table e) sid) eqn:Ht; [repeat constructor|].
      destruct (default_outcome _ o); try (repeat constructor);
        destruct (sid =? CONNECTION_STREAM_ID); try (repeat constructor); cbn [open_responder snd].
      destruct has_sub, has_pub, complete; cbn [snd fst app]; repeat constructor; right; split; reflexivity.
    + destruct (default_outcome _ o); repeat constructor.
    + destruct (default_outcome _ o); repeat constructor.
  - destruct (tget (table e) (fsid f)) as [j|] eqn:Ht; [|constructor].
    destruct (nth_error (objs e) j) as [ob|] eqn:Ho; [|constructor].
    assert (o_sid ob = fsid f) as Hsid.
    { destruct (inv_objs e I (fsid f) j) as [ob' [Hn Hs]]; [apply tget_In; [apply (inv_keys e I)|exact Ht]|]. congruence. }
    assert (fsid f + 1 <> o_sid ob) as Hk by (rewrite Hsid; lia).
    pose proof (handler_frame_local e j ob f u (fsid f + 1) Hk) as H.
    destruct (handler_frame e j ob f u) as [[e' effs] raised]. destruct H as [_ [_ [_ H]]]. cbn [snd].
    apply Forall_app. split.
    + eapply Forall_impl; [|exact H]. intros x Hx. destruct x; try exact Logic.I; left; congruence.
    + destruct raised; repeat constructor.
Qed.

(* non-vacuity *)
Lemma network_example :
  let ls := [NLocal SA (LReqResponse [x01] [x02]); NLocal SB (LReqStream [x03] [x04]);
             NLocal SB (LSubscribe 0%nat true [x03] [x04]);
             NDeliver SB 1 OFuture true; NDeliver SA 2 OPublisher true;
             NLocal SA (LPubNext 1%nat [x05] [x06] false); NLocal SB (LAppResolve 1%nat (ARResult [x07] [x08]));
             NLocal SB (LFutCb 1%nat (ARResult [x07] [x08])); NLocal SA (LPubNext 1%nat [] [x09] true);
             NDeliver SB 2 ONone true; NDeliver SA 1 ONone true; NDeliver SB 2 ONone true] in
  let tr := snd (net_run net_init ls) in
  got tr SB 1 = [([x01], [x02])] /\ got tr SA 2 = [([x03], [x04])] /\
  got tr SB 2 = [([x05], [x06]); ([], [x09])] /\ got tr SA 1 = [([x07], [x08])] /\
  inbox (fst (net_run net_init ls)) SA = [] /\ inbox (fst (net_run net_init ls)) SB = [].
Proof. vm_compute. repeat split. Qed.

(* on_wire is what the pipeline does to a complete payload frame: the sender's (single) fragment of it, as decoded *)
Lemma on_wire_is_pipeline sid ign co nx md d :
  norm (mk_fragment (FPayload sid ign false co nx md d) true None md d) = on_wire (FPayload sid ign false co nx md d).
Proof. reflexivity. Qed.

Lemma on_wire_carried f : carried (on_wire f) = carried f /\ fsid (on_wire f) = fsid f /\ ftype (on_wire f) = ftype f.
Proof. destruct f; repeat split; reflexivity. Qed.
