From Coq Require Import Arith NArith List Bool Lia Init.Byte.
From RSV Require Import gen.GenConst lib.Bytes model.Frame model.Fragmenter model.StreamIds model.Endpoint
     proofs.SendQueueProofs proofs.EndpointProofs.
Import ListNotations.
Open Scope N_scope.

(* what the sweep does to one registered object, as a function of the object alone *)
Definition close_effects (ob : hobj) (oid : nat) : list effect :=
  match o_kind ob with
  | KRRReq => match o_fut ob with FPending => [XFut oid false [] []] | _ => [] end
  | KRRResp => match o_fut ob with FPending => [XAppFutCancel oid] | _ => [] end
  | KRSReq => if o_has_sub ob then [XCb oid SError] else []
  | KRSResp => [XPub oid PCancelOp]
  | KChanReq => (if o_recv ob then [] else if o_has_sub ob then [XCb oid SError] else [])
                ++ (if o_has_pub ob then [XPub oid PCancelOp] else [])
  | KChanResp => if o_has_pub ob then [XPub oid PCancelOp] else []
  end.

Definition sweep_of (e : ep) (entries : list (N * nat)) : list effect :=
  flat_map (fun p => match nth_error (objs e) (snd p) with Some ob => close_effects ob (snd p) | None => [] end) entries.

Lemma close_all_effects_gen (e : ep) : forall entries e0,
  NoDup (map snd entries) ->
  (forall s i, In (s, i) entries -> nth_error (objs e0) i = nth_error (objs e) i /\
                                    exists ob, nth_error (objs e) i = Some ob /\ o_sid ob = s) ->
  snd (close_all e0 entries) = sweep_of e entries.
Proof.
  induction entries as [|[sid oid] r IH]; intros e0 Hnd Hobj; [reflexivity|].
  cbn [close_all sweep_of flat_map snd]. destruct (Hobj sid oid (or_introl eq_refl)) as (E0 & ob & Hob & Hs).
  rewrite Hob. pose proof (close_one_effects e0 sid oid ob (eq_trans E0 Hob) Hs) as H1.
  cbn [map snd] in Hnd. apply NoDup_cons_iff in Hnd. destruct Hnd as [Hni Hnd].
  assert (forall s i, In (s, i) r -> nth_error (objs (fst (close_one e0 sid oid))) i = nth_error (objs e) i /\
                                     exists ob', nth_error (objs e) i = Some ob' /\ o_sid ob' = s) as Hobj'.
  { intros s i Hin. destruct (Hobj s i (or_intror Hin)) as (Ei & Hex). split; [|exact Hex].
    rewrite close_one_other_objs; [exact Ei|]. intro E. subst i. apply Hni. apply in_map_iff. exists (s, oid). split; [reflexivity|exact Hin]. }
  destruct (close_one e0 sid oid) as [e1 x1]. cbn [fst snd] in *.
  specialize (IH e1 Hnd Hobj'). destruct (close_all e1 r) as [e2 x2]. cbn [snd] in *.
  rewrite H1, IH. unfold close_effects, sweep_of. reflexivity.
Qed.

Lemma inv_oids_nodup e : Inv e -> NoDup (map snd (table e)).
Proof.
  intros [K O _]. induction (table e) as [|[s i] t IH]; [constructor|].
  cbn [map fst snd] in *. apply NoDup_cons_iff in K. destruct K as [Kni K]. constructor.
  - intro Hin. apply in_map_iff in Hin. destruct Hin as ([s' i'] & E & Hin). cbn [snd] in E. subst i'.
    destruct (O s i (or_introl eq_refl)) as (o1 & H1 & S1). destruct (O s' i (or_intror Hin)) as (o2 & H2 & S2).
    assert (s' = s) as Es by congruence. rewrite Es in Hin. apply Kni. apply in_map_iff. exists (s, i). split; [reflexivity|exact Hin].
  - apply IH; [exact K|]. intros s0 i0 Hin. apply O. right. exact Hin.
Qed.

(* THE WHOLE SWEEP, from every reachable state: when the connection is lost, what the application is told is exactly,
   for every stream registered at that moment (oldest registration first) and judged by that stream's state at that
   moment: the pending request failed, the open subscriber failed, the handler future / publisher cancelled — each once,
   nothing else, nothing for streams not registered *)
Theorem close_sweep_complete u e : Inv e -> snd (ep_step u e LClose) = sweep_of e (rev (table e)).
Proof.
  intro I. cbn [ep_step]. apply close_all_effects_gen.
  - rewrite map_rev. apply NoDup_rev. apply inv_oids_nodup. exact I.
  - intros s i Hin. split; [reflexivity|]. apply in_rev in Hin. exact (inv_objs e I s i Hin).
Qed.
