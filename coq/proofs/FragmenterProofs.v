From Coq Require Import ZArith NArith List Bool Lia ZifyBool ZifyNat ZifyN Init.Byte.
From RSV Require Import gen.GenConst lib.Bytes model.Frame model.Fragmenter proofs.FrameProofs.
Import ListNotations.
Open Scope N_scope.
Ltac Zify.zify_post_hook ::= Z.to_euclidean_division_equations.

(* ---------- flag patterns over a fragment list ---------- *)
Definition first_ok (isf : bool) (fs : list frag) : Prop :=
  match fs with
  | [] => True
  | g :: r => is_first g = isf /\ Forall (fun h => is_first h = false) r
  end.

(* last_ok l fs: every fragment but the final one has is_last = false, the final one has is_last = l *)
Fixpoint last_ok (l : bool) (fs : list frag) : Prop :=
  match fs with
  | [] => True
  | [g] => is_last g = l
  | g :: r => is_last g = false /\ last_ok l r
  end.

Lemma last_ok_app l a b : b <> [] -> Forall (fun g => is_last g = false) a -> last_ok l b -> last_ok l (a ++ b).
Proof.
  intros Hb Ha Hl. induction a as [|g a IH]; [exact Hl|].
  inversion Ha as [|? ? Hg Ha']; subst. cbn [app last_ok].
  destruct (a ++ b) eqn:E; [destruct a; [cbn in E; congruence|discriminate]|].
  split; [exact Hg|]. apply IH. exact Ha'.
Qed.

Lemma last_ok_cons l g r : r <> [] -> is_last g = false -> last_ok l r -> last_ok l (g :: r).
Proof. intros Hr Hg Hl. destruct r; [congruence|]. cbn [last_ok]. split; assumption. Qed.

Lemma last_ok_false_all fs : last_ok false fs -> Forall (fun g => is_last g = false) fs.
Proof.
  induction fs as [|g r IH]; intro H; [constructor|].
  destruct r as [|h r']; cbn [last_ok] in H.
  - constructor; [exact H|constructor].
  - destruct H as [Hg Hr]. constructor; [exact Hg|apply IH; exact Hr].
Qed.

Lemma lenN_takeN_le (l : bytes) n : lenN (takeN l n) <= n /\ lenN (takeN l n) <= lenN l.
Proof. unfold lenN. rewrite takeN_length. lia. Qed.

Lemma takeN_short_all (l : bytes) n : lenN (takeN l n) < n -> takeN l n = l /\ dropN l n = [].
Proof.
  intro H. unfold lenN in H. rewrite takeN_length in H.
  assert (lenN l <= n) by (unfold lenN; lia). split; [apply takeN_all|apply dropN_all]; assumption.
Qed.

Lemma is_nil_true (l : bytes) : is_nil l = true <-> l = [].
Proof. destruct l; cbn; split; congruence. Qed.

Lemma lenN_zero (l : bytes) : lenN l = 0 <-> l = [].
Proof. destruct l; [split; reflexivity|]. rewrite lenN_cons. split; [lia|discriminate]. Qed.

Lemma dropN_shorter (l : bytes) n : 0 < n -> l <> [] -> (length (dropN l n) < length l)%nat.
Proof. intros Hn Hl. rewrite dropN_length. destruct l; [congruence|]. cbn [length]. lia. Qed.

Lemma dropN_nonempty_full (l : bytes) n : dropN l n <> [] -> lenN (takeN l n) = n.
Proof.
  intro H. unfold lenN. rewrite takeN_length.
  assert (N.to_nat n < length l)%nat.
  { destruct (Nat.ltb_spec (N.to_nat n) (length l)); [assumption|].
    exfalso. apply H. apply dropN_all. unfold lenN. lia. }
  lia.
Qed.

Fixpoint all_but_last (P : frag -> Prop) (fs : list frag) : Prop :=
  match fs with
  | [] => True
  | [g] => True
  | g :: r => P g /\ all_but_last P r
  end.

Lemma all_but_last_cons (P : frag -> Prop) (g : frag) (r : list frag) : r <> [] -> P g -> all_but_last P r -> all_but_last P (g :: r).
Proof. intros Hr Hg Ha. destruct r; [congruence|]. cbn [all_but_last]. split; assumption. Qed.

Lemma all_but_last_app (P : frag -> Prop) (a b : list frag) : b <> [] -> Forall P a -> all_but_last P b -> all_but_last P (a ++ b).
Proof.
  intros Hb Ha Hl. induction a as [|g a IH]; [exact Hl|].
  inversion Ha as [|? ? Hg Ha']; subst. cbn [app].
  apply all_but_last_cons; [destruct a; [exact Hb|discriminate]|exact Hg|apply IH; exact Ha'].
Qed.

Lemma Forall_all_but_last (P : frag -> Prop) (fs : list frag) : Forall P fs -> all_but_last P fs.
Proof.
  induction fs as [|g r IH]; intro H; [exact I|]. inversion H; subst.
  destruct r; [exact I|]. cbn [all_but_last]. split; [assumption|apply IH; assumption].
Qed.

Lemma concat_md_nil fs : Forall (fun g => fr_md g = []) fs -> concat (map fr_md fs) = [].
Proof. induction 1 as [|g r Hg _ IH]; [reflexivity|]. cbn. rewrite Hg, IH. reflexivity. Qed.
Lemma concat_d_nil fs : Forall (fun g => fr_d g = []) fs -> concat (map fr_d fs) = [].
Proof. induction 1 as [|g r Hg _ IH]; [reflexivity|]. cbn. rewrite Hg, IH. reflexivity. Qed.

Section Budgets.
  Variables first next : N.
  Hypothesis first_pos : 0 < first.
  Hypothesis next_pos : 0 < next.

  Definition budget (isf : bool) : N := if isf then first else next.

  (* ---------- phase 3 ---------- *)
  Lemma data_phase_spec : forall fuel d, d <> [] -> (length d < fuel)%nat ->
    let fs := data_phase fuel first next false d in
    concat (map fr_d fs) = d /\ fs <> [] /\
    Forall (fun g => fr_md g = [] /\ is_first g = false /\ fr_d g <> [] /\ lenN (fr_d g) <= next) fs /\
    last_ok true fs /\ all_but_last (fun g => lenN (fr_d g) = next) fs.
  Proof.
    induction fuel as [|k IH]; intros d Hd Hf; [lia|].
    cbn [data_phase]. cbv zeta.
    set (df := takeN d next). set (rest := dropN d next).
    assert (df <> []) as Hdf.
    { unfold df. destruct d as [|x d']; [congruence|]. cbn [takeN].
      destruct (N.eqb_spec next 0); [lia|discriminate]. }
    assert (lenN df =? 0 = false) as -> by (apply N.eqb_neq; rewrite lenN_zero; exact Hdf).
    pose proof (lenN_takeN_le d next) as [Hle _]. fold df in Hle.
    destruct (is_nil rest) eqn:En.
    - apply is_nil_true in En. rewrite app_nil_r. cbn [map concat fr_d]. rewrite app_nil_r.
      repeat split.
      + rewrite <- (takeN_dropN d next). fold df rest. rewrite En, app_nil_r. reflexivity.
      + discriminate.
      + constructor; [|constructor]. cbn. repeat split; assumption.
    - assert (rest <> []) as Hr by (intro E; rewrite E in En; discriminate).
      assert (length rest < k)%nat as Hk.
      { pose proof (dropN_shorter d next next_pos Hd). fold rest in H. lia. }
      specialize (IH rest Hr Hk). cbv zeta in IH. destruct IH as (I1 & I2 & I3 & I4 & I5).
      cbn [app map concat fr_d]. repeat split.
      + rewrite I1. rewrite <- (takeN_dropN d next). reflexivity.
      + discriminate.
      + constructor; [cbn; repeat split; assumption|exact I3].
      + apply last_ok_cons; [exact I2|reflexivity|exact I4].
      + apply all_but_last_cons; [exact I2| |exact I5]. cbn [fr_d]. apply dropN_nonempty_full. exact Hr.
  Qed.

  (* ---------- phase 1 ---------- *)
  Lemma md_phase_spec : forall fuel isf md dz fs lm fi, (length md < fuel)%nat ->
    md_phase fuel first next isf md dz = (fs, lm, fi) ->
    concat (map fr_md fs) ++ lm = md /\
    Forall (fun g => fr_d g = [] /\ fr_md g <> [] /\ lenN (fr_md g) = budget (is_first g)) fs /\
    lenN lm < budget fi /\
    fi = (isf && match fs with [] => true | _ => false end) /\
    first_ok isf fs /\
    last_ok (dz && is_nil lm) fs.
  Proof.
    induction fuel as [|k IH]; intros isf md dz fs lm fi Hf E; [lia|].
    cbn [md_phase] in E. cbv zeta in E. fold (budget isf) in E.
    set (sz := budget isf) in *. assert (0 < sz) as Hsz by (unfold sz, budget; destruct isf; assumption).
    destruct (N.eqb_spec (lenN (takeN md sz)) 0) as [E0|E0].
    - injection E as <- <- <-. apply lenN_zero in E0.
      assert (md = []) as ->.
      { destruct md as [|x m]; [reflexivity|]. cbn [takeN] in E0.
        destruct (N.eqb_spec sz 0); [lia|discriminate]. }
      cbn. split; [reflexivity|]. split; [constructor|]. split; [exact Hsz|]. split; [rewrite andb_true_r; reflexivity|]. split; exact I.
    - destruct (N.ltb_spec (lenN (takeN md sz)) sz) as [Hlt|Hge].
      + injection E as <- <- <-. destruct (takeN_short_all md sz Hlt) as [Ht _]. rewrite Ht in *.
        cbn [map concat app first_ok last_ok]. split; [reflexivity|]. split; [constructor|]. split; [exact Hlt|]. split; [rewrite andb_true_r; reflexivity|]. split; exact I.
      + destruct (md_phase k first next false (dropN md sz) dz) as [[fs' lm'] fi'] eqn:E'.
        injection E as <- <- <-.
        assert (md <> []) as Hmd by (intro X; subst md; cbn in E0; congruence).
        assert (length (dropN md sz) < k)%nat as Hk by (pose proof (dropN_shorter md sz Hsz Hmd); lia).
        specialize (IH false (dropN md sz) dz fs' lm' fi' Hk E').
        destruct IH as (I1 & I2 & I3 & I4 & I5 & I6).
        pose proof (lenN_takeN_le md sz) as [Hle _].
        cbn [map concat fr_md]. split; [|split; [|split; [|split; [|split]]]].
        * rewrite <- app_assoc, I1. apply takeN_dropN.
        * constructor; [|exact I2]. cbn [fr_d fr_md is_first]. split; [reflexivity|]. split.
          -- intro X. rewrite X in E0. cbn in E0. congruence.
          -- fold sz. lia.
        * rewrite I4 in *. cbn [andb] in *. exact I3.
        * rewrite I4. cbn [andb]. rewrite andb_false_r. reflexivity.
        * cbn [first_ok is_first]. split; [reflexivity|].
          destruct fs' as [|g r]; [constructor|]. cbn [first_ok] in I5. destruct I5 as [Hg Hr]. constructor; assumption.
        * destruct fs' as [|g r].
          -- cbn [last_ok is_last].
             (* no more full fragments: lm' is the rest *)
             cbn [map concat app] in I1. subst lm'. reflexivity.
          -- apply last_ok_cons; [discriminate| |exact I6].
             cbn [is_last].
             (* rest is non-empty since a further full fragment exists *)
             inversion I2 as [|? ? (_ & Hne & _) _]; subst.
             cbn [map concat fr_md] in I1.
             destruct (dropN md sz) eqn:Ed; [|cbn; rewrite andb_false_r; reflexivity].
             exfalso. destruct (fr_md g); [congruence|discriminate].
  Qed.
End Budgets.

(* ---------- the whole fragment list ---------- *)
Section Whole.
  Variables first next : N.
  Hypothesis first_pos : 0 < first.
  Hypothesis next_pos : 0 < next.
  Notation bud := (budget first next).

  Definition full (g : frag) : Prop := lenN (fr_md g) + lenN (fr_d g) = bud (is_first g).
  Definition fits (g : frag) : Prop := lenN (fr_md g) + lenN (fr_d g) <= bud (is_first g).

  Record frags_spec (md d : bytes) (fs : list frag) : Prop := {
    fs_md : concat (map fr_md fs) = md;
    fs_d : concat (map fr_d fs) = d;
    fs_nonempty : fs <> [];
    fs_first : first_ok true fs;
    fs_last : last_ok true fs;
    fs_fits : Forall fits fs;
    fs_full : all_but_last full fs;
    fs_nonblank : (md = [] /\ d = []) \/ Forall (fun g => 0 < lenN (fr_md g) + lenN (fr_d g)) fs;
    (* all metadata precedes any data: a prefix without data, then a suffix whose tail has no metadata *)
    fs_md_first : exists a b, fs = a ++ b /\ Forall (fun g => fr_d g = []) a /\ Forall (fun g => fr_md g = []) (tl b)
  }.

  Theorem fragments_spec md d : frags_spec md d (fragments first next md d).
  Proof.
    unfold fragments.
    destruct (is_nil md && is_nil d) eqn:Eboth.
    - apply andb_true_iff in Eboth. destruct Eboth as [E1 E2]. apply is_nil_true in E1, E2. subst.
      constructor.
      + reflexivity.
      + reflexivity.
      + discriminate.
      + cbn. split; [reflexivity|constructor].
      + cbn. reflexivity.
      + constructor; [|constructor]. unfold fits, budget. cbn. lia.
      + exact I.
      + left. split; reflexivity.
      + exists [], [ {| is_first := true; is_last := true; fr_md := []; fr_d := [] |} ].
        split; [reflexivity|]. split; constructor.
    - destruct (md_phase (S (length md)) first next true md (is_nil d)) as [[mfs lm] fi] eqn:Em.
      pose proof (md_phase_spec first next first_pos next_pos (S (length md)) true md (is_nil d) mfs lm fi
                    (Nat.lt_succ_diag_r _) Em) as (M1 & M2 & M3 & M4 & M5 & M6).
      fold (bud fi). set (sz := bud fi) in *.
      set (expected := sz - lenN lm). assert (0 < expected) as Hexp by (unfold expected; lia).
      set (df := takeN d expected). set (rest := dropN d expected).
      assert (Forall (fun g => fr_d g = []) mfs) as Mnd by (eapply Forall_impl; [|exact M2]; intros g (H & _); exact H).
      assert (Forall fits mfs) as Mfits.
      { eapply Forall_impl; [|exact M2]. intros g (H1 & _ & H3). unfold fits. rewrite H1, H3. cbn. lia. }
      assert (Forall full mfs) as Mfull.
      { eapply Forall_impl; [|exact M2]. intros g (H1 & _ & H3). unfold full. rewrite H1, H3. cbn. lia. }
      pose proof (lenN_takeN_le d expected) as [Hdf _]. fold df in Hdf.
      assert (Forall (fun g => 0 < lenN (fr_md g) + lenN (fr_d g)) mfs) as Mnb.
      { eapply Forall_impl; [|exact M2]. intros g (_ & H2 & _). destruct (fr_md g); [congruence|]. rewrite lenN_cons. lia. }
      destruct (negb (is_nil lm) || negb (is_nil df)) eqn:Ey.
      + (* phase 2 yields *)
        set (mid := {| is_first := fi; is_last := is_nil rest; fr_md := lm; fr_d := df |}).
        assert (is_nil d = true -> lm <> []) as Hdz.
        { intros Hd Hl. apply is_nil_true in Hd. subst d lm. unfold df in Ey. destruct expected; cbn in Ey; discriminate. }
        assert (Forall (fun g => is_last g = false) mfs) as Mnl.
        { apply last_ok_false_all.
          destruct (is_nil d) eqn:Ed.
          - specialize (Hdz eq_refl). destruct lm; [congruence|]. exact M6.
          - exact M6. }
        assert (first_ok true (mfs ++ [mid])) as Hfirst1.
        { destruct mfs as [|g r]; cbn [app first_ok].
          - cbn in M4. subst fi. split; [reflexivity|constructor].
          - cbn [first_ok] in M5. destruct M5 as [Hg Hr]. split; [exact Hg|].
            apply Forall_app. split; [exact Hr|]. constructor; [|constructor]. cbn. rewrite M4. reflexivity. }
        assert (fits mid) as Hmidfits by (unfold fits; cbn; fold sz; unfold expected in Hdf; lia).
        assert (0 < lenN (fr_md mid) + lenN (fr_d mid)) as Hmidnb.
        { cbn. apply orb_true_iff in Ey. destruct Ey as [Ey|Ey]; apply negb_true_iff in Ey.
          - destruct lm; [discriminate|]. rewrite lenN_cons. lia.
          - destruct df; [discriminate|]. rewrite lenN_cons. lia. }
        destruct (is_nil rest) eqn:Er.
        * (* everything sent *)
          apply is_nil_true in Er. cbn [app].
          assert (df = d) as Hdfd by (rewrite <- (takeN_dropN d expected); fold df rest; rewrite Er, app_nil_r; reflexivity).
          constructor.
          -- rewrite map_app, concat_app. cbn. rewrite app_nil_r. exact M1.
          -- rewrite map_app, concat_app, (concat_d_nil mfs Mnd). cbn. rewrite app_nil_r. exact Hdfd.
          -- destruct mfs; discriminate.
          -- exact Hfirst1.
          -- apply last_ok_app; [discriminate|exact Mnl|]. cbn. reflexivity.
          -- apply Forall_app. split; [exact Mfits|]. constructor; [exact Hmidfits|constructor].
          -- apply all_but_last_app; [discriminate|exact Mfull|exact I].
          -- right. apply Forall_app. split; [exact Mnb|]. constructor; [exact Hmidnb|constructor].
          -- exists mfs, [mid]. split; [reflexivity|]. split; [exact Mnd|constructor].
        * (* data continues in phase 3 *)
          assert (rest <> []) as Hr by (intro X; rewrite X in Er; discriminate).
          pose proof (data_phase_spec first next first_pos next_pos (S (length rest)) rest Hr (Nat.lt_succ_diag_r _))
            as (D1 & D2 & D3 & D4 & D5).
          set (dfs := data_phase (S (length rest)) first next false rest) in *.
          assert (Forall (fun g => fr_md g = []) dfs) as Dnm by (eapply Forall_impl; [|exact D3]; intros g (H & _); exact H).
          assert (Forall (fun g => is_first g = false) dfs) as Dnf by (eapply Forall_impl; [|exact D3]; intros g (_ & H & _); exact H).
          assert (lenN df = expected) as Hfull by (apply dropN_nonempty_full; exact Hr).
          constructor.
          -- rewrite !map_app, !concat_app, (concat_md_nil dfs Dnm). cbn. rewrite !app_nil_r. exact M1.
          -- rewrite !map_app, !concat_app, (concat_d_nil mfs Mnd), D1. cbn. rewrite app_nil_r. apply takeN_dropN.
          -- destruct mfs; discriminate.
          -- rewrite app_assoc. destruct (mfs ++ [mid]) as [|g r] eqn:Eg; [destruct mfs; discriminate|].
             cbn [app first_ok] in *. destruct Hfirst1 as [Hg Hr']. split; [exact Hg|].
             apply Forall_app. split; assumption.
          -- apply last_ok_app; [discriminate|exact Mnl|]. cbn [app]. apply last_ok_cons; [exact D2|reflexivity|exact D4].
          -- apply Forall_app. split; [exact Mfits|]. constructor; [exact Hmidfits|].
             eapply Forall_impl; [|exact D3]. intros g (H1 & H2 & _ & H4). unfold fits. rewrite H1, H2. cbn. lia.
          -- apply all_but_last_app; [discriminate|exact Mfull|]. cbn [app].
             apply all_but_last_cons; [exact D2| |].
             ++ unfold full. cbn. fold sz. lia.
             ++ clear -D5 Dnm Dnf. induction dfs as [|g r IH]; [exact I|].
                inversion Dnm; inversion Dnf; subst. destruct r as [|h r']; [exact I|].
                cbn [all_but_last] in *. destruct D5 as [Hg Hr]. split; [|apply IH; assumption].
                unfold full. rewrite H1, H5, Hg. cbn. lia.
          -- right. apply Forall_app. split; [exact Mnb|]. constructor; [exact Hmidnb|].
             eapply Forall_impl; [|exact D3]. intros g (_ & _ & H3 & _). destruct (fr_d g); [congruence|]. rewrite lenN_cons. lia.
          -- exists mfs, (mid :: dfs). split; [reflexivity|]. split; [exact Mnd|exact Dnm].
      + (* phase 2 yields nothing: no metadata tail, no data *)
        apply orb_false_iff in Ey. destruct Ey as [E1 E2].
        apply negb_false_iff, is_nil_true in E1, E2. subst lm.
        assert (d = []) as Hd.
        { destruct d as [|x d']; [reflexivity|]. unfold df in E2. cbn [takeN] in E2.
          destruct (N.eqb_spec expected 0); [lia|discriminate]. }
        assert (md <> []) as Hmd.
        { intro X. rewrite X, Hd in Eboth. cbn in Eboth. discriminate. }
        rewrite Hd in *. rewrite app_nil_r in M1. cbn [is_nil andb] in M6.
        assert (mfs <> []) as Hne by (intro X; subst mfs; cbn in M1; congruence).
        constructor.
        * exact M1.
        * apply concat_d_nil. exact Mnd.
        * exact Hne.
        * exact M5.
        * exact M6.
        * exact Mfits.
        * apply Forall_all_but_last. exact Mfull.
        * right. exact Mnb.
        * exists mfs, []. split; [rewrite app_nil_r; reflexivity|]. split; [exact Mnd|constructor].
  Qed.

  (* a payload that fits the first budget is a single fragment *)
  Lemma all_but_last_two (P : frag -> Prop) g h r : all_but_last P (g :: h :: r) -> P g.
  Proof. cbn. intros [H _]. exact H. Qed.

  Theorem single_if_fits md d : lenN md + lenN d <= first -> exists g, fragments first next md d = [g].
  Proof.
    intro Hfit. pose proof (fragments_spec md d) as S.
    destruct (fragments first next md d) as [|g [|h r]] eqn:E.
    - exfalso. exact (fs_nonempty _ _ _ S eq_refl).
    - exists g. reflexivity.
    - exfalso.
      pose proof (all_but_last_two _ _ _ _ (fs_full _ _ _ S)) as Hfull.
      pose proof (fs_first _ _ _ S) as [Hg _]. unfold full in Hfull. rewrite Hg in Hfull. cbn in Hfull.
      pose proof (fs_md _ _ _ S) as Hm. pose proof (fs_d _ _ _ S) as Hd. cbn in Hm, Hd.
      (* the second fragment is non-empty: otherwise ... use total length *)
      assert (lenN md = lenN (fr_md g) + lenN (fr_md h) + lenN (concat (map fr_md r))) as Lm
        by (rewrite <- Hm, !lenN_app; lia).
      assert (lenN d = lenN (fr_d g) + lenN (fr_d h) + lenN (concat (map fr_d r))) as Ld
        by (rewrite <- Hd, !lenN_app; lia).
      destruct (fs_nonblank _ _ _ S) as [[-> ->]|Hnb].
      + cbn in Lm, Ld. destruct (is_first g); unfold budget in Hfull; cbn in Hfull; lia.
      + inversion Hnb as [|? ? _ Hnb']; subst. inversion Hnb' as [|? ? Hh _]; subst.
        unfold budget in Hfull. lia.
  Qed.
End Whole.

(* ---------- frame level ---------- *)
Definition freqn (f : frame) : N :=
  match f with FRequestStream _ _ _ n _ _ | FRequestChannel _ _ _ _ n _ _ => n | _ => 0 end.

Lemma gen_fragment_tables :
  fragmentable_ids = [FT_PAYLOAD; FT_REQUEST_RESPONSE; FT_REQUEST_CHANNEL; FT_REQUEST_STREAM; FT_REQUEST_FNF] /\
  frame_header_length_table = [(FT_PAYLOAD, 6); (FT_REQUEST_RESPONSE, 6); (FT_REQUEST_FNF, 6); (FT_REQUEST_STREAM, 10); (FT_REQUEST_CHANNEL, 10)] /\
  MINIMUM_FRAGMENT_SIZE_BYTES = 64.
Proof. repeat split; reflexivity. Qed.

(* the generated per-type header budget is exactly the length of the fixed part of the encoding *)
Lemma header_length_is_prefix f : is_fragmentable f = true -> header_length_of f = 6 + lenN (middle f).
Proof.
  destruct f; cbn [is_fragmentable ftype]; intro H; try discriminate H; cbn [middle];
    rewrite ?lenN_be, ?lenN_nil; reflexivity.
Qed.

Section MkFragment.
  Variable f : frame.
  Hypothesis Hfrag : is_fragmentable f = true.

  Lemma mk_fields isf l md d :
    let g := mk_fragment f isf l md d in
    fmd g = md /\ fdata g = d /\ fsid g = fsid f /\ fign g = fign f /\
    ffollows g = match l with Some false => true | _ => false end /\
    fcomplete g = match l with Some false => false | _ => fcomplete f end /\
    ftype g = (if isf then ftype f else FT_PAYLOAD) /\
    freqn g = (if isf then freqn f else 0) /\
    md_only g = false /\ is_fragmentable g = true /\
    lenN (middle g) = (if isf then header_length_of f - 6 else 0).
  Proof.
    destruct f; cbn [is_fragmentable ftype] in Hfrag; try discriminate Hfrag;
      destruct isf; cbn [mk_fragment fsid fign]; cbn; repeat split; destruct l as [[|]|]; reflexivity.
  Qed.
End MkFragment.

Lemma lenN_encode f : md_only f = false ->
  lenN (encode f) = 6 + lenN (middle f) + (if is_nil (fmd f) then 0 else 3) + lenN (fmd f) + lenN (fdata f).
Proof.
  intro H. rewrite <- frame_length_correct. unfold frame_length, body_data. rewrite H.
  destruct gen_masks as (_ & _ & ->). reflexivity.
Qed.

Section FrameLevel.
  Variable f : frame.
  Variable sz : N.
  Variable lenreq : bool.
  Hypothesis Hfrag : is_fragmentable f = true.
  Hypothesis Hsz : MINIMUM_FRAGMENT_SIZE_BYTES <= sz.

  Let first := sz - header_length_of f - (if lenreq then 3 else 0).
  Let next := sz - 6 - (if lenreq then 3 else 0).
  Let frs := frame_fragments f (Some sz) lenreq.
  Let fgs := fragments first next (fmd f) (fdata f).

  Lemma hdr_cases : header_length_of f = 6 \/ header_length_of f = 10.
  Proof. destruct f; cbn [is_fragmentable ftype] in Hfrag; try discriminate Hfrag; cbv; auto. Qed.

  Lemma budgets_pos : 0 < first /\ 0 < next.
  Proof.
    destruct gen_fragment_tables as (_ & _ & Hm). rewrite Hm in Hsz.
    unfold first, next. destruct hdr_cases as [-> | ->]; destruct lenreq; lia.
  Qed.

  Lemma frs_eq : frs = map (fun g => mk_fragment f (is_first g) (Some (is_last g)) (fr_md g) (fr_d g)) fgs.
  Proof. reflexivity. Qed.

  Let S := fragments_spec first next (proj1 budgets_pos) (proj2 budgets_pos) (fmd f) (fdata f).

  Theorem frame_content : concat (map fmd frs) = fmd f /\ concat (map fdata frs) = fdata f.
  Proof.
    rewrite frs_eq, !map_map. split.
    - rewrite <- (fs_md _ _ _ _ _ S). f_equal. apply map_ext. intro g.
      destruct (mk_fields f Hfrag (is_first g) (Some (is_last g)) (fr_md g) (fr_d g)) as (H & _). exact H.
    - rewrite <- (fs_d _ _ _ _ _ S). f_equal. apply map_ext. intro g.
      destruct (mk_fields f Hfrag (is_first g) (Some (is_last g)) (fr_md g) (fr_d g)) as (_ & H & _). exact H.
  Qed.

  (* every fragment: at most size + 3 on the wire, at most size when it carries no metadata (F2) *)
  Theorem frame_wire_bound : Forall (fun g => wire_len lenreq g <= sz + 3 /\ (fmd g = [] -> wire_len lenreq g <= sz)) frs.
  Proof.
    rewrite frs_eq. apply Forall_map. eapply Forall_impl; [|exact (fs_fits _ _ _ _ _ S)].
    intros g Hfit. unfold fits in Hfit.
    destruct (mk_fields f Hfrag (is_first g) (Some (is_last g)) (fr_md g) (fr_d g))
      as (H1 & H2 & _ & _ & _ & _ & _ & _ & H9 & _ & H11).
    unfold wire_len. rewrite lenN_encode by exact H9. rewrite H1, H2, H11.
    destruct gen_fragment_tables as (_ & _ & Hm). pose proof Hsz as Hsz'. rewrite Hm in Hsz'.
    unfold budget, first, next in Hfit. clear S.
    destruct hdr_cases as [Hh | Hh]; rewrite Hh in *; destruct (is_first g); destruct lenreq;
      destruct (fr_md g) eqn:Em; cbn [is_nil] in *; rewrite ?lenN_nil, ?lenN_cons in *; split; try lia; intro; try discriminate; lia.
  Qed.

  Theorem frame_shape :
    frs <> [] /\
    (forall g r, frs = g :: r ->
       ftype g = ftype f /\ freqn g = freqn f /\ Forall (fun h => ftype h = FT_PAYLOAD) r) /\
    Forall (fun g => fsid g = fsid f /\ fign g = fign f) frs /\
    (exists init l, frs = init ++ [l] /\ ffollows l = false /\ fcomplete l = fcomplete f /\
                    Forall (fun g => ffollows g = true /\ fcomplete g = false) init).
  Proof.
    rewrite frs_eq. pose proof (fs_nonempty _ _ _ _ _ S) as Hne. pose proof (fs_first _ _ _ _ _ S) as Hf.
    pose proof (fs_last _ _ _ _ _ S) as Hl. fold fgs in Hne, Hf, Hl |- *.
    split; [destruct fgs; [congruence|discriminate]|]. split; [|split].
    - intros g r E. destruct fgs as [|g0 r0]; [discriminate|]. cbn [map] in E. injection E as <- <-.
      cbn [first_ok] in Hf. destruct Hf as [Hg Hr].
      destruct (mk_fields f Hfrag (is_first g0) (Some (is_last g0)) (fr_md g0) (fr_d g0))
        as (_ & _ & _ & _ & _ & _ & H7 & H8 & _). rewrite Hg in *. split; [exact H7|]. split; [exact H8|].
      apply Forall_map. eapply Forall_impl; [|exact Hr]. intros h Hh.
      destruct (mk_fields f Hfrag (is_first h) (Some (is_last h)) (fr_md h) (fr_d h))
        as (_ & _ & _ & _ & _ & _ & H7' & _). rewrite Hh in *. exact H7'.
    - apply Forall_map. apply Forall_forall. intros g _.
      destruct (mk_fields f Hfrag (is_first g) (Some (is_last g)) (fr_md g) (fr_d g)) as (_ & _ & H3 & H4 & _).
      split; assumption.
    - clear Hf S. induction fgs as [|g r IH]; [congruence|].
      destruct r as [|h r'].
      + cbn [last_ok] in Hl. exists [], (mk_fragment f (is_first g) (Some (is_last g)) (fr_md g) (fr_d g)).
        split; [reflexivity|].
        destruct (mk_fields f Hfrag (is_first g) (Some (is_last g)) (fr_md g) (fr_d g)) as (_ & _ & _ & _ & H5 & H6 & _).
        rewrite Hl in *. split; [exact H5|]. split; [exact H6|constructor].
      + cbn [last_ok] in Hl. destruct Hl as [Hg Hr].
        destruct (IH ltac:(discriminate) Hr) as (init & l & E & A & B & C).
        exists (mk_fragment f (is_first g) (Some (is_last g)) (fr_md g) (fr_d g) :: init), l.
        split; [cbn [map app] in *; rewrite E; reflexivity|]. split; [exact A|]. split; [exact B|].
        constructor; [|exact C].
        destruct (mk_fields f Hfrag (is_first g) (Some (is_last g)) (fr_md g) (fr_d g)) as (_ & _ & _ & _ & H5 & H6 & _).
        rewrite Hg in *. split; assumption.
  Qed.

  (* all metadata precedes any data *)
  Theorem frame_metadata_first : exists a b, frs = a ++ b /\
    Forall (fun g => fdata g = []) a /\ Forall (fun g => fmd g = []) (tl b).
  Proof.
    destruct (fs_md_first _ _ _ _ _ S) as (a & b & E & A & B). fold fgs in E.
    rewrite frs_eq, E, map_app. eexists. eexists. split; [reflexivity|]. split.
    - apply Forall_map. eapply Forall_impl; [|exact A]. intros g Hg.
      destruct (mk_fields f Hfrag (is_first g) (Some (is_last g)) (fr_md g) (fr_d g)) as (_ & H2 & _). rewrite H2. exact Hg.
    - destruct b as [|b0 b']; [constructor|]. cbn [map tl] in *. apply Forall_map.
      eapply Forall_impl; [|exact B]. intros g Hg.
      destruct (mk_fields f Hfrag (is_first g) (Some (is_last g)) (fr_md g) (fr_d g)) as (H1 & _). rewrite H1. exact Hg.
  Qed.

  Theorem frame_single_if_fits : lenN (fmd f) + lenN (fdata f) <= first -> exists g, frs = [g].
  Proof.
    intro H. destruct (single_if_fits first next (proj1 budgets_pos) (proj2 budgets_pos) _ _ H) as (g & E).
    rewrite frs_eq. fold fgs in E. rewrite E. eexists. reflexivity.
  Qed.
End FrameLevel.

Theorem unfragmented_single f lenreq : exists g, frame_fragments f None lenreq = [g] /\
  fmd g = fmd f /\ fdata g = fdata f /\ ffollows g = false.
Proof.
  eexists. split; [reflexivity|]. destruct f; cbn; repeat split; reflexivity.
Qed.

(* ---------- reassembly ---------- *)
Definition frag_kind (f : frame) : bool := is_fragmentable f.

Lemma merge_fields cur x : is_fragmentable cur = true ->
  let m := merge cur x in
  ftype m = ftype cur /\ fsid m = fsid cur /\ fign m = fign cur /\ ffollows m = ffollows cur /\
  freqn m = freqn cur /\ fmd m = fmd cur ++ fmd x /\ fdata m = fdata cur ++ fdata x /\
  is_fragmentable m = true /\
  fcomplete m = (if (ftype cur =? FT_PAYLOAD) || (ftype cur =? FT_REQUEST_CHANNEL) then fcomplete x else false) /\
  fnext m = (if ftype cur =? FT_PAYLOAD then fnext x else false).
Proof.
  destruct cur; cbn [is_fragmentable ftype]; intro H; try discriminate H; cbn; repeat split; reflexivity.
Qed.

Lemma cache_single_get sid cur : cache_get [(sid, cur)] sid = Some cur.
Proof. cbn. rewrite N.eqb_refl. reflexivity. Qed.
Lemma cache_single_remove sid (cur : frame) : cache_remove [(sid, cur)] sid = [].
Proof. cbn. rewrite N.eqb_refl. reflexivity. Qed.

Lemma cache_feed_cons c g r :
  cache_feed c (g :: r) = let (c1, a) := cache_append c g in let (c2, rs) := cache_feed c1 r in (c2, a :: rs).
Proof. reflexivity. Qed.

(* feeding continuation fragments into a cache that holds the partially assembled frame *)
Lemma feed_tail sid : forall (gs : list frame) cur,
  gs <> [] -> fsid cur = sid -> is_fragmentable cur = true ->
  Forall (fun g => is_payload g = true /\ fsid g = sid) gs ->
  (exists init l, gs = init ++ [l] /\ ffollows l = false /\ Forall (fun g => ffollows g = true) init) ->
  cache_feed [(sid, cur)] gs = ([], map (fun _ => AAbsorbed) (removelast gs) ++ [AFrame (fold_left merge gs cur)]).
Proof.
  induction gs as [|g r IH]; intros cur Hne Hsid Hk Hall Hfl; [congruence|].
  inversion Hall as [|? ? [Hp Hs] Hall']; subst.
  destruct Hfl as (init & l & E & Hl & Hinit).
  destruct r as [|h r'].
  - (* last fragment *)
    destruct init as [|i0 init']; [|destruct init'; discriminate E]. cbn [app] in E. injection E as <-.
    rewrite cache_feed_cons. unfold cache_append. rewrite Hl. rewrite Hs, cache_single_get.
    unfold builder. rewrite Hs, cache_single_get, Hp. rewrite cache_single_remove. reflexivity.
  - destruct init as [|i0 init']; [discriminate E|]. cbn [app] in E. injection E as <- E'.
    inversion Hinit as [|? ? Hg Hinit']; subst.
    rewrite cache_feed_cons. unfold cache_append at 1. rewrite Hg.
    unfold builder. rewrite Hs, cache_single_get, Hp. unfold cache_set. rewrite cache_single_remove.
    destruct (merge_fields cur g Hk) as (_ & M2 & _ & _ & _ & _ & _ & M8 & _).
    rewrite (IH (merge cur g)); [reflexivity|discriminate|rewrite M2; reflexivity|exact M8|exact Hall'|].
    exists init', l. split; [exact E'|]. split; assumption.
Qed.

Lemma fold_merge_fields : forall gs cur, is_fragmentable cur = true ->
  let m := fold_left merge gs cur in
  ftype m = ftype cur /\ fsid m = fsid cur /\ fign m = fign cur /\ ffollows m = ffollows cur /\ freqn m = freqn cur /\
  fmd m = fmd cur ++ concat (map fmd gs) /\ fdata m = fdata cur ++ concat (map fdata gs) /\
  (gs <> [] -> fcomplete m = (if (ftype cur =? FT_PAYLOAD) || (ftype cur =? FT_REQUEST_CHANNEL)
                              then fcomplete (last gs cur) else false)).
Proof.
  induction gs as [|g r IH]; intros cur Hk; cbn [fold_left map concat].
  - rewrite !app_nil_r. repeat split; try reflexivity. congruence.
  - destruct (merge_fields cur g Hk) as (M1 & M2 & M3 & M4 & M5 & M6 & M7 & M8 & M9 & _).
    destruct (IH (merge cur g) M8) as (I1 & I2 & I3 & I4 & I5 & I6 & I7 & I8).
    rewrite I1, I2, I3, I4, I5, I6, I7, M1, M2, M3, M4, M5, M6, M7, <- !app_assoc.
    repeat split; try reflexivity. intros _.
    destruct r as [|h r'].
    + cbn [fold_left last]. exact M9.
    + rewrite I8 by discriminate. rewrite M1.
      replace (last (g :: h :: r') cur) with (last (h :: r') (merge cur g)); [reflexivity|].
      clear. revert h. induction r' as [|k r'' IHr]; intro h; [reflexivity|]. cbn [last] in *. apply IHr.
Qed.

Lemma removelast_map {A B} (g : A -> B) (l : list A) : removelast (map g l) = map g (removelast l).
Proof.
  induction l as [|a r IH]; [reflexivity|]. destruct r as [|b r']; [reflexivity|].
  cbn [map removelast] in *. rewrite IH. reflexivity.
Qed.

Section Reassembly.
  Variable f : frame.
  Variable sz : N.
  Variable lenreq : bool.
  Hypothesis Hfrag : is_fragmentable f = true.
  Hypothesis Hsz : MINIMUM_FRAGMENT_SIZE_BYTES <= sz.
  Let frs := frame_fragments f (Some sz) lenreq.

  Lemma norm_fields g : ftype (norm g) = ftype g /\ fsid (norm g) = fsid g /\ fign (norm g) = fign g /\
    ffollows (norm g) = ffollows g /\ freqn (norm g) = freqn g /\ fmd (norm g) = fmd g /\ fdata (norm g) = fdata g /\
    fcomplete (norm g) = fcomplete g /\ is_fragmentable (norm g) = is_fragmentable g /\ is_payload (norm g) = is_payload g.
  Proof. destruct g; cbn; repeat split; reflexivity. Qed.

  (* The receiver, fed the decoded fragments in order into an empty cache, absorbs all but the last and
     then returns one frame with the original type, stream id, request-n, complete flag, metadata and
     data; the cache is empty again. (The returned frame keeps FOLLOWS set when there was more than one
     fragment; nothing reads that flag.) *)
  Theorem reassembly :
    exists R, cache_feed [] (map norm frs) = ([], map (fun _ => AAbsorbed) (removelast frs) ++ [AFrame R]) /\
      ftype R = ftype f /\ fsid R = fsid f /\ fign R = fign f /\ freqn R = freqn f /\
      fmd R = fmd f /\ fdata R = fdata f /\ fcomplete R = fcomplete f.
  Proof.
    destruct (frame_shape f sz lenreq Hfrag Hsz) as (Hne & Hhd & Hall & (init & l & E & Hl & Hlc & Hinit)).
    destruct (frame_content f sz lenreq Hfrag Hsz) as (Cm & Cd).
    fold frs in Hne, Hhd, Hall, E, Cm, Cd.
    destruct frs as [|g r] eqn:Efrs; [congruence|].
    destruct (Hhd g r eq_refl) as (Ht & Hn & Hpay).
    inversion Hall as [|? ? [Hgs Hgi] Hall']; subst.
    assert (is_fragmentable g = true) as Hgk.
    { unfold is_fragmentable in *. rewrite Ht. exact Hfrag. }
    destruct (norm_fields g) as (N1 & N2 & N3 & N4 & N5 & N6 & N7 & N8 & N9 & N10).
    destruct r as [|h r'].
    - (* a single fragment *)
      destruct init as [|i0 init']; [|destruct init'; discriminate E]. cbn [app] in E. injection E as <-.
      exists (norm g). cbn [map removelast app]. rewrite cache_feed_cons. unfold cache_append. rewrite N4, Hl. cbn [cache_get cache_feed].
      cbn [map concat] in Cm, Cd. rewrite app_nil_r in Cm, Cd.
      split; [reflexivity|]. rewrite N1, N2, N3, N5, N6, N7, N8. repeat split; assumption.
    - destruct init as [|i0 init']; [discriminate E|]. cbn [app] in E. injection E as <- E'.
      inversion Hinit as [|? ? [Hgf Hgc] Hinit']; subst.
      set (gs := map norm (h :: r')).
      exists (fold_left merge gs (norm g)).
      assert (cache_feed [] (map norm (g :: h :: r')) =
              let (c2, rs) := cache_feed [(fsid f, norm g)] gs in (c2, AAbsorbed :: rs)) as ->.
      { cbn [map]. rewrite cache_feed_cons. unfold cache_append. rewrite N4, Hgf. unfold builder. cbn [cache_get]. rewrite N2, Hgs.
        unfold cache_set. cbn [cache_remove filter]. reflexivity. }
      rewrite (feed_tail (fsid f) gs (norm g)).
      + split.
        * unfold gs. rewrite removelast_map, map_map. reflexivity.
        * destruct (fold_merge_fields gs (norm g) ltac:(rewrite N9; exact Hgk)) as (F1 & F2 & F3 & F4 & F5 & F6 & F7 & F8).
          rewrite F1, F2, F3, F5, F6, F7, N1, N2, N3, N5, N6, N7.
          cbn [map concat] in Cm, Cd.
          assert (concat (map fmd gs) = concat (map fmd (h :: r'))) as -> .
          { unfold gs. rewrite map_map. f_equal. apply map_ext. intro x. destruct (norm_fields x) as (_ & _ & _ & _ & _ & H & _). exact H. }
          assert (concat (map fdata gs) = concat (map fdata (h :: r'))) as -> .
          { unfold gs. rewrite map_map. f_equal. apply map_ext. intro x. destruct (norm_fields x) as (_ & _ & _ & _ & _ & _ & H & _). exact H. }
          repeat split; try assumption.
          rewrite F8 by (unfold gs; discriminate). rewrite N1, Ht.
          (* the last fragment carries the complete flag of the frame *)
          assert (last gs (norm g) = norm l) as ->.
          { unfold gs. rewrite E'. rewrite map_app. cbn [map]. clear. induction (map norm init') as [|a q IH]; [reflexivity|].
            cbn [app last]. destruct (q ++ [norm l]) eqn:Eq; [destruct q; discriminate|]. exact IH. }
          destruct (norm_fields l) as (_ & _ & _ & _ & _ & _ & _ & Hc & _). rewrite Hc, Hlc.
          destruct f; cbn [is_fragmentable ftype] in Hfrag; try discriminate Hfrag; reflexivity.
      + unfold gs. discriminate.
      + rewrite N2. exact Hgs.
      + rewrite N9. exact Hgk.
      + unfold gs. apply Forall_map. 
        assert (Forall (fun x => ftype x = FT_PAYLOAD /\ fsid x = fsid f) (h :: r')) as Hpp.
        { apply Forall_forall. intros x Hx. split.
          - rewrite Forall_forall in Hpay. apply Hpay. exact Hx.
          - rewrite Forall_forall in Hall'. apply Hall'. exact Hx. }
        eapply Forall_impl; [|exact Hpp]. intros x [Hx1 Hx2].
        destruct (norm_fields x) as (_ & S2 & _ & _ & _ & _ & _ & _ & _ & S10). rewrite S10, S2. split; [|exact Hx2].
        destruct x; cbn in Hx1; try discriminate Hx1; reflexivity.
      + exists (map norm init'), (norm l). split; [unfold gs; rewrite E', map_app; reflexivity|].
        destruct (norm_fields l) as (_ & _ & _ & S4 & _). rewrite S4. split; [exact Hl|].
        apply Forall_map. eapply Forall_impl; [|exact Hinit']. intros x [Hx _].
        destruct (norm_fields x) as (_ & _ & _ & S4' & _). rewrite S4'. exact Hx.
  Qed.
End Reassembly.

(* F2 (known finding KF-C03-md-length-field): the bound "no longer than the configured size" is false
   of the code as it is: 58 bytes of metadata at size 64 without length prefix give a 67-byte frame *)
Definition f2_witness : frame := FPayload 1 false false false true (pat 3 0 58) [].
Lemma wire_bound_refuted :
  exists g, In g (frame_fragments f2_witness (Some 64) false) /\ 64 < wire_len false g.
Proof.
  exists (hd f2_witness (frame_fragments f2_witness (Some 64) false)). split; vm_compute; [left|]; reflexivity.
Qed.

(* non-vacuity: a frame that really is cut into several fragments *)
Example three_fragments :
  length (frame_fragments (FRequestStream 5 false false 7 (pat 3 0 60) (pat 9 0 100)) (Some 64) true) = 3%nat.
Proof. vm_compute. reflexivity. Qed.
