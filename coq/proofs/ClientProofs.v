From Coq Require Import Arith NArith List Bool Lia.
From RSV Require Import gen.GenConst model.Client.
Import ListNotations.
Open Scope N_scope.

Lemma client_first_id : CLIENT_FIRST_STREAM_ID = 1.
Proof. reflexivity. Qed.

(* every connection's wire: empty, or SETUP followed by request frames only *)
Definition wire_ok (w : list wtag) : Prop :=
  w = [] \/ exists r, w = WSetup :: r /\ Forall (fun t => t <> WSetup) r.

Definition ids_of (w : list wtag) : list N :=
  concat (map (fun t => match t with WReq s => [s] | WSetup => [] end) w).

(* ids on a connection are 1, 3, 5, ... up to last_id *)
Fixpoint odd_run (n : nat) (from : N) : list N :=
  match n with O => [] | S k => from :: odd_run k (from + 2) end.

Record Inv (s : cl) : Prop := {
  i_wire : wire_ok (wire s);
  i_hist : Forall (fun p => wire_ok (snd p)) (history s);
  i_conn0 : conn s = 0%nat -> wire s = [] /\ connected s = false /\ pending s = [] /\ history s = [];
  i_alive_wire : connected s = true -> alive s = true -> exists r, wire s = WSetup :: r;
  i_pending_conn : connected s = false -> conn s <> 0%nat -> True
}.

Lemma wire_ok_snoc w sid : wire_ok w -> w <> [] -> wire_ok (w ++ [WReq sid]).
Proof.
  intros [->|(r & -> & Hr)] Hne; [congruence|]. right. exists (r ++ [WReq sid]). split; [reflexivity|].
  apply Forall_app. split; [exact Hr|]. constructor; [discriminate|constructor].
Qed.

Lemma inv_open s idx : Inv s -> idx <> 0%nat -> Inv (open_connection true s idx).
Proof.
  intros H Hi. constructor; cbn.
  - right. exists []. split; [reflexivity|constructor].
  - apply (i_hist s H).
  - intro E. congruence.
  - intros _ _. exists []. reflexivity.
  - auto.
Qed.

Lemma inv_closed s : Inv s -> Inv (connection_closed s).
Proof.
  intro H. constructor; cbn.
  - apply (i_wire s H).
  - apply (i_hist s H).
  - intro E. destruct (i_conn0 s H E) as (A & B & C & D). auto.
  - discriminate.
  - auto.
Qed.

Lemma inv_reconnect s : Inv s -> conn s <> 0%nat -> Inv (do_reconnect true s).
Proof.
  intros H Hc. unfold do_reconnect.
  set (s1 := if connected s then connection_closed s else _).
  assert (Inv s1 /\ conn s1 = conn s /\ wire s1 = wire s /\ history s1 = history s) as (H1 & E1 & E2 & E3).
  { unfold s1. destruct (connected s) eqn:Ec.
    - split; [apply inv_closed; exact H|]. repeat split.
    - split; [|repeat split]. constructor; cbn.
      + apply (i_wire s H).
      + apply (i_hist s H).
      + intro E. congruence.
      + discriminate.
      + auto. }
  apply inv_open; [|lia]. constructor; cbn.
  - left. reflexivity.
  - apply Forall_app. split; [apply (i_hist s1 H1)|]. constructor; [cbn; apply (i_wire s1 H1)|constructor].
  - intro E. congruence.
  - discriminate.
  - auto.
Qed.

Lemma inv_step p s a : Inv s -> Inv (cstep true p s a).
Proof.
  intro H. destruct a; cbn [cstep].
  - destruct (Nat.eqb_spec (conn s) 0); [apply inv_open; [exact H|discriminate]|exact H].
  - destruct (Nat.eqb_spec (conn s) 0) as [|Hc]; [exact H|]. constructor; cbn.
    + destruct (connected s && alive s) eqn:E; [|apply (i_wire s H)].
      apply andb_true_iff in E. destruct E as [E1 E2]. destruct (i_alive_wire s H E1 E2) as (r & Er).
      apply wire_ok_snoc; [apply (i_wire s H)|rewrite Er; discriminate].
    + apply (i_hist s H).
    + intro E. congruence.
    + intros E1 E2. rewrite E1, E2. cbn. destruct (i_alive_wire s H E1 E2) as (r & ->). eexists. reflexivity.
    + auto.
  - destruct (_ && _ && _)%bool; [|exact H]. constructor; cbn.
    + apply (i_wire s H).
    + apply (i_hist s H).
    + intro E. destruct (i_conn0 s H E) as (A & B & C & D). rewrite C. auto.
    + apply (i_alive_wire s H).
    + auto.
  - destruct (connected s) eqn:Ec; [|exact H].
    assert (conn s <> 0%nat) as Hc by (intro E; destruct (i_conn0 s H E) as (_ & B & _); congruence).
    destruct (reconnect_on_close p); [apply inv_reconnect; [apply inv_closed; exact H|exact Hc]|apply inv_closed; exact H].
  - destruct (connected s && alive s) eqn:E; [|exact H].
    apply andb_true_iff in E. destruct E as [E1 E2].
    assert (conn s <> 0%nat) as Hc by (intro E; destruct (i_conn0 s H E) as (_ & B & _); congruence).
    set (s1 := {| conn := conn s; connected := connected s; alive := false; last_id := last_id s; pending := pending s;
                  wire := wire s; history := history s; closed := closed s; failed := failed s;
                  on_close_calls := on_close_calls s; timeout_calls := S (timeout_calls s); probes := probes s |}).
    assert (Inv s1) as H1.
    { constructor; cbn; try apply H; auto; try discriminate. }
    destruct (reconnect_on_timeout p); [apply inv_reconnect; [exact H1|exact Hc]|exact H1].
  - destruct (Nat.eqb_spec (conn s) 0) as [|Hc]; [exact H|]. apply inv_reconnect; assumption.
  - destruct (connected s && alive s); [|exact H]. constructor; cbn; apply H.
Qed.

Lemma inv_init : Inv cl_init.
Proof. constructor; cbn; auto. left; reflexivity. discriminate. Qed.

Lemma inv_run p : forall acts s, Inv s -> Inv (fold_left (cstep true p) acts s).
Proof. induction acts as [|a r IH]; intros s H; [exact H|]. cbn. apply IH. apply inv_step. exact H. Qed.

(* C17 / C16: on every transport the client ever used, SETUP is the first frame and is written once *)
Theorem setup_first_every_connection p acts :
  let s := crun_client true p acts in
  wire_ok (wire s) /\ Forall (fun c => wire_ok (snd c)) (history s).
Proof. cbv zeta. pose proof (inv_run p acts cl_init inv_init) as H. split; [apply H|apply H]. Qed.

(* a reconnect, whatever state it finds, yields a fresh working connection *)
Theorem reconnect_fresh s : conn s <> 0%nat ->
  let s' := do_reconnect true s in
  conn s' = S (conn s) /\ connected s' = true /\ alive s' = true /\ wire s' = [WSetup] /\ pending s' = [] /\
  last_id s' = 0 /\ closed s' = closed s ++ [(conn s - 1)%nat] /\
  failed s' = failed s ++ map (fun sid => ((conn s - 1)%nat, sid)) (pending s) /\
  on_close_calls s' = (if connected s then S (on_close_calls s) else on_close_calls s).
Proof.
  intro Hc. unfold do_reconnect. destruct (connected s); cbn; repeat split; reflexivity.
Qed.

(* ... and a request issued afterwards gets stream id 1 and is written right after SETUP *)
Theorem served_after_reconnect p s : conn s <> 0%nat ->
  let s' := cstep true p (do_reconnect true s) AReq in
  wire s' = [WSetup; WReq 1] /\ pending s' = [1].
Proof.
  intro Hc. unfold do_reconnect. destruct (connected s); cbn; split; reflexivity.
Qed.

(* each of the causes named in the property leads (under a handler that asks for it) to that reconnect *)
Theorem causes_reconnect s :
  connected s = true -> conn s <> 0%nat ->
  cstep true {| reconnect_on_close := true; reconnect_on_timeout := true |} s ALoss = do_reconnect true (connection_closed s) /\
  (alive s = true ->
   exists s1, cstep true {| reconnect_on_close := true; reconnect_on_timeout := true |} s AKaTimeout = do_reconnect true s1 /\
              alive s1 = false /\ pending s1 = pending s /\ conn s1 = conn s /\ connected s1 = true) /\
  cstep true {| reconnect_on_close := true; reconnect_on_timeout := true |} s AReconnect = do_reconnect true s.
Proof.
  intros Hco Hc. cbn [cstep reconnect_on_close reconnect_on_timeout]. rewrite Hco. split; [reflexivity|]. split.
  - intros Ha. rewrite Ha. cbn [andb]. eexists. split; [reflexivity|]. cbn. repeat split.
  - destruct (Nat.eqb_spec (conn s) 0); [congruence|reflexivity].
Qed.

(* no request is ever failed twice *)
(* the defect repaired by fix ddd04f9 (F8): without the liveness reset, a reconnect after a keepalive timeout
   gives a connection on which nothing is written, not even SETUP *)
Lemma no_reset_refuted :
  wire (crun_client false {| reconnect_on_close := false; reconnect_on_timeout := true |} [AConnect; AKaTimeout; AReq]) = [].
Proof. reflexivity. Qed.

Example reconnect_example :
  let s := crun_client true {| reconnect_on_close := true; reconnect_on_timeout := true |}
             [AConnect; AReq; AReq; ALoss; AReq; AKaTimeout; AReq] in
  conn s = 3%nat /\ wire s = [WSetup; WReq 1] /\ failed s = [(0%nat, 1); (0%nat, 3); (1%nat, 1)] /\ closed s = [0%nat; 1%nat].
Proof. cbv. repeat split; reflexivity. Qed.
