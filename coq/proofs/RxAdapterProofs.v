From Coq Require Import Arith NArith List Bool Lia String.
From RSV Require Import gen.GenAdapters model.RxAdapter.
Import ListNotations.
Open Scope N_scope.
Open Scope list_scope.

(* ---------- transparency: the observer sees exactly the subscriber's events, in order ---------- *)
Lemma rx_step_events limit s i : snd (fst (rx_step limit s i)) = events_of [i].
Proof.
  unfold rx_step, events_of. cbn [flat_map]. rewrite app_nil_r.
  destruct i; cbn [fst snd]; try reflexivity.
  - destruct complete; [reflexivity|]. destruct (_ =? limit); reflexivity.
  - destruct (want_more s); reflexivity.
Qed.

Lemma events_of_cons i r : events_of (i :: r) = events_of [i] ++ events_of r.
Proof. unfold events_of. cbn [flat_map]. rewrite app_nil_r. reflexivity. Qed.

Theorem rx_transparent limit : forall is s, snd (fst (rx_run limit s is)) = events_of is.
Proof.
  induction is as [|i r IH]; intro s; [reflexivity|]. cbn [rx_run].
  pose proof (rx_step_events limit s i) as H. destruct (rx_step limit s i) as [[s1 o1] q1]. cbn [fst snd] in H.
  specialize (IH s1). destruct (rx_run limit s1 r) as [[s2 o2] q2]. cbn [fst snd] in *.
  rewrite events_of_cons. congruence.
Qed.

Theorem hs_transparent limit : forall is g, snd (fst (hs_run limit g is)) = events_of is.
Proof.
  induction is as [|i r IH]; intro g; [reflexivity|]. cbn [hs_run].
  assert (snd (fst (hs_step limit g i)) = events_of [i]) as H.
  { unfold hs_step, events_of. cbn [flat_map]. rewrite app_nil_r. destruct i; cbn [fst snd]; try reflexivity.
    destruct complete; [reflexivity|]. destruct (_ =? limit); reflexivity. }
  destruct (hs_step limit g i) as [[g1 o1] q1]. cbn [fst snd] in H.
  specialize (IH g1). destruct (hs_run limit g1 r) as [[g2 o2] q2]. cbn [fst snd] in *.
  rewrite events_of_cons. congruence.
Qed.

(* ---------- request batching ---------- *)
(* every amount requested is exactly the limit *)
Theorem rx_requests_are_limit limit : forall is s, Forall (fun n => n = limit) (snd (rx_run limit s is)).
Proof.
  induction is as [|i r IH]; intro s; [constructor|]. cbn [rx_run].
  assert (Forall (fun n => n = limit) (snd (rx_step limit s i))) as H.
  { unfold rx_step. destruct i; cbn [snd]; try constructor.
    - destruct complete; [constructor|]. destruct (_ =? limit); constructor.
    - destruct (want_more s); repeat constructor. }
  destruct (rx_step limit s i) as [[s1 o1] q1]. specialize (IH s1). destruct (rx_run limit s1 r) as [[s2 o2] q2].
  cbn [snd] in *. apply Forall_app. split; assumption.
Qed.

(* credit accounting: [limit] was requested with the stream request itself; the sum of everything requested so far never
   exceeds the elements received plus one limit — the adapter never has more than [limit] elements outstanding *)
Definition sumN (l : list N) : N := fold_right N.add 0 l.
Lemma sumN_app a b : sumN (a ++ b) = sumN a + sumN b.
Proof. induction a as [|x a IH]; cbn [app sumN fold_right]; [reflexivity|]. fold (sumN (a ++ b)). fold (sumN a). rewrite IH. lia. Qed.

Definition pend (limit : N) (s : rxs) : N := if want_more s then limit else 0.

Lemma rx_step_finished limit s i : finished s = true -> finished (fst (fst (rx_step limit s i))) = true.
Proof.
  intro Hf. unfold rx_step. destruct i; cbn [fst finished]; try reflexivity.
  - destruct complete; [reflexivity|]. destruct (_ =? limit); exact Hf.
  - destruct (want_more s); exact Hf.
Qed.

Lemma rx_run_finished limit : forall is s, finished s = true -> finished (fst (fst (rx_run limit s is))) = true.
Proof.
  induction is as [|i r IH]; intros s Hf; [exact Hf|]. cbn [rx_run].
  pose proof (rx_step_finished limit s i Hf) as H1. destruct (rx_step limit s i) as [[s1 o1] q1]. cbn [fst] in H1.
  specialize (IH s1 H1). destruct (rx_run limit s1 r) as [[s2 o2] q2]. exact IH.
Qed.

(* until the stream terminates: what was requested after the initial [limit], plus a request still pending, plus the
   elements counted towards the next batch, never exceeds the elements received: at most [limit] are ever outstanding *)
Theorem rx_credit_bound limit : 0 < limit -> forall is s, got s < limit ->
  let s' := fst (fst (rx_run limit s is)) in let qs := snd (rx_run limit s is) in
  finished s' = true \/
  (got s' < limit /\ sumN qs + pend limit s' + got s' <= elements is + pend limit s + got s).
Proof.
  intros Hl. induction is as [|i r IH]; intros s Hg; cbn [rx_run].
  - right. cbn. lia.
  - destruct (rx_step limit s i) as [[s1 o1] q1] eqn:Es.
    assert (finished s1 = true \/
            (got s1 < limit /\ sumN q1 + pend limit s1 + got s1 <= (match i with SNext _ _ => 1 | _ => 0 end) + pend limit s + got s)) as H1.
    { unfold rx_step in Es. unfold pend. destruct i.
      - destruct complete; [injection Es as <- _ _; left; reflexivity|].
        destruct (N.eqb_spec (got s + 1) limit) as [El|Hne]; injection Es as <- _ <-; right; cbn [got want_more sumN fold_right];
          destruct (want_more s); split; lia.
      - injection Es as <- _ _. left. reflexivity.
      - injection Es as <- _ _. left. reflexivity.
      - destruct (want_more s) eqn:Ew; injection Es as <- _ <-; right; cbn [got want_more sumN fold_right]; rewrite ?Ew; split; lia. }
    destruct H1 as [Hf|[Hg1 Hle]].
    + left. pose proof (rx_run_finished limit r s1 Hf) as H. destruct (rx_run limit s1 r) as [[s2 o2] q2]. exact H.
    + specialize (IH s1 Hg1). destruct (rx_run limit s1 r) as [[s2 o2] q2]. cbn [fst snd] in *.
      destruct IH as [I|[I1 I2]]; [left; exact I|right]. split; [exact I1|]. rewrite sumN_app.
      assert (elements (i :: r) = (match i with SNext _ _ => 1 | _ => 0 end) + elements r) as ->
        by (destruct i; cbn [elements fold_right]; fold (elements r); lia).
      lia.
Qed.

(* from the start of a subscription (nothing received, no request pending): requested afterwards <= received, i.e. with
   the initial [limit] of the stream request, total requested <= received + limit *)
Corollary rx_outstanding_at_most_limit limit is : 0 < limit ->
  finished (fst (fst (rx_run limit rxs_init is))) = true \/ sumN (snd (rx_run limit rxs_init is)) <= elements is.
Proof.
  intro Hl. destruct (rx_credit_bound limit Hl is rxs_init Hl) as [H|[_ H]]; [left; exact H|right].
  unfold pend in H. cbn [rxs_init want_more got] in H. destruct (want_more _); lia.
Qed.

(* ---------- delegation: every RequestHandler method is handed to the delegate's method of the same name ---------- *)
Definition delegates_all (table : list (string * string)) : bool :=
  forallb (fun m => match find (fun p => String.eqb (fst p) m) table with
                    | Some (_, target) => String.eqb target (String.append "self.delegate." m)
                    | None => false
                    end) handler_methods.

Theorem adapters_delegate_everything : delegates_all reactivex_adapter = true /\ delegates_all rx_adapter = true.
Proof. split; vm_compute; reflexivity. Qed.

Example batching_example :
  rx_run 2 rxs_init [SNext 1 false; SNext 2 false; STask; SNext 3 false; SNext 4 true]
  = ({| got := 2; want_more := false; finished := true |}, [ONext 1; ONext 2; ONext 3; ONext 4; OCompleted], [2]).
Proof. vm_compute. reflexivity. Qed.
