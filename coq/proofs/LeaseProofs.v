From Coq Require Import ZArith NArith List Bool Lia ZifyBool Init.Byte.
From RSV Require Import gen.GenConst lib.Bytes model.Frame model.Setup model.Lease proofs.FrameProofs proofs.SetupProofs.
Import ListNotations.
Open Scope Z_scope.

(* a lease that will never again allow a request: expired, or exhausted *)
Definition dead (l : lease) (t : Z) : Prop := lcreated l + lttl l <= t \/ ln l <= lcount l.

Lemma dead_not_allowed l t t' : dead l t -> t <= t' -> fst (allowed l t') = false /\ dead (snd (allowed l t')) t'.
Proof.
  intros [H|H] Ht; unfold allowed.
  - destruct (Z.leb_spec (lcreated l + lttl l) t') as [_|Hgt]; [|lia]. cbn. split; [reflexivity|left; lia].
  - destruct (Z.leb_spec (lcreated l + lttl l) t') as [He|_]; cbn [fst snd].
    + split; [reflexivity|left; exact He].
    + split.
      * destruct (Z.ltb_spec (ln l) (lcount l + 1)); [reflexivity|lia].
      * right. cbn. lia.
Qed.

Lemma not_allowed_dead l t : fst (allowed l t) = false -> dead (snd (allowed l t)) t.
Proof.
  unfold allowed. destruct (Z.leb_spec (lcreated l + lttl l) t) as [He|_]; cbn [fst snd].
  - intros _. left. exact He.
  - destruct (Z.ltb_spec (ln l) (lcount l + 1)) as [Hl|]; cbn; [|discriminate]. intros _. right. cbn. lia.
Qed.

Lemma allowed_valid l t : fst (allowed l t) = true -> t < lcreated l + lttl l /\ lcount l + 1 <= ln l.
Proof.
  unfold allowed. destruct (Z.leb_spec (lcreated l + lttl l) t) as [|Hv]; cbn [fst]; [discriminate|].
  destruct (Z.ltb_spec (ln l) (lcount l + 1)); cbn; [discriminate|]. intros _. lia.
Qed.

(* remaining capacity of a lease *)
Definition remaining (l : lease) : Z := Z.max 0 (ln l - lcount l).

Lemma allowed_remaining l t : remaining (snd (allowed l t)) + (if fst (allowed l t) then 1 else 0) <= remaining l.
Proof.
  unfold allowed, remaining. destruct (Z.leb_spec (lcreated l + lttl l) t); cbn [fst snd]; [lia|].
  destruct (Z.ltb_spec (ln l) (lcount l + 1)); cbn; lia.
Qed.

Lemma allowed_same_params l t :
  ln (snd (allowed l t)) = ln l /\ lttl (snd (allowed l t)) = lttl l /\ lcreated (snd (allowed l t)) = lcreated l.
Proof. unfold allowed. destruct (_ <=? _); cbn; auto. Qed.

(* ---------- the drain loop ---------- *)
Lemma drain_spec : forall q l now s q' l', drain q l now = (s, q', l') ->
  s ++ q' = q /\
  Z.of_nat (length s) + remaining l' <= remaining l /\
  (s <> [] -> now < lcreated l + lttl l) /\
  (q' <> [] -> dead l' now) /\
  lcreated l' = lcreated l /\ lttl l' = lttl l /\ ln l' = ln l.
Proof.
  induction q as [|id r IH]; intros l now s q' l' E; cbn [drain] in E.
  - injection E as <- <- <-. split; [reflexivity|]. split; [cbn; lia|]. split; [congruence|]. split; [congruence|]. auto.
  - destruct (allowed l now) as [ok l1] eqn:Ea.
    pose proof (allowed_remaining l now) as Hr. pose proof (allowed_same_params l now) as (P1 & P2 & P3).
    rewrite Ea in Hr, P1, P2, P3. cbn [fst snd] in *.
    destruct ok.
    + destruct (drain r l1 now) as [[s1 q1] l2] eqn:Ed. injection E as <- <- <-.
      destruct (IH l1 now s1 q1 l2 Ed) as (I1 & I2 & I3 & I4 & I5 & I6 & I7).
      assert (fst (allowed l now) = true) as Hok by (rewrite Ea; reflexivity).
      destruct (allowed_valid l now Hok) as [Hv _].
      split; [cbn [app]; rewrite I1; reflexivity|]. split; [cbn [length]; lia|]. split; [intros _; exact Hv|].
      split; [exact I4|]. split; [congruence|]. split; congruence.
    + injection E as <- <- <-.
      split; [reflexivity|]. split; [cbn [length]; lia|]. split; [congruence|]. split; [|split; [|split]]; try assumption.
      intros _. assert (fst (allowed l now) = false) as Hno by (rewrite Ea; reflexivity).
      pose proof (not_allowed_dead l now Hno) as Hd. rewrite Ea in Hd. exact Hd.
Qed.

(* ---------- invariant: a non-empty queue means the current lease is dead ---------- *)
Definition J (s : rq) (t : Z) : Prop := queue s <> [] -> dead (cur s) t.

Lemma J_mono s t t' : J s t -> t <= t' -> J s t'.
Proof. intros H Ht Hq. destruct (H Hq) as [D|D]; [left; lia|right; exact D]. Qed.

Definition req_ids (evs : list lev) : list N :=
  concat (map (fun e => match e with EReq id _ => [id] | _ => [] end) evs).

Lemma lstep_order s e :
  J s (lev_time e) -> J (lstep s e) (lev_time e) /\ qmax (lstep s e) = qmax s.
Proof.
  intro H. split.
  - destruct e as [id now|n ttl now]; cbn [lev_time lstep] in *.
    + destruct (allowed (cur s) now) as [ok l'] eqn:Ea. destruct ok.
      * intro Hq. cbn [queue] in Hq. exfalso.
        destruct (dead_not_allowed (cur s) now now (H Hq) (Z.le_refl _)) as [Hf _]. rewrite Ea in Hf. discriminate.
      * assert (dead l' now) as Hd.
        { assert (fst (allowed (cur s) now) = false) as Hno by (rewrite Ea; reflexivity).
          pose proof (not_allowed_dead _ _ Hno) as X. rewrite Ea in X. exact X. }
        destruct (_ && _)%bool; intros _; exact Hd.
    + destruct (drain (queue s) _ now) as [[snt q'] l'] eqn:Ed.
      destruct (drain_spec _ _ _ _ _ _ Ed) as (_ & _ & _ & D & _). intro Hq. cbn [queue cur] in *. apply D. exact Hq.
  - destruct e as [id now|n ttl now]; cbn [lstep].
    + destruct (allowed (cur s) now) as [ok l']. destruct ok; [reflexivity|]. destruct (_ && _)%bool; reflexivity.
    + destruct (drain (queue s) _ now) as [[snt q'] l']. reflexivity.
Qed.

(* one step keeps arrival order: nothing overtakes, nothing is duplicated, only a refused request disappears *)
Lemma lstep_fifo s e : J s (lev_time e) ->
  match e with
  | EReq id _ => sent (lstep s e) ++ queue (lstep s e) = sent s ++ queue s ++ [id] /\ refused (lstep s e) = refused s
                 \/ sent (lstep s e) ++ queue (lstep s e) = sent s ++ queue s /\ refused (lstep s e) = refused s ++ [id]
                    /\ (0 < qmax s <= length (queue s))%nat
  | ELease _ _ _ => sent (lstep s e) ++ queue (lstep s e) = sent s ++ queue s /\ refused (lstep s e) = refused s
  end.
Proof.
  intro HJ. destruct e as [id now|n ttl now]; cbn [lev_time lstep] in *.
  - destruct (allowed (cur s) now) as [ok l'] eqn:Ea. destruct ok.
    + left. cbn [sent queue refused]. split; [|reflexivity].
      destruct (queue s) as [|x q] eqn:Eq; [rewrite app_nil_r; reflexivity|]. exfalso.
      assert (queue s <> []) as Hq by (rewrite Eq; discriminate).
      destruct (dead_not_allowed (cur s) now now (HJ Hq) (Z.le_refl _)) as [Hf _]. rewrite Ea in Hf. discriminate.
    + destruct (negb (Nat.eqb (qmax s) 0) && Nat.leb (qmax s) (length (queue s)))%bool eqn:Eb.
      * right. cbn [sent queue refused]. split; [reflexivity|]. split; [reflexivity|].
        apply andb_true_iff in Eb. destruct Eb as [E1 E2]. apply negb_true_iff, Nat.eqb_neq in E1. apply Nat.leb_le in E2. lia.
      * left. cbn [sent queue refused]. split; [rewrite app_assoc; reflexivity|reflexivity].
  - destruct (drain (queue s) _ now) as [[snt q'] l'] eqn:Ed.
    destruct (drain_spec _ _ _ _ _ _ Ed) as (D1 & _). cbn [sent queue refused]. split; [|reflexivity].
    rewrite <- app_assoc, D1. reflexivity.
Qed.

Fixpoint sorted_from (t : Z) (evs : list lev) : Prop :=
  match evs with [] => True | e :: r => t <= lev_time e /\ sorted_from (lev_time e) r end.

(* every history (times non-decreasing): with an unbounded queue, sent ++ queue is exactly the arrival order *)
Theorem fifo_unbounded : forall evs s t, qmax s = 0%nat -> J s t -> sorted_from t evs ->
  let s' := fold_left lstep evs s in
  sent s' ++ queue s' = sent s ++ queue s ++ req_ids evs /\ refused s' = refused s.
Proof.
  induction evs as [|e r IH]; intros s t Hq HJ Hs; cbn [fold_left req_ids map concat].
  - rewrite app_nil_r. split; reflexivity.
  - destruct Hs as [Ht Hs].
    pose proof (J_mono s t (lev_time e) HJ Ht) as HJ'.
    destruct (lstep_order s e HJ') as (HJ2 & Hqm).
    pose proof (lstep_fifo s e HJ') as F.
    assert (qmax (lstep s e) = 0%nat) as Hq2 by congruence.
    destruct (IH (lstep s e) (lev_time e) Hq2 HJ2 Hs) as (I1 & I2). cbv zeta in *.
    rewrite I1, I2. fold (req_ids r).
    destruct e as [id now|n ttl now].
    + destruct F as [[F1 F2]|[_ [_ F3]]]; [|lia]. rewrite app_assoc, F1, F2. rewrite <- !app_assoc. cbn [app]. split; reflexivity.
    + destruct F as [F1 F2]. rewrite app_assoc, F1, F2. rewrite <- app_assoc. cbn [app]. split; reflexivity.
Qed.

(* any queue bound: what was sent or is still queued is an order-preserving sublist of the arrivals *)
Inductive sublist {A} : list A -> list A -> Prop :=
| sub_nil : sublist [] []
| sub_skip x a b : sublist a b -> sublist a (x :: b)
| sub_keep x a b : sublist a b -> sublist (x :: a) (x :: b).

Lemma sublist_refl {A} (l : list A) : sublist l l.
Proof. induction l; constructor; assumption. Qed.
Lemma sublist_nil_l {A} (l : list A) : sublist [] l.
Proof. induction l; constructor; assumption. Qed.

Theorem fifo_bounded : forall evs s t, J s t -> sorted_from t evs ->
  let s' := fold_left lstep evs s in
  exists kept, sent s' ++ queue s' = sent s ++ queue s ++ kept /\ sublist kept (req_ids evs).
Proof.
  induction evs as [|e r IH]; intros s t HJ Hs; cbn [fold_left req_ids map concat].
  - exists []. rewrite app_nil_r. split; [reflexivity|constructor].
  - destruct Hs as [Ht Hs].
    pose proof (J_mono s t (lev_time e) HJ Ht) as HJ'.
    destruct (lstep_order s e HJ') as (HJ2 & _).
    pose proof (lstep_fifo s e HJ') as F.
    destruct (IH (lstep s e) (lev_time e) HJ2 Hs) as (kept & I1 & I2). cbv zeta in *. fold (req_ids r).
    destruct e as [id now|n ttl now].
    + destruct F as [[F1 _]|[F1 _]].
      * exists (id :: kept). split.
        -- rewrite I1, app_assoc, F1. rewrite <- !app_assoc. reflexivity.
        -- cbn [app]. apply sub_keep. exact I2.
      * exists kept. split; [rewrite I1, app_assoc, F1, <- app_assoc; reflexivity|]. cbn [app]. apply sub_skip. exact I2.
    + destruct F as [F1 _]. exists kept. split; [rewrite I1, app_assoc, F1, <- app_assoc; reflexivity|exact I2].
Qed.

(* ---------- no request before the first LEASE ---------- *)
Definition no_lease (evs : list lev) : Prop := Forall (fun e => match e with EReq _ _ => True | _ => False end) evs.

Lemma init_dead t0 qm t : dead (cur (rq_init t0 qm)) t.
Proof. right. cbn. lia. Qed.

Theorem none_before_first_lease : forall evs s, no_lease evs -> (forall t, dead (cur s) t) ->
  sent (fold_left lstep evs s) = sent s.
Proof.
  induction evs as [|e r IH]; intros s Hn Hd; [reflexivity|].
  inversion Hn as [|? ? He Hn']; subst. destruct e as [id now|]; [|destruct He]. cbn [fold_left].
  destruct (dead_not_allowed (cur s) now now (Hd now) (Z.le_refl _)) as [Hf Hd'].
  assert (sent (lstep s (EReq id now)) = sent s /\ forall t, dead (cur (lstep s (EReq id now))) t) as [E1 E2].
  { cbn [lstep]. destruct (allowed (cur s) now) as [ok l'] eqn:Ea. cbn [fst snd] in *. subst ok.
    assert (forall t, dead l' t) as Hall.
    { intro t. destruct (Hd t) as [D|D].
      - pose proof (allowed_same_params (cur s) now) as (P1 & P2 & P3). rewrite Ea in P1, P2, P3. cbn in *. left. lia.
      - right. unfold allowed in Ea. destruct (_ <=? _); inversion Ea; subst; cbn; lia. }
    destruct (_ && _)%bool; cbn [sent cur]; split; auto. }
  rewrite IH; [exact E1|exact Hn'|exact E2].
Qed.

(* ---------- never more than granted, never after the time-to-live ---------- *)
Lemma lstep_count s e : 
  match e with
  | EReq _ now => Z.of_nat (length (sent (lstep s e))) + remaining (cur (lstep s e)) <= Z.of_nat (length (sent s)) + remaining (cur s)
                  /\ ((length (sent s) < length (sent (lstep s e)))%nat -> now < lcreated (cur s) + lttl (cur s))
  | ELease n ttl now => Z.of_nat (length (sent (lstep s e))) + remaining (cur (lstep s e)) <= Z.of_nat (length (sent s)) + Z.max 0 n
                  /\ ((length (sent s) < length (sent (lstep s e)))%nat -> 0 < ttl)
  end.
Proof.
  destruct e as [id now|n ttl now]; cbn [lstep].
  - pose proof (allowed_remaining (cur s) now) as Hr.
    destruct (allowed (cur s) now) as [ok l'] eqn:Ea. cbn [fst snd] in Hr. destruct ok.
    + cbn [sent cur]. rewrite app_length. cbn [length]. split; [lia|]. intros _.
      assert (fst (allowed (cur s) now) = true) as Hok by (rewrite Ea; reflexivity). apply allowed_valid in Hok. lia.
    + destruct (_ && _)%bool; cbn [sent cur]; split; try lia.
  - destruct (drain (queue s) _ now) as [[snt q'] l'] eqn:Ed.
    destruct (drain_spec _ _ _ _ _ _ Ed) as (_ & D2 & D3 & _). cbn [sent cur]. rewrite app_length.
    unfold remaining in D2 at 2. cbn [ln lcount lcreated lttl] in *. split; [lia|].
    intro Hlt. assert (snt <> []) as Hne by (destruct snt; [cbn in Hlt; lia|discriminate]). specialize (D3 Hne). lia.
Qed.

(* between two LEASE frames at most the granted number of requests is sent (those released from the queue included) *)
Theorem at_most_granted : forall post s n ttl now, no_lease post ->
  let s1 := fold_left lstep (ELease n ttl now :: post) s in
  Z.of_nat (length (sent s1)) - Z.of_nat (length (sent s)) <= Z.max 0 n.
Proof.
  intros post s n ttl now Hn. cbn [fold_left]. cbv zeta.
  pose proof (lstep_count s (ELease n ttl now)) as [H0 _]. revert H0. generalize (lstep s (ELease n ttl now)) as s0.
  intros s0 H0.
  assert (forall post s0, no_lease post ->
          Z.of_nat (length (sent (fold_left lstep post s0))) + remaining (cur (fold_left lstep post s0))
          <= Z.of_nat (length (sent s0)) + remaining (cur s0)) as Hseg.
  { clear. induction post as [|e r IH]; intros s0 Hn; [cbn; lia|].
    inversion Hn as [|? ? He Hn']; subst. destruct e as [id t|]; [|destruct He]. cbn [fold_left].
    pose proof (lstep_count s0 (EReq id t)) as [H1 _]. specialize (IH (lstep s0 (EReq id t)) Hn'). lia. }
  specialize (Hseg post s0 Hn). unfold remaining in *. lia.
Qed.

(* ---------- responder ---------- *)
Lemma announce_on_wire bk n ttl_us : (n < 2 ^ 31)%N -> (0 <= ttl_us < 2147483647000)%Z ->
  decode bk (encode (announce n ttl_us)) = DOk (FLease 0 false (to_ms ttl_us) n []).
Proof.
  intros Hn Ht. unfold announce. rewrite decode_encode; [reflexivity|].
  unfold wf. cbn [fsid fmd]. repeat (apply andb_true_iff; split); try reflexivity.
  - apply N.ltb_lt. unfold to_ms.
    assert ((ttl_us + 500) / 1000 < 2147483648)%Z by (apply Z.div_lt_upper_bound; lia).
    change (2 ^ 31)%N with 2147483648%N. lia.
  - apply N.ltb_lt. exact Hn.
Qed.

Example lease_example :
  sent (lrun 0 0 [EReq 1%N 10; EReq 3%N 20; ELease 1 1000 30; EReq 5%N 40; ELease 5 1 50; EReq 7%N 2000]) = [1%N; 3%N; 5%N]
  /\ queue (lrun 0 0 [EReq 1%N 10; EReq 3%N 20; ELease 1 1000 30; EReq 5%N 40; ELease 5 1 50; EReq 7%N 2000]) = [7%N].
Proof. vm_compute. split; reflexivity. Qed.
