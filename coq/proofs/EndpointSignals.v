(* C07: how often and in which order the endpoint signals the application: the request-response awaitable and
   the subscribers the library drives.  All statements are about arbitrary histories of atomic sections. *)
From Coq Require Import Arith NArith List Bool Lia Init.Byte.
From RSV Require Import gen.GenConst lib.Bytes model.Frame model.Fragmenter model.StreamIds model.Endpoint
     proofs.SendQueueProofs proofs.EndpointProofs.
Import ListNotations.
Open Scope N_scope.

(* ---------- the awaitable of request_response ---------- *)
Fixpoint futs (oid : nat) (effs : list effect) : nat :=
  match effs with
  | [] => 0
  | XFut j _ _ _ :: r => (if Nat.eqb j oid then 1 else 0) + futs oid r
  | _ :: r => futs oid r
  end%nat.

Lemma futs_app oid a b : futs oid (a ++ b) = (futs oid a + futs oid b)%nat.
Proof. induction a as [|x a IH]; [reflexivity|]. destruct x; cbn [app futs]; rewrite IH; lia. Qed.

(* 1 while the awaitable of object oid is still to be resolved by the library (or the object does not exist yet) *)
Definition pend (e : ep) (oid : nat) : nat :=
  match nth_error (objs e) oid with
  | Some o => match o_fut o with FPending => 1 | _ => 0 end
  | None => 1
  end%nat.

Lemma pend_finish e sid oid : pend (finish e sid) oid = pend e oid.
Proof. reflexivity. Qed.

Lemma pend_set_same e oid o : (oid < length (objs e))%nat ->
  pend (set_obj e oid o) oid = match o_fut o with FPending => 1 | _ => 0 end%nat.
Proof. intro H. unfold pend. cbn [set_obj objs]. rewrite nth_oset_same by exact H. reflexivity. Qed.

Lemma pend_set_other e j o oid : j <> oid -> pend (set_obj e j o) oid = pend e oid.
Proof. intro H. unfold pend. cbn [set_obj objs]. rewrite nth_oset_other by exact H. reflexivity. Qed.

Lemma pend_chan_mark_same e oid o s r : (oid < length (objs e))%nat ->
  pend (chan_mark e oid o s r) oid = match o_fut o with FPending => 1 | _ => 0 end%nat.
Proof. intro H. unfold pend. rewrite chan_mark_nth by exact H. reflexivity. Qed.

Lemma handler_frame_futs e j o f u oid : nth_error (objs e) j = Some o ->
  (futs oid (snd (fst (handler_frame e j o f u))) + pend (fst (fst (handler_frame e j o f u))) oid <= pend e oid)%nat.
Proof.
  intro Ho. assert (j < length (objs e))%nat as Hl by (apply nth_error_Some; congruence).
  destruct (Nat.eq_dec j oid) as [E|Hne].
  - subst j. assert (pend e oid = match o_fut o with FPending => 1 | _ => 0 end)%nat as Hp by (unfold pend; rewrite Ho; reflexivity).
    unfold handler_frame.
    destruct (o_kind o); destruct f; cbn [fst snd futs]; try lia;
      repeat match goal with
             | |- context [match o_fut o with _ => _ end] => destruct (o_fut o) eqn:?
             | |- context [if ?b then _ else _] => destruct b eqn:?
             end; cbn [fst snd futs]; rewrite ?Nat.eqb_refl, ?pend_finish, ?pend_chan_mark_same, ?pend_set_same by assumption;
      cbn [o_fut upd_fut upd_responded]; try lia;
      try (match goal with H : o_fut o = _ |- _ => rewrite H end; lia).
  - assert (futs oid (snd (fst (handler_frame e j o f u))) = 0)%nat as H0.
    { unfold handler_frame.
      destruct (o_kind o); destruct f; cbn [fst snd futs]; try reflexivity;
        repeat match goal with
               | |- context [match o_fut o with _ => _ end] => destruct (o_fut o)
               | |- context [if ?b then _ else _] => destruct b
               end; cbn [fst snd futs]; try reflexivity;
        apply Nat.eqb_neq in Hne; rewrite Hne; reflexivity. }
    rewrite H0. unfold pend. rewrite handler_frame_other_objs by congruence. lia.
Qed.

Lemma open_responder_old_objs e f o j : (j < length (objs e))%nat ->
  nth_error (objs (fst (open_responder e f o))) j = nth_error (objs e) j.
Proof.
  intro Hj. pose proof (open_responder_local e f o (fsid f + 1)) as H.
  destruct (open_responder e f o) as [e' effs]. cbn [fst].
  assert (fsid f + 1 <> fsid f) as Hne by lia. destruct (H Hne) as (_ & _ & C & _). apply C. exact Hj.
Qed.

Lemma open_responder_length e f o : (length (objs e) <= length (objs (fst (open_responder e f o))))%nat.
Proof.
  assert (forall e0 j ob s r, length (objs (chan_mark e0 j ob s r)) = length (objs e0)) as Hc.
  { intros. unfold chan_mark. destruct (_ && _); rewrite ?finish_objs; cbn [set_obj objs]; apply oset_length. }
  unfold open_responder. destruct f; destruct o; cbn [fst]; try lia;
    try (unfold register_obj; cbn [objs]; rewrite app_length; cbn [length]; lia).
  destruct has_sub, has_pub, complete; cbn [fst]; rewrite ?Hc; unfold register_obj; cbn [objs]; rewrite app_length; cbn [length]; lia.
Qed.

Lemma open_responder_no_fut e f o oid : futs oid (snd (open_responder e f o)) = 0%nat.
Proof.
  unfold open_responder. destruct f; destruct o; cbn [snd futs]; try reflexivity.
  destruct has_sub, has_pub, complete; reflexivity.
Qed.

Lemma pend_None e oid : (length (objs e) <= oid)%nat -> pend e oid = 1%nat.
Proof. intro H. unfold pend. apply nth_error_None in H. rewrite H. reflexivity. Qed.

Lemma pend_le1 e oid : (pend e oid <= 1)%nat.
Proof. unfold pend. destruct (nth_error (objs e) oid) as [o|]; [destruct (o_fut o)|]; lia. Qed.

Lemma open_responder_futs e f o oid :
  (futs oid (snd (open_responder e f o)) + pend (fst (open_responder e f o)) oid <= pend e oid)%nat.
Proof.
  rewrite open_responder_no_fut. destruct (lt_dec oid (length (objs e))) as [Hl|Hl].
  - unfold pend at 1. rewrite open_responder_old_objs by exact Hl. fold (pend e oid). lia.
  - rewrite (pend_None e) by lia. pose proof (pend_le1 (fst (open_responder e f o)) oid). lia.
Qed.

Lemma recv_dispatch_futs e f o u oid : Inv e ->
  (futs oid (snd (recv_dispatch e f o u)) + pend (fst (recv_dispatch e f o u)) oid <= pend e oid)%nat.
Proof.
  intro I. unfold recv_dispatch, raised_error.
  destruct ((fsid f =? CONNECTION_STREAM_ID) || is_request_type f).
  - destruct f; cbn [fst snd futs]; try lia;
      try (destruct (tget (table e) _); cbn [fst snd futs]; [lia|]);
      try (destruct (default_outcome _ o); cbn [fst snd futs]; try lia);
      try (destruct (_ =? CONNECTION_STREAM_ID); cbn [fst snd futs]; try lia);
      try apply open_responder_futs.
    all: try (destruct respond; cbn [futs]; lia).
  - destruct (tget (table e) (fsid f)) as [j|] eqn:Et; [|cbn [fst snd futs]; lia].
    destruct (inv_WF e I _ _ Et) as (ob & Hob & _). rewrite Hob.
    pose proof (handler_frame_futs e j ob f u oid Hob) as H.
    destruct (handler_frame e j ob f u) as [[e' effs] raised]. cbn [fst snd] in *.
    rewrite futs_app. destruct raised; cbn [futs]; lia.
Qed.

Lemma recv_frame_futs e f o u oid : Inv e ->
  (futs oid (snd (recv_frame e f o u)) + pend (fst (recv_frame e f o u)) oid <= pend e oid)%nat.
Proof.
  intro I. unfold recv_frame. destruct (stray_fragment e f); [cbn [fst snd futs]; lia|].
  destruct (is_fragmentable f); [|apply recv_dispatch_futs; exact I].
  pose proof (cache_append_spec (cachek e) f (inv_cwf e I)) as [Hc _].
  destruct (cache_append (cachek e) f) as [c' a]. cbn [fst] in Hc.
  assert (Inv {| sc := sc e; table := table e; objs := objs e; cachek := c' |}) as I1
    by (destruct I as [K O C]; constructor; assumption).
  destruct a; unfold raised_error; cbn [fst snd futs]; try (unfold pend; cbn [objs]; fold (pend e oid); lia).
  apply (recv_dispatch_futs _ f0 o u oid I1).
Qed.

Lemma close_one_futs e sid j oid : 
  (futs oid (snd (close_one e sid j)) + pend (fst (close_one e sid j)) oid <= pend e oid)%nat.
Proof.
  unfold close_one. destruct (nth_error (objs e) j) as [ob|] eqn:Ho; [|cbn [fst snd futs]; unfold pend; cbn; lia].
  set (r1 := if is_requester (o_kind ob) then _ else _).
  assert (futs oid (snd r1) + pend (fst r1) oid <= pend e oid)%nat as H1.
  { unfold r1. destruct (is_requester (o_kind ob)); [|cbn [fst snd futs]; lia].
    pose proof (handler_frame_futs e j ob (f_error sid EC_CONNECTION_ERROR []) true oid Ho) as H.
    destruct (handler_frame e j ob _ true) as [[e' effs] r]. exact H. }
  destruct r1 as [e1 eff1]. cbn [fst snd] in H1.
  set (ob1 := match nth_error (objs e1) j with Some x => x | None => ob end).
  assert (forall e0, pend (finish_table e0 sid) oid = pend e0 oid) as Hft by reflexivity.
  destruct (o_kind ob1); cbn [fst snd]; rewrite ?futs_app, ?Hft; cbn [futs]; try lia.
  - destruct (o_fut ob1) eqn:Ef; cbn [fst snd futs]; rewrite ?futs_app, ?Hft; cbn [futs]; try lia.
    assert (pend (set_obj e1 j (upd_fut ob1 FCancelled)) oid <= pend e1 oid)%nat.
    { destruct (Nat.eq_dec j oid) as [E|Hne]; [|rewrite pend_set_other by exact Hne; lia].
      subst j. unfold pend. cbn [set_obj objs]. destruct (nth_error (objs e1) oid) as [x|] eqn:Hx.
      - rewrite nth_oset_same by (apply nth_error_Some; congruence). cbn [upd_fut o_fut]. destruct (o_fut x); lia.
      - assert (nth_error (oset (objs e1) oid (upd_fut ob1 FCancelled)) oid = None) as Hn
          by (apply nth_error_None; rewrite oset_length; apply nth_error_None; exact Hx).
        rewrite Hn. lia. }
    lia.
  - destruct (o_has_pub ob1); cbn [futs]; lia.
  - destruct (o_has_pub ob1); cbn [futs]; lia.
Qed.

Lemma close_all_futs : forall entries e oid,
  (futs oid (snd (close_all e entries)) + pend (fst (close_all e entries)) oid <= pend e oid)%nat.
Proof.
  induction entries as [|[sid j] r IH]; intros e oid; cbn [close_all]; [cbn [fst snd futs]; lia|].
  pose proof (close_one_futs e sid j oid) as H1. destruct (close_one e sid j) as [e1 x1]. cbn [fst snd] in H1.
  specialize (IH e1 oid). destruct (close_all e1 r) as [e2 x2]. cbn [fst snd] in *. rewrite futs_app. lia.
Qed.

Lemma pend_register e sid o oid : o_fut o = FPending -> (pend (register_obj e sid o) oid <= pend e oid)%nat.
Proof.
  intro Hf. destruct (lt_dec oid (length (objs e))) as [Hl|Hl].
  - unfold pend. destruct (register_obj_spec e sid o 0) as (_ & _ & C & _). rewrite C by exact Hl. lia.
  - rewrite (pend_None e) by lia. apply pend_le1.
Qed.

Lemma pend_set_le e j o o' oid : nth_error (objs e) j = Some o ->
  (o_fut o' = o_fut o \/ o_fut o' <> FPending) -> (pend (set_obj e j o') oid <= pend e oid)%nat.
Proof.
  intros Ho Hf. destruct (Nat.eq_dec j oid) as [E|Hne]; [|rewrite pend_set_other by exact Hne; lia].
  subst j. rewrite pend_set_same by (apply nth_error_Some; congruence). unfold pend. rewrite Ho.
  destruct Hf as [Hf|Hf]; [rewrite Hf; lia|]. destruct (o_fut o'); [congruence|destruct (o_fut o); lia ..].
Qed.

Lemma pend_chan_mark_le e j o s r oid : nth_error (objs e) j = Some o -> (pend (chan_mark e j o s r) oid <= pend e oid)%nat.
Proof.
  intro Ho. unfold chan_mark. destruct (_ && _); rewrite ?pend_finish; apply (pend_set_le e j o); try exact Ho; left; reflexivity.
Qed.

(* one atomic section resolves the awaitable of an object at most once, and only while it is pending *)
Theorem step_futs u e l oid : Inv e ->
  (futs oid (snd (ep_step u e l)) + pend (fst (ep_step u e l)) oid <= pend e oid)%nat.
Proof.
  intro I. destruct l; cbn [ep_step];
    try (unfold alloc; destruct (allocate (sc e)) as [[sid|] s']; cbn [fst snd futs];
         [|unfold pend; cbn [objs]; fold (pend e oid); lia]);
    try (unfold with_obj; destruct (nth_error (objs e) oid0) as [ob|] eqn:Ho; [|cbn [fst snd futs]; lia]).
  - rewrite Nat.add_0_l. apply (pend_register {| sc := s'; table := table e; objs := objs e; cachek := cachek e |}). reflexivity.
  - apply (pend_register {| sc := s'; table := table e; objs := objs e; cachek := cachek e |}). reflexivity.
  - apply (pend_register {| sc := s'; table := table e; objs := objs e; cachek := cachek e |}). reflexivity.
  - destruct positive; cbn [fst snd futs]; rewrite ?pend_finish; [|lia].
    apply (pend_set_le e oid0 ob); [exact Ho|left; reflexivity].
  - destruct (o_kind ob); cbn [fst snd futs]; try lia.
    + apply (pend_set_le e oid0 ob); [exact Ho|left; reflexivity].
    + set (o1 := upd_sub ob (o_has_pub ob) has_sub).
      assert (pend (set_obj e oid0 o1) oid <= pend e oid)%nat as H1 by (apply (pend_set_le e oid0 ob); [exact Ho|left; reflexivity]).
      assert (nth_error (objs (set_obj e oid0 o1)) oid0 = Some o1) as Hn
        by (cbn; apply nth_oset_same; apply nth_error_Some; congruence).
      assert (futs oid ((if o_has_pub ob then [XPub oid0 PSubscribe] else []) ++
                        [XEnq (FRequestChannel (o_sid ob) false false (negb (o_has_pub ob)) (o_n ob) md d)] ++
                        (if has_sub then [XCb oid0 SSubscribe] else [])) = 0)%nat as H0
        by (destruct (o_has_pub ob), has_sub; reflexivity).
      destruct has_sub; cbn [fst snd].
      * rewrite H0. destruct (o_has_pub ob); [lia|].
        pose proof (pend_chan_mark_le (set_obj e oid0 o1) oid0 o1 true false oid Hn). lia.
      * rewrite app_nil_r in H0 |- *. 
        assert (futs oid ((if o_has_pub ob then [XPub oid0 PSubscribe] else []) ++
                        [XEnq (FRequestChannel (o_sid ob) false false (negb (o_has_pub ob)) (o_n ob) md d)]) = 0)%nat as H0'
          by (destruct (o_has_pub ob); reflexivity).
        rewrite H0'.
        pose proof (pend_chan_mark_le (set_obj e oid0 o1) oid0 o1 false true oid Hn) as H2.
        destruct (o_has_pub ob); [lia|].
        assert (nth_error (objs (chan_mark (set_obj e oid0 o1) oid0 o1 false true)) oid0 = Some (upd_marks o1 false true)) as Hn2
          by (apply chan_mark_nth; cbn; rewrite oset_length; apply nth_error_Some; congruence).
        pose proof (pend_chan_mark_le _ oid0 _ true false oid Hn2). lia.
  - unfold pend; cbn [finish objs]; fold (pend e oid). cbn [objs]. lia.
  - cbn [fst snd futs]; lia.
  - cbn [fst snd futs]; lia.
  - destruct (o_kind ob); cbn [fst snd futs]; rewrite ?pend_finish; try lia. 
    all: pose proof (pend_chan_mark_le e oid0 ob false true oid Ho); lia.
  - destruct (o_fut ob) eqn:Ef; cbn [fst snd futs]; try lia.
    rewrite Nat.add_0_l. apply (pend_set_le e oid0 ob); [exact Ho|right; discriminate].
  - destruct (o_kind ob), (o_fut ob) eqn:Ef; cbn [fst snd futs]; try lia;
      rewrite Nat.add_0_l; apply (pend_set_le e oid0 ob); try exact Ho; right; destruct r; discriminate.
  - destruct (o_kind ob); cbn [fst snd futs]; try lia; destruct complete; rewrite ?pend_finish; try lia.
    all: pose proof (pend_chan_mark_le e oid0 ob true false oid Ho); lia.
  - destruct (o_kind ob); cbn [fst snd futs]; rewrite ?pend_finish; try lia.
    all: pose proof (pend_chan_mark_le e oid0 ob true false oid Ho); lia.
  - destruct (o_kind ob); cbn [fst snd futs]; rewrite ?pend_finish; try lia.
    all: pose proof (pend_chan_mark_le e oid0 ob true false oid Ho); lia.
  - destruct (o_kind ob); cbn [fst snd futs]; try lia.
    + destruct (o_fut ob); cbn [fst snd futs]; try lia. destruct (o_responded ob); cbn [fst snd futs]; rewrite ?pend_finish; lia.
    + destruct r; cbn [fst snd futs]; rewrite ?pend_finish; lia.
  - apply recv_frame_futs. exact I.
  - apply close_all_futs.
Qed.

Theorem run_futs : forall ls e oid, Inv e ->
  (futs oid (concat (snd (ep_run e ls))) + pend (fst (ep_run e ls)) oid <= pend e oid)%nat.
Proof.
  induction ls as [|[l u] r IH]; intros e oid I; cbn [ep_run]; [cbn; lia|].
  pose proof (step_futs u e l oid I) as H1. pose proof (inv_step u e l I) as I1.
  destruct (ep_step u e l) as [e1 x]. cbn [fst snd] in *.
  specialize (IH e1 oid I1). destruct (ep_run e1 r) as [e2 xs]. cbn [fst snd concat] in *. rewrite futs_app. lia.
Qed.

(* C07, first sentence: over any history whatsoever the library resolves a request-response awaitable at most once *)
Theorem awaitable_resolved_at_most_once first ls oid :
  (futs oid (concat (snd (ep_run (ep_init first) ls))) <= 1)%nat.
Proof.
  pose proof (run_futs ls (ep_init first) oid (inv_init first)) as H.
  pose proof (pend_le1 (ep_init first) oid). lia.
Qed.

(* ... and never after the caller has cancelled it or it has been resolved *)
Theorem no_resolution_unless_pending ls e oid o : Inv e -> nth_error (objs e) oid = Some o -> o_fut o <> FPending ->
  futs oid (concat (snd (ep_run e ls))) = 0%nat.
Proof.
  intros I Ho Hf. pose proof (run_futs ls e oid I) as H.
  assert (pend e oid = 0)%nat as Hp by (unfold pend; rewrite Ho; destruct (o_fut o); congruence). lia.
Qed.

(* ---------- subscribers ---------- *)
Definition is_term (s : signal) : bool :=
  match s with SComplete | SError => true | SNext _ _ c => c | SSubscribe => false end.

(* the signals other than on_subscribe delivered to the subscriber of object oid *)
Fixpoint dsigs (oid : nat) (effs : list effect) : list signal :=
  match effs with
  | [] => []
  | XCb j s :: r => (if Nat.eqb j oid then match s with SSubscribe => [] | _ => [s] end else []) ++ dsigs oid r
  | _ :: r => dsigs oid r
  end.

Lemma dsigs_app oid a b : dsigs oid (a ++ b) = dsigs oid a ++ dsigs oid b.
Proof. induction a as [|x a IH]; [reflexivity|]. destruct x; cbn [app dsigs]; rewrite ?IH, ?app_assoc; reflexivity. Qed.

Definition reachb (e : ep) (oid : nat) : bool := existsb (fun p => Nat.eqb (snd p) oid) (table e).

(* the receiving side of object oid is over: the object is no longer in the table, or it is a channel whose
   receive direction has been marked complete *)
Definition closedb (e : ep) (oid : nat) : bool :=
  match nth_error (objs e) oid with
  | Some o => negb (reachb e oid) || (is_chan (o_kind o) && o_recv o)
  | None => false
  end.
Definition opn (e : ep) (oid : nat) : nat := if closedb e oid then 0%nat else 1%nat.

Lemma reachb_tremove t k oid : existsb (fun p => Nat.eqb (snd p) oid) (tremove t k) = true ->
  existsb (fun p => Nat.eqb (snd p) oid) t = true.
Proof.
  unfold tremove. rewrite !existsb_exists. intros (x & Hin & Hx). apply filter_In in Hin. exists x. tauto.
Qed.

Lemma reachb_finish_le e s oid : reachb (finish e s) oid = true -> reachb e oid = true.
Proof. apply reachb_tremove. Qed.

Lemma reachb_finish_own e oid o : Inv e -> nth_error (objs e) oid = Some o -> reachb (finish e (o_sid o)) oid = false.
Proof.
  intros I Ho. destruct (reachb (finish e (o_sid o)) oid) eqn:E; [|reflexivity]. exfalso.
  unfold reachb in E. cbn [finish table] in E. apply existsb_exists in E. destruct E as ([s i] & Hin & Hx).
  cbn [snd] in Hx. apply Nat.eqb_eq in Hx. subst i. apply tremove_In in Hin. destruct Hin as [Hin Hne].
  destruct (inv_objs e I s oid Hin) as (o' & Ho' & Hs). congruence.
Qed.

Lemma opn_le1 e oid : (opn e oid <= 1)%nat.
Proof. unfold opn. destruct (closedb e oid); lia. Qed.

Lemma opn_finish_le e s oid : (opn (finish e s) oid <= opn e oid)%nat.
Proof.
  unfold opn, closedb. rewrite finish_objs. destruct (nth_error (objs e) oid) as [o|]; [|lia].
  destruct (reachb (finish e s) oid) eqn:E; [apply reachb_finish_le in E; rewrite E; lia|].
  cbn [negb orb]. destruct (_ || _); lia.
Qed.

Lemma opn_finish_table_le e s oid : (opn (finish_table e s) oid <= opn e oid)%nat.
Proof. exact (opn_finish_le {| sc := sc e; table := table e; objs := objs e; cachek := cachek e |} s oid). Qed.

Lemma opn_finish_own e oid o : Inv e -> nth_error (objs e) oid = Some o -> opn (finish e (o_sid o)) oid = 0%nat.
Proof.
  intros I Ho. unfold opn, closedb. rewrite finish_objs, Ho, (reachb_finish_own e oid o I Ho). reflexivity.
Qed.

Lemma opn_set_other e j o oid : j <> oid -> opn (set_obj e j o) oid = opn e oid.
Proof. intro H. unfold opn, closedb. cbn [set_obj objs]. rewrite nth_oset_other by exact H. reflexivity. Qed.

(* replacing an object by one of the same kind whose receive mark is not cleared *)
Lemma opn_set_le e j o o' oid : nth_error (objs e) j = Some o -> o_kind o' = o_kind o ->
  (o_recv o = true -> o_recv o' = true) -> (opn (set_obj e j o') oid <= opn e oid)%nat.
Proof.
  intros Ho Hk Hr. destruct (Nat.eq_dec j oid) as [E|Hne]; [|rewrite opn_set_other by exact Hne; lia].
  subst j. unfold opn, closedb. cbn [set_obj objs]. rewrite nth_oset_same by (apply nth_error_Some; congruence).
  rewrite Ho, Hk. change (reachb (set_obj e oid o') oid) with (reachb e oid).
  destruct (reachb e oid); cbn [negb orb]; [|lia]. destruct (is_chan (o_kind o)); cbn [andb]; [|lia].
  destruct (o_recv o); [rewrite Hr by reflexivity; lia|destruct (o_recv o'); lia].
Qed.

Lemma opn_chan_mark_le e j o s r oid : nth_error (objs e) j = Some o -> (opn (chan_mark e j o s r) oid <= opn e oid)%nat.
Proof.
  intro Ho. assert (opn (set_obj e j (upd_marks o s r)) oid <= opn e oid)%nat as H
    by (apply (opn_set_le e j o); [exact Ho|reflexivity|cbn [upd_marks o_recv]; intros ->; reflexivity]).
  unfold chan_mark. destruct (_ && _); [|exact H].
  pose proof (opn_finish_le (set_obj e j (upd_marks o s r)) (o_sid o) oid). lia.
Qed.

(* marking the receive direction of a channel closes it *)
Lemma opn_chan_mark_recv e oid o s : nth_error (objs e) oid = Some o -> is_chan (o_kind o) = true ->
  opn (chan_mark e oid o s true) oid = 0%nat.
Proof.
  intros Ho Hk. assert (oid < length (objs e))%nat as Hl by (apply nth_error_Some; congruence).
  unfold opn, closedb. rewrite chan_mark_nth by exact Hl. cbn [upd_marks o_kind o_recv]. rewrite Hk, orb_true_r. cbn [andb].
  rewrite orb_true_r. reflexivity.
Qed.

Lemma opn_register_le e sid o oid : Inv e -> (opn (register_obj e sid o) oid <= opn e oid)%nat.
Proof.
  intro I. destruct (lt_dec oid (length (objs e))) as [Hl|Hl].
  - unfold opn, closedb. destruct (register_obj_spec e sid o 0) as (_ & _ & C & _). rewrite C by exact Hl.
    destruct (nth_error (objs e) oid) as [x|]; [|lia].
    destruct (reachb (register_obj e sid o) oid) eqn:E.
    + unfold reachb, register_obj, tset in E. cbn [table existsb snd] in E.
      destruct (Nat.eqb_spec (length (objs e)) oid) as [E1|_]; [lia|]. cbn [orb] in E. apply reachb_tremove in E.
      unfold reachb. rewrite E. lia.
    + cbn [negb orb]. destruct (_ || _); lia.
  - unfold opn at 2. unfold closedb. assert (nth_error (objs e) oid = None) as Hn by (apply nth_error_None; lia).
    rewrite Hn. apply opn_le1.
Qed.

Definition tcount (oid : nat) (effs : list effect) : nat := length (filter is_term (dsigs oid effs)).

Lemma tcount_app oid a b : tcount oid (a ++ b) = (tcount oid a + tcount oid b)%nat.
Proof. unfold tcount. rewrite dsigs_app, filter_app, app_length. reflexivity. Qed.

Lemma tcount_le oid effs : (tcount oid effs <= length (dsigs oid effs))%nat.
Proof. unfold tcount. induction (dsigs oid effs) as [|x l IH]; cbn [filter length]; [lia|]. destruct (is_term x); cbn [length]; lia. Qed.

Definition is_payload (f : frame) : bool := match f with FPayload _ _ _ _ _ _ _ => true | _ => false end.

Lemma opn_reach e oid o : nth_error (objs e) oid = Some o -> reachb e oid = true ->
  opn e oid = if is_chan (o_kind o) && o_recv o then 0%nat else 1%nat.
Proof. intros Ho Hr. unfold opn, closedb. rewrite Ho, Hr. reflexivity. Qed.

Lemma opn_finish_own' e oid o s : Inv e -> nth_error (objs e) oid = Some o -> o_sid o = s -> opn (finish e s) oid = 0%nat.
Proof. intros I Ho <-. apply opn_finish_own; assumption. Qed.

(* effects of a handler mention only its own object *)
Lemma handler_frame_dsigs_other e j o f u oid : j <> oid -> dsigs oid (snd (fst (handler_frame e j o f u))) = [].
Proof.
  intro Hne. apply Nat.eqb_neq in Hne. unfold handler_frame.
  destruct (o_kind o); destruct f; cbn [fst snd dsigs]; try reflexivity;
    repeat match goal with
           | |- context [match o_fut o with _ => _ end] => destruct (o_fut o)
           | |- context [if ?b then _ else _] => destruct b
           end; cbn [fst snd dsigs]; rewrite ?Hne; reflexivity.
Qed.

Lemma handler_frame_opn_other e j o f u oid : j <> oid -> nth_error (objs e) j = Some o ->
  (opn (fst (fst (handler_frame e j o f u))) oid <= opn e oid)%nat.
Proof.
  intros Hne Ho.
  assert (forall o', opn (set_obj e j o') oid = opn e oid) as Fs by (intro; apply opn_set_other; exact Hne).
  unfold handler_frame.
  destruct (o_kind o); destruct f; cbn [fst snd]; try lia;
    repeat match goal with
           | |- context [match o_fut o with _ => _ end] => destruct (o_fut o)
           | |- context [if ?b then _ else _] => destruct b
           end; cbn [fst snd]; try lia;
    repeat first [ lia
                 | match goal with |- (opn (finish ?x ?s) oid <= _)%nat => pose proof (opn_finish_le x s oid); rewrite ?Fs in *; lia end
                 | rewrite Fs; lia
                 | apply opn_chan_mark_le; exact Ho ].
Qed.

(* the handler's own object: at most one signal is delivered, none if the object is closed (a PAYLOAD for a channel
   whose receive direction is closed is dropped), and a terminal one closes it *)
Lemma handler_frame_sigs_own e oid o f u : Inv e -> nth_error (objs e) oid = Some o -> reachb e oid = true ->
  (length (dsigs oid (snd (fst (handler_frame e oid o f u)))) <= opn e oid)%nat /\
  (tcount oid (snd (fst (handler_frame e oid o f u))) + opn (fst (fst (handler_frame e oid o f u))) oid <= opn e oid)%nat.
Proof.
  intros I Ho Hr. assert (oid < length (objs e))%nat as Hlen by (apply nth_error_Some; congruence).
  rewrite (opn_reach e oid o Ho Hr).
  assert (forall o', o_sid o' = o_sid o -> opn (finish (set_obj e oid o') (o_sid o)) oid = 0%nat) as F1.
  { intros o' Hs. apply (opn_finish_own' _ oid o'); [eapply inv_set_obj; [exact I|exact Ho|exact Hs]|cbn; apply nth_oset_same; exact Hlen|exact Hs]. }
  assert (opn (finish e (o_sid o)) oid = 0%nat) as F2 by (apply opn_finish_own; assumption).
  assert (forall o', o_kind o' = o_kind o -> (o_recv o = true -> o_recv o' = true) ->
                     (opn (set_obj e oid o') oid <= if is_chan (o_kind o) && o_recv o then 0 else 1)%nat) as F3.
  { intros o' Hk Hrc. rewrite <- (opn_reach e oid o Ho Hr). apply (opn_set_le e oid o); assumption. }
  assert (is_chan (o_kind o) = true -> forall s, opn (chan_mark e oid o s true) oid = 0%nat) as F4
    by (intros Hk s; apply opn_chan_mark_recv; assumption).
  assert (forall s r, (opn (chan_mark e oid o s r) oid <= if is_chan (o_kind o) && o_recv o then 0 else 1)%nat) as F5
    by (intros s r; rewrite <- (opn_reach e oid o Ho Hr); apply opn_chan_mark_le; exact Ho).
  assert (opn e oid = if is_chan (o_kind o) && o_recv o then 0 else 1)%nat as F6 by (apply opn_reach; assumption).
  unfold handler_frame, tcount.
  destruct (o_kind o) eqn:Ek; cbn [is_chan andb] in *; destruct f; cbn [fst snd dsigs filter length];
    try (split; lia);
    repeat match goal with
           | |- context [match o_fut o with _ => _ end] => destruct (o_fut o) eqn:?
           | |- context [if ?b then _ else _] => destruct b eqn:?
           end; cbn [fst snd dsigs filter length app is_term negb andb orb] in *; rewrite ?Nat.eqb_refl; cbn [fst snd dsigs filter length app is_term];
    try discriminate;
    rewrite ?F1, ?F2, ?F4 by reflexivity; try (split; lia);
    try (split; [lia|]);
    repeat first [ lia
                 | match goal with |- context [opn (set_obj e oid ?o') oid] => pose proof (F3 o' Ek (fun H => H)); lia end
                 | match goal with |- context [opn (chan_mark e oid o ?s ?r) oid] => pose proof (F5 s r); lia end ].
Qed.

Lemma opn_None e oid : (length (objs e) <= oid)%nat -> opn e oid = 1%nat.
Proof. intro H. unfold opn, closedb. apply nth_error_None in H. rewrite H. reflexivity. Qed.

Lemma chan_mark_length e j o s r : length (objs (chan_mark e j o s r)) = length (objs e).
Proof. unfold chan_mark. destruct (_ && _); rewrite ?finish_objs; cbn [set_obj objs]; apply oset_length. Qed.

Lemma open_responder_sigs e f o oid : Inv e ->
  (length (dsigs oid (snd (open_responder e f o))) <= opn e oid)%nat /\
  (tcount oid (snd (open_responder e f o)) + opn (fst (open_responder e f o)) oid <= opn e oid)%nat.
Proof.
  intro I. unfold open_responder, tcount.
  destruct f; destruct o; cbn [fst snd dsigs filter length]; try (split; lia);
    try (split; [lia|rewrite Nat.add_0_l; apply opn_register_le; exact I]).
  (* request-channel *)
  cbn [fsid].
  - set (ob := upd_sub (mk_obj KChanResp sid) has_pub has_sub).
    set (n0 := length (objs e)).
    assert (Inv (register_obj e sid ob)) as I1 by (apply inv_register; [exact I|reflexivity]).
    assert (nth_error (objs (register_obj e sid ob)) n0 = Some ob) as Hn by (apply (register_obj_spec e sid ob 0)).
    assert (n0 < length (objs (register_obj e sid ob)))%nat as Hl by (apply nth_error_Some; congruence).
    pose proof (opn_register_le e sid ob oid I) as R.
    assert (forall e0 o0 s r, nth_error (objs e0) n0 = Some o0 -> (opn (chan_mark e0 n0 o0 s r) oid <= opn e0 oid)%nat) as C
      by (intros; apply opn_chan_mark_le; assumption).
    assert (forall e0 o0 s r, (n0 < length (objs e0))%nat -> nth_error (objs (chan_mark e0 n0 o0 s r)) n0 = Some (upd_marks o0 s r)) as N
      by (intros; apply chan_mark_nth; assumption).
    destruct (Nat.eq_dec n0 oid) as [E|Hne].
    + rewrite (opn_None e oid) by (unfold n0 in E; lia). rewrite <- E.
      assert (forall e0 o0 s, nth_error (objs e0) n0 = Some o0 -> is_chan (o_kind o0) = true -> opn (chan_mark e0 n0 o0 s true) n0 = 0%nat) as Z
        by (intros; apply opn_chan_mark_recv; assumption).
      destruct has_sub, has_pub, complete; cbn [fst snd dsigs filter length app is_term]; rewrite ?Nat.eqb_refl;
        cbn [fst snd dsigs filter length app is_term]; (split; [lia|]);
        try (rewrite Z; [lia| |reflexivity]);
        repeat first [ exact Hn | apply N | rewrite chan_mark_length | exact Hl ];
        try apply opn_le1.
    + apply Nat.eqb_neq in Hne.
      destruct has_sub, has_pub, complete; cbn [fst snd dsigs filter length app is_term]; rewrite ?Hne;
        cbn [fst snd dsigs filter length app is_term]; (split; [lia|]); rewrite Nat.add_0_l;
        repeat first [ exact R
                     | (eapply Nat.le_trans; [apply C|]);
                       repeat first [ exact Hn | apply N | rewrite chan_mark_length | exact Hl ] ].
Qed.

Lemma tget_reachb e sid oid : tget (table e) sid = Some oid -> reachb e oid = true.
Proof.
  unfold reachb. induction (table e) as [|[k v] t IH]; cbn [tget existsb snd]; [discriminate|].
  destruct (k =? sid); [intros [= ->]; rewrite Nat.eqb_refl; reflexivity|]. intro H. rewrite (IH H). apply orb_true_r.
Qed.

Lemma dsigs_enq oid effs g : dsigs oid (effs ++ [XEnq g]) = dsigs oid effs.
Proof. rewrite dsigs_app. cbn [dsigs]. apply app_nil_r. Qed.

Lemma tcount_enq oid effs g : tcount oid (effs ++ [XEnq g]) = tcount oid effs.
Proof. unfold tcount. rewrite dsigs_enq. reflexivity. Qed.

Lemma recv_dispatch_sigs e g o u oid : Inv e ->
  (length (dsigs oid (snd (recv_dispatch e g o u))) <= opn e oid)%nat /\
  (tcount oid (snd (recv_dispatch e g o u)) + opn (fst (recv_dispatch e g o u)) oid <= opn e oid)%nat.
Proof.
  intros I. unfold recv_dispatch, raised_error.
  destruct ((fsid g =? CONNECTION_STREAM_ID) || is_request_type g).
  - unfold tcount.
    destruct g; cbn [fst snd dsigs filter length]; try (split; lia);
      try (destruct (tget (table e) _); cbn [fst snd dsigs filter length]; [split; lia|]);
      try (destruct (default_outcome _ o); cbn [fst snd dsigs filter length]; try (split; lia));
      try (destruct (_ =? CONNECTION_STREAM_ID); cbn [fst snd dsigs filter length]; try (split; lia));
      try (apply open_responder_sigs; exact I).
    all: try (destruct respond; cbn [dsigs filter length]; split; lia).
  - destruct (tget (table e) (fsid g)) as [j|] eqn:Et; [|unfold tcount; cbn [fst snd dsigs filter length]; split; lia].
    destruct (inv_WF e I _ _ Et) as (ob & Hob & Hs). rewrite Hob.
    destruct (Nat.eq_dec j oid) as [E|Hne].
    + subst j. pose proof (tget_reachb e _ _ Et) as Hr.
      pose proof (handler_frame_sigs_own e oid ob g u I Hob Hr) as H.
      destruct (handler_frame e oid ob g u) as [[e' effs] raised]. cbn [fst snd] in *.
      destruct raised; rewrite ?dsigs_enq, ?tcount_enq, ?app_nil_r; exact H.
    + pose proof (handler_frame_dsigs_other e j ob g u oid Hne) as H1.
      pose proof (handler_frame_opn_other e j ob g u oid Hne Hob) as H2.
      destruct (handler_frame e j ob g u) as [[e' effs] raised]. cbn [fst snd] in *.
      unfold tcount. destruct raised; rewrite ?dsigs_enq, ?app_nil_r, H1; cbn [filter length]; split; lia.
Qed.

Lemma recv_frame_sigs e f o u oid : Inv e ->
  (length (dsigs oid (snd (recv_frame e f o u))) <= opn e oid)%nat /\
  (tcount oid (snd (recv_frame e f o u)) + opn (fst (recv_frame e f o u)) oid <= opn e oid)%nat.
Proof.
  intros I. unfold recv_frame.
  destruct (stray_fragment e f); [unfold tcount; cbn [fst snd dsigs filter length]; split; lia|].
  destruct (is_fragmentable f); [|apply recv_dispatch_sigs; assumption].
  pose proof (cache_append_spec (cachek e) f (inv_cwf e I)) as [Hc _].
  destruct (cache_append (cachek e) f) as [c' a]. cbn [fst snd] in *.
  set (e1 := {| sc := sc e; table := table e; objs := objs e; cachek := c' |}).
  assert (Inv e1) as I1 by (destruct I as [K O C]; constructor; assumption).
  assert (opn e1 oid = opn e oid) as Ho by reflexivity.
  destruct a; unfold raised_error, tcount; cbn [fst snd dsigs filter length]; try (split; lia).
  rewrite <- Ho. apply (recv_dispatch_sigs e1 f0 o u oid I1).
Qed.

(* ---------- the close sweep ---------- *)
Lemma handler_frame_error_terminal e oid o sid code d u j :
  length (dsigs j (snd (fst (handler_frame e oid o (f_error sid code d) u)))) =
  tcount j (snd (fst (handler_frame e oid o (f_error sid code d) u))).
Proof.
  unfold handler_frame, f_error, tcount.
  destruct (o_kind o); cbn [fst snd dsigs filter length]; try reflexivity;
    repeat match goal with
           | |- context [match o_fut o with _ => _ end] => destruct (o_fut o)
           | |- context [if ?b then _ else _] => destruct b
           end; cbn [fst snd dsigs filter length app is_term]; try reflexivity;
    destruct (Nat.eqb oid j); reflexivity.
Qed.

Lemma close_one_sigs e sid j oid : Inv e -> In (sid, j) (table e) ->
  (length (dsigs oid (snd (close_one e sid j))) + opn (fst (close_one e sid j)) oid <= opn e oid)%nat.
Proof.
  intros I Hin. destruct (inv_objs e I sid j Hin) as (ob & Ho & Hs).
  pose proof (proj2 (tget_In (table e) sid j (inv_keys e I)) Hin) as Et.
  unfold close_one. rewrite Ho.
  set (r1 := if is_requester (o_kind ob) then _ else _).
  assert ((length (dsigs oid (snd r1)) + opn (fst r1) oid <= opn e oid)%nat /\ Inv (fst r1)) as [H1 I1].
  { unfold r1. destruct (is_requester (o_kind ob)); [|cbn [fst snd dsigs length]; split; [lia|exact I]].
    pose proof (handler_frame_error_terminal e j ob sid EC_CONNECTION_ERROR [] true oid) as Ht.
    pose proof (inv_handler_frame e j ob (f_error sid EC_CONNECTION_ERROR []) true I Ho) as Ih.
    destruct (Nat.eq_dec j oid) as [E|Hne].
    - subst j. pose proof (handler_frame_sigs_own e oid ob (f_error sid EC_CONNECTION_ERROR []) true I Ho (tget_reachb e _ _ Et)) as [_ H].
      destruct (handler_frame e oid ob _ true) as [[e' effs] r]. cbn [fst snd] in *. split; [lia|exact Ih].
    - pose proof (handler_frame_dsigs_other e j ob (f_error sid EC_CONNECTION_ERROR []) true oid Hne) as Hd.
      pose proof (handler_frame_opn_other e j ob (f_error sid EC_CONNECTION_ERROR []) true oid Hne Ho) as Hp.
      destruct (handler_frame e j ob _ true) as [[e' effs] r]. cbn [fst snd] in *. rewrite Hd. cbn [length]. split; [lia|exact Ih]. }
  destruct r1 as [e1 eff1]. cbn [fst snd] in *.
  set (ob1 := match nth_error (objs e1) j with Some x => x | None => ob end).
  assert (forall e0, opn (finish_table e0 sid) oid <= opn e0 oid)%nat as Hft by (intro; apply opn_finish_table_le).
  destruct (o_kind ob1) eqn:Ek; cbn [fst snd]; rewrite ?dsigs_app; cbn [dsigs]; rewrite ?app_nil_r;
    try (pose proof (Hft e1); lia).
  - destruct (o_fut ob1); cbn [fst snd]; rewrite ?dsigs_app; cbn [dsigs]; rewrite ?app_nil_r; try (pose proof (Hft e1); lia).
    pose proof (Hft (set_obj e1 j (upd_fut ob1 FCancelled))) as H2.
    assert (opn (set_obj e1 j (upd_fut ob1 FCancelled)) oid <= opn e1 oid)%nat as H3.
    { unfold ob1. destruct (nth_error (objs e1) j) as [x|] eqn:Hx.
      - apply (opn_set_le e1 j x); [exact Hx|reflexivity|auto].
      - destruct (Nat.eq_dec j oid) as [E|Hne]; [|rewrite opn_set_other by exact Hne; lia].
        subst j. unfold opn, closedb. cbn [set_obj objs]. assert (nth_error (oset (objs e1) oid (upd_fut ob FCancelled)) oid = None) as Hn
          by (apply nth_error_None; rewrite oset_length; apply nth_error_None; exact Hx).
        rewrite Hn, Hx. lia. }
    lia.
  - destruct (o_has_pub ob1); cbn [dsigs]; rewrite ?app_nil_r; pose proof (Hft e1); lia.
  - destruct (o_has_pub ob1); cbn [dsigs]; rewrite ?app_nil_r; pose proof (Hft e1); lia.
Qed.

Lemma close_one_tget e sid j k : Inv e -> In (sid, j) (table e) -> k <> sid ->
  tget (table (fst (close_one e sid j))) k = tget (table e) k.
Proof.
  intros I Hin Hk. destruct (inv_objs e I sid j Hin) as (ob & Ho & Hs).
  unfold close_one. rewrite Ho.
  set (r1 := if is_requester (o_kind ob) then _ else _).
  assert (tget (table (fst r1)) k = tget (table e) k) as H1.
  { unfold r1. destruct (is_requester (o_kind ob)); [|reflexivity].
    pose proof (handler_frame_local e j ob (f_error sid EC_CONNECTION_ERROR []) true k) as H.
    destruct (handler_frame e j ob _ true) as [[e' effs] r]. cbn [fst]. apply H. congruence. }
  destruct r1 as [e1 eff1]. cbn [fst] in *.
  assert (forall e0, tget (table (finish_table e0 sid)) k = tget (table e0) k) as Hft.
  { intro e0. cbn [finish_table table]. rewrite tget_tremove. destruct (N.eqb_spec sid k); [congruence|reflexivity]. }
  destruct (o_kind (match nth_error (objs e1) j with Some x => x | None => ob end)); cbn [fst]; rewrite ?Hft; try exact H1.
  destruct (o_fut _); cbn [fst]; rewrite Hft; exact H1.
Qed.

Lemma close_all_sigs : forall entries e oid, Inv e -> NoDup (map fst entries) ->
  (forall s i, In (s, i) entries -> In (s, i) (table e)) ->
  (length (dsigs oid (snd (close_all e entries))) + opn (fst (close_all e entries)) oid <= opn e oid)%nat.
Proof.
  induction entries as [|[sid j] r IH]; intros e oid I Hnd Hsub; cbn [close_all]; [cbn [fst snd dsigs length]; lia|].
  pose proof (close_one_sigs e sid j oid I (Hsub sid j (or_introl eq_refl))) as H1.
  pose proof (inv_close_one e sid j I) as I1.
  assert (forall s i, In (s, i) r -> In (s, i) (table (fst (close_one e sid j)))) as Hsub1.
  { intros s i Hin. cbn [map fst] in Hnd. apply NoDup_cons_iff in Hnd. destruct Hnd as [Hni _].
    assert (s <> sid) as Hne by (intro E; subst s; apply Hni; apply in_map_iff; exists (sid, i); split; [reflexivity|exact Hin]).
    apply (tget_In _ s i (inv_keys _ I1)). rewrite close_one_tget; [|exact I|apply Hsub; left; reflexivity|exact Hne].
    apply (tget_In _ s i (inv_keys e I)). apply Hsub. right. exact Hin. }
  destruct (close_one e sid j) as [e1 x1]. cbn [fst snd] in *.
  cbn [map fst] in Hnd. apply NoDup_cons_iff in Hnd. destruct Hnd as [_ Hnd].
  specialize (IH e1 oid I1 Hnd Hsub1). destruct (close_all e1 r) as [e2 x2]. cbn [fst snd] in *.
  rewrite dsigs_app, app_length. lia.
Qed.

(* ---------- one atomic section ---------- *)
Theorem step_sigs u e l oid : Inv e ->
  (length (dsigs oid (snd (ep_step u e l))) <= opn e oid)%nat /\
  (tcount oid (snd (ep_step u e l)) + opn (fst (ep_step u e l)) oid <= opn e oid)%nat.
Proof.
  intros I.
  assert (forall e' effs, dsigs oid effs = [] -> (opn e' oid <= opn e oid)%nat ->
            (length (dsigs oid (snd (e', effs))) <= opn e oid)%nat /\ (tcount oid (snd (e', effs)) + opn (fst (e', effs)) oid <= opn e oid)%nat) as Q.
  { intros e' effs Hd Ho. unfold tcount. cbn [fst snd]. rewrite Hd. cbn [filter length]. split; lia. }
  destruct l; cbn [ep_step];
    try (pose proof (inv_alloc e I) as Ia; unfold alloc in *; destruct (allocate (sc e)) as [[sid|] s']; cbn [fst snd] in *;
         [|apply Q; [reflexivity|apply Nat.le_refl]]);
    try (unfold with_obj; destruct (nth_error (objs e) oid0) as [ob|] eqn:Ho; [|apply Q; [reflexivity|lia]]).
  - apply Q; [reflexivity|]. apply (opn_register_le _ sid _ oid Ia).
  - apply Q; [reflexivity|]. apply (opn_register_le _ sid _ oid Ia).
  - apply Q; [reflexivity|]. apply (opn_register_le _ sid _ oid Ia).
  - destruct positive; (apply Q; [reflexivity|]); [apply (opn_set_le e oid0 ob); [exact Ho|reflexivity|auto]|apply opn_finish_le].
  - destruct (o_kind ob) eqn:Ek; try (apply Q; [reflexivity|lia]).
    + apply Q; [cbn [dsigs]; destruct (Nat.eqb oid0 oid); reflexivity|]. apply (opn_set_le e oid0 ob); [exact Ho|reflexivity|auto].
    + set (o1 := upd_sub ob (o_has_pub ob) has_sub).
      assert (opn (set_obj e oid0 o1) oid <= opn e oid)%nat as H1 by (apply (opn_set_le e oid0 ob); [exact Ho|reflexivity|auto]).
      assert (nth_error (objs (set_obj e oid0 o1)) oid0 = Some o1) as Hn
        by (cbn; apply nth_oset_same; apply nth_error_Some; congruence).
      destruct has_sub; cbn [fst snd].
      * apply Q; [destruct (o_has_pub ob); cbn [app dsigs]; destruct (Nat.eqb oid0 oid); reflexivity|].
        destruct (o_has_pub ob); [exact H1|]. pose proof (opn_chan_mark_le (set_obj e oid0 o1) oid0 o1 true false oid Hn). lia.
      * apply Q; [destruct (o_has_pub ob); reflexivity|].
        pose proof (opn_chan_mark_le (set_obj e oid0 o1) oid0 o1 false true oid Hn) as H2.
        destruct (o_has_pub ob); [lia|].
        assert (nth_error (objs (chan_mark (set_obj e oid0 o1) oid0 o1 false true)) oid0 = Some (upd_marks o1 false true)) as Hn2
          by (apply chan_mark_nth; cbn; rewrite oset_length; apply nth_error_Some; congruence).
        pose proof (opn_chan_mark_le _ oid0 _ true false oid Hn2). lia.
  - apply Q; [reflexivity|]. apply (opn_finish_le {| sc := s'; table := table e; objs := objs e; cachek := cachek e |}).
  - apply Q; [reflexivity|lia].
  - apply Q; [reflexivity|lia].
  - destruct (o_kind ob); (apply Q; [reflexivity|]); try lia; try apply opn_finish_le; apply opn_chan_mark_le; exact Ho.
  - destruct (o_fut ob); (apply Q; [reflexivity|]); try lia. apply (opn_set_le e oid0 ob); [exact Ho|reflexivity|auto].
  - destruct (o_kind ob), (o_fut ob); (apply Q; [reflexivity|]); try lia. apply (opn_set_le e oid0 ob); [exact Ho|reflexivity|auto].
  - destruct (o_kind ob); try (apply Q; [reflexivity|lia]); destruct complete; (apply Q; [reflexivity|]); try lia;
      try apply opn_finish_le; apply opn_chan_mark_le; exact Ho.
  - destruct (o_kind ob); (apply Q; [reflexivity|]); try lia; try apply opn_finish_le; apply opn_chan_mark_le; exact Ho.
  - destruct (o_kind ob); (apply Q; [reflexivity|]); try lia; try apply opn_finish_le; apply opn_chan_mark_le; exact Ho.
  - destruct (o_kind ob); try (apply Q; [reflexivity|lia]).
    + destruct (o_fut ob); try (apply Q; [reflexivity|lia]). destruct (o_responded ob); (apply Q; [reflexivity|]); [lia|apply opn_finish_le].
    + destruct r; (apply Q; [reflexivity|]); apply opn_finish_le.
  - apply recv_frame_sigs; assumption.
  - pose proof (close_all_sigs (rev (table e)) e oid I) as H.
    pose proof (tcount_le oid (snd (close_all e (rev (table e))))) as Ht.
    assert (NoDup (map fst (rev (table e)))) as Hnd by (rewrite map_rev; apply NoDup_rev; apply I).
    specialize (H Hnd (fun s i Hin => proj2 (in_rev _ _) Hin)). split; lia.
Qed.

(* ---------- whole histories ---------- *)
(* at most one terminal signal, and nothing after it *)
Definition ok_sigs (l : list signal) : Prop :=
  forall pre s post, l = pre ++ s :: post -> is_term s = true -> post = [].

Lemma run_closed_silent : forall ls e oid, Inv e -> opn e oid = 0%nat ->
  dsigs oid (concat (snd (ep_run e ls))) = [].
Proof.
  induction ls as [|[l u] r IH]; intros e oid I Hz; cbn [ep_run]; [reflexivity|].
  pose proof (step_sigs u e l oid I) as [H1 H2]. pose proof (inv_step u e l I) as I1.
  destruct (ep_step u e l) as [e1 x]. cbn [fst snd] in *.
  specialize (IH e1 oid I1). destruct (ep_run e1 r) as [e2 xs]. cbn [fst snd concat] in *.
  rewrite dsigs_app. rewrite IH by lia. destruct (dsigs oid x); [reflexivity|cbn [length] in H1; lia].
Qed.

Theorem run_sigs_ok : forall ls e oid, Inv e -> ok_sigs (dsigs oid (concat (snd (ep_run e ls)))).
Proof.
  induction ls as [|[l u] r IH]; intros e oid I; cbn [ep_run].
  - intros pre s post H. destruct pre; discriminate.
  - pose proof (step_sigs u e l oid I) as [H1 H2]. pose proof (inv_step u e l I) as I1.
    pose proof (run_closed_silent r (fst (ep_step u e l)) oid I1) as Hs.
    destruct (ep_step u e l) as [e1 x]. cbn [fst snd] in *.
    specialize (IH e1 oid I1). destruct (ep_run e1 r) as [e2 xs]. cbn [fst snd concat] in *.
    rewrite dsigs_app. unfold tcount in H2. pose proof (opn_le1 e oid) as Hle.
    destruct (dsigs oid x) as [|s [|s' t]]; cbn [length] in H1; [exact IH| |lia].
    cbn [app filter] in *. intros pre s0 post Heq Hterm. destruct pre as [|p pre].
    + cbn [app] in Heq. injection Heq as <- <-. rewrite Hterm in H2. cbn [length] in H2. apply Hs. lia.
    + cbn [app] in Heq. injection Heq as <- Heq. exact (IH pre s0 post Heq Hterm).
Qed.

(* C07, second sentence, for every history whatsoever *)
Theorem subscriber_terminal_at_most_once first ls oid :
  ok_sigs (dsigs oid (concat (snd (ep_run (ep_init first) ls)))).
Proof. apply run_sigs_ok. apply inv_init. Qed.

(* non-vacuity: a channel requester receiving an element, a completion and then the close sweep — the premise holds
   and the sweep adds nothing after the completion *)
Example sigs_example :
  let ls := [(LReqChannel [] [x01] true, true); (LSubscribe 0 true [] [x01], true);
             (LRecv (FPayload 1 false false false true [] [x02]) ONone, true);
             (LRecv (FPayload 1 false false true false [] []) ONone, true); (LClose, true)] in
  dsigs 0 (concat (snd (ep_run (ep_init 1) ls))) = [SNext [] [x02] false; SComplete].
Proof. vm_compute. reflexivity. Qed.

Example sigs_example2 :
  let ls := [(LReqChannel [] [x01] true, true); (LSubscribe 0 true [] [x01], true);
             (LRecv (FPayload 1 false false false true [] [x02]) ONone, true);
             (LRecv (FPayload 1 false false true false [] []) ONone, true); (LClose, true)] in
  dsigs 0 (concat (snd (ep_run (ep_init 1) ls))) = [SNext [] [x02] false; SComplete].
Proof. vm_compute. reflexivity. Qed.

(* ---------- C09: cancellation ---------- *)
(* a frame for a stream that is gone is dropped without a trace (elements in flight after a cancel) *)
Theorem gone_payload_dropped e sid ign co nx md d o u : gone e sid -> sid <> CONNECTION_STREAM_ID ->
  recv_frame e (FPayload sid ign false co nx md d) o u = (e, []).
Proof.
  intros [Ht Hc] Hs. unfold recv_frame. change (stray_fragment e (FPayload sid ign false co nx md d)) with false.
  change (is_fragmentable (FPayload sid ign false co nx md d)) with true. cbv iota.
  unfold cache_append. cbn [ffollows fsid]. rewrite Hc.
  assert ({| sc := sc e; table := table e; objs := objs e; cachek := cachek e |} = e) as -> by (destruct e; reflexivity).
  unfold recv_dispatch. cbn [fsid]. change (is_request_type (FPayload sid ign false co nx md d)) with false.
  rewrite orb_false_r. destruct (N.eqb_spec sid CONNECTION_STREAM_ID); [congruence|]. rewrite Ht. reflexivity.
Qed.

(* cancelling a stream subscription: exactly one CANCEL, the stream is gone, and in every continuation the canceller's
   subscriber hears nothing more *)
Theorem rs_cancel_silences u e oid o : Inv e -> nth_error (objs e) oid = Some o -> o_kind o = KRSReq ->
  ep_step u e (LCancel oid) = (finish e (o_sid o), [XEnq (f_cancel (o_sid o))]) /\
  forall ls, dsigs oid (concat (snd (ep_run (finish e (o_sid o)) ls))) = [].
Proof.
  intros I Ho Hk. split; [apply cancel_rs_requester; assumption|].
  intros ls. apply run_closed_silent; [apply inv_finish; exact I|apply opn_finish_own; assumption].
Qed.

(* cancelling a request-response: the awaitable is never resolved by the library afterwards; the callback sends
   exactly one CANCEL unless the response got there first *)
Theorem rr_cancel_silences u e oid o : Inv e -> nth_error (objs e) oid = Some o -> o_kind o = KRRReq -> o_fut o = FPending ->
  let e1 := fst (ep_step u e (LFutCancel oid)) in
  (forall ls, futs oid (concat (snd (ep_run e1 ls))) = 0%nat) /\
  (forall r, snd (ep_step u e1 (LFutCb oid r)) = if o_responded o then [] else [XEnq (f_cancel (o_sid o))]).
Proof.
  intros I Ho Hk Hf. cbn [ep_step]. unfold with_obj. rewrite Ho, Hf. cbn [fst].
  assert (oid < length (objs e))%nat as Hl by (apply nth_error_Some; congruence).
  assert (nth_error (objs (set_obj e oid (upd_fut o FCancelled))) oid = Some (upd_fut o FCancelled)) as Hn
    by (cbn; apply nth_oset_same; exact Hl).
  split.
  - intro ls. apply (no_resolution_unless_pending ls _ oid (upd_fut o FCancelled)); [|exact Hn|discriminate].
    eapply inv_set_obj; [exact I|exact Ho|reflexivity].
  - intro r. rewrite Hn. cbn [upd_fut o_kind o_fut o_responded o_sid]. rewrite Hk. destruct (o_responded o); reflexivity.
Qed.

(* the peer's CANCEL reaches the producer: the handler's future / the publisher is cancelled in the same atomic section *)
Theorem cancel_reaches_producer e oid o u : o_has_pub o = true \/ is_chan (o_kind o) = false ->
  snd (fst (handler_frame e oid o (FCancel (o_sid o) false) u)) =
  match o_kind o with
  | KRRResp => match o_fut o with FPending => [XAppFutCancel oid] | _ => [] end
  | KRSResp | KChanReq | KChanResp => [XPub oid PCancelOp]
  | _ => []
  end.
Proof.
  intro H. unfold handler_frame. destruct (o_kind o) eqn:Ek; cbn [is_chan] in H; try reflexivity.
  - destruct (o_fut o); reflexivity.
  - destruct H as [H|H]; [rewrite H; reflexivity|discriminate].
  - destruct H as [H|H]; [rewrite H; reflexivity|discriminate].
Qed.

(* a local cancel touches only its own stream *)
Theorem local_cancel_isolated u e oid o k : nth_error (objs e) oid = Some o -> k <> o_sid o ->
  let e' := fst (ep_step u e (LCancel oid)) in
  tget (table e') k = tget (table e) k /\ cache_get (cachek e') k = cache_get (cachek e) k /\
  (forall j, j <> oid -> nth_error (objs e') j = nth_error (objs e) j).
Proof.
  intros Ho Hk. cbn [ep_step]. unfold with_obj. rewrite Ho.
  assert (o_sid o =? k = false) as Hne by (apply N.eqb_neq; congruence).
  destruct (o_kind o); cbn [fst]; try (repeat split; reflexivity).
  - rewrite finish_table_get, finish_cache_get, Hne. repeat split; reflexivity.
  - destruct (chan_mark_table e oid o false true k Hk) as [A B]. repeat split; try assumption.
    intros j Hj. apply chan_mark_objs. exact Hj.
  - destruct (chan_mark_table e oid o false true k Hk) as [A B]. repeat split; try assumption.
    intros j Hj. apply chan_mark_objs. exact Hj.
Qed.

(* a channel: after cancel() elements still in flight are dropped even though the stream stays registered while the
   own sending direction is open (the defect KF-C09-channel-cancel-inflight, repaired in the repository) *)
Lemma channel_cancel_inflight_dropped :
  snd (recv_frame (fst (ep_step true f16_ep (LCancel 0))) (FPayload 1 false false false true [] [x07]) ONone true) = [].
Proof. vm_compute. reflexivity. Qed.

(* ... for every channel object, in every state: once the receive direction is closed no PAYLOAD signals anything *)
Theorem channel_closed_payload_silent e oid o sid ign fo co nx md d u : is_chan (o_kind o) = true -> o_recv o = true ->
  handler_frame e oid o (FPayload sid ign fo co nx md d) u = (e, [], false).
Proof. intros Hk Hr. unfold handler_frame. destruct (o_kind o); try discriminate Hk; rewrite Hr; reflexivity. Qed.
