(* C06, last clause: credit granted by an application (initial_request_n, Subscription.request) is transmitted to the peer
   with exactly that value.  Followed through model/Network.v: from the application's call on one side, over the link, to
   the request(n) the producer on the other side is given. *)
From Coq Require Import Arith NArith List Bool Lia Init.Byte.
From RSV Require Import gen.GenConst lib.Bytes model.Frame model.Fragmenter model.StreamIds model.Endpoint model.Network
     proofs.EndpointProofs proofs.EndpointWire proofs.NetworkProofs.
Import ListNotations.
Open Scope N_scope.

(* the credit a frame carries *)
Definition credit_of (f : frame) : option N :=
  match f with
  | FRequestStream _ _ _ n _ _ | FRequestChannel _ _ _ _ n _ _ | FRequestN _ _ n => Some n
  | _ => None
  end.

(* request(n) calls on local producers among the effects of a section *)
Definition pub_credits (effs : list effect) : list N :=
  flat_map (fun x => match x with XPub _ (PRequestN n) => [n] | _ => [] end) effs.

Lemma pub_credits_app a b : pub_credits (a ++ b) = pub_credits a ++ pub_credits b.
Proof. apply flat_map_app. Qed.

Lemma credit_on_wire f : credit_of (on_wire f) = credit_of f.
Proof. destruct f; reflexivity. Qed.

(* ---------- emission: the value the application states is the value queued ---------- *)
(* Subscription.request(n): one REQUEST_N frame on the object's stream with exactly n *)
Theorem request_n_emitted u e oid o n : nth_error (objs e) oid = Some o ->
  snd (ep_step u e (LRequestN oid n)) = [XEnq (FRequestN (o_sid o) false n)].
Proof. intro H. cbn [ep_step]. unfold with_obj. rewrite H. reflexivity. Qed.

(* initial_request_n(n), n > 0: recorded in the object, nothing sent, nothing else about the object changes *)
Theorem initial_n_recorded u e oid o n : nth_error (objs e) oid = Some o ->
  let r := ep_step u e (LInitialN oid n true) in
  snd r = [] /\ nth_error (objs (fst r)) oid = Some (upd_n o n) /\ table (fst r) = table e.
Proof.
  intro H. cbn [ep_step]. unfold with_obj. rewrite H. cbn [fst snd]. split; [reflexivity|]. split; [|reflexivity].
  unfold set_obj. cbn [objs]. clear -H. revert oid H. induction (objs e) as [|x l IH]; intros [|i] H; try discriminate H.
  - injection H as ->. reflexivity.
  - cbn [nth_error] in *. apply IH. exact H.
Qed.

(* subscribe: the request frame carries the recorded initial request-n *)
Theorem subscribe_carries_initial_n u e oid o hs md d : nth_error (objs e) oid = Some o ->
  (o_kind o = KRSReq \/ o_kind o = KChanReq) ->
  pmap credit_of (sent_frames (snd (ep_step u e (LSubscribe oid hs md d)))) = [o_n o].
Proof.
  intros H [Hk|Hk]; cbn [ep_step]; unfold with_obj; rewrite H, Hk.
  - reflexivity.
  - destruct hs, (o_has_pub o); reflexivity.
Qed.

(* no other section queues a frame that carries credit: every local section queues none, or it is one of the two above *)
Theorem local_credit u e l : is_recv l = false ->
  pmap credit_of (sent_frames (snd (ep_step u e l))) = [] \/
  (exists oid n, l = LRequestN oid n /\ pmap credit_of (sent_frames (snd (ep_step u e l))) = [n]) \/
  (exists oid hs md d o, l = LSubscribe oid hs md d /\ nth_error (objs e) oid = Some o /\
                         pmap credit_of (sent_frames (snd (ep_step u e l))) = [o_n o]).
Proof.
  intro Hl. destruct l; try discriminate Hl; cbn [ep_step];
    try (destruct (alloc e) as [[sid|] e1]; left; reflexivity);
    try (left; reflexivity).
  all: try (unfold with_obj; destruct (nth_error (objs e) oid) as [ob|] eqn:Ho; [|left; reflexivity]).
  all: try (left;
            repeat match goal with
                   | |- context [match o_kind ?x with _ => _ end] => destruct (o_kind x)
                   | |- context [match o_fut ?x with _ => _ end] => destruct (o_fut x)
                   | |- context [match ?r with ARResult _ _ => _ | ARError => _ | ARCancel => _ end] => destruct r
                   | |- context [if ?b then _ else _] => destruct b
                   end; reflexivity).
  - (* LSubscribe *)
    destruct (o_kind ob) eqn:Hk; try (left; reflexivity).
    + right. right. exists oid, has_sub, md, d, ob. split; [reflexivity|]. split; [exact Ho|]. reflexivity.
    + right. right. exists oid, has_sub, md, d, ob. split; [reflexivity|]. split; [exact Ho|].
      destruct has_sub, (o_has_pub ob); reflexivity.
  - (* LRequestN *)
    right. left. exists oid, n. split; reflexivity.
  - (* LClose *)
    left. pose proof (close_sends_nothing u e) as H. cbn [ep_step] in H. unfold enqs in H. unfold sent_frames. rewrite H. reflexivity.
Qed.

(* ---------- dispatch: the value in the frame is the value the producer is given ---------- *)
Lemma handler_frame_credits e oid o f u :
  pub_credits (snd (fst (handler_frame e oid o f u))) = [] \/
  exists n, credit_of f = Some n /\ pub_credits (snd (fst (handler_frame e oid o f u))) = [n].
Proof.
  unfold handler_frame.
  destruct (o_kind o); destruct f; cbn [fst snd pub_credits flat_map credit_of]; try (left; reflexivity);
    crush_ifs; cbn [fst snd pub_credits flat_map app];
    first [left; reflexivity | right; eexists; split; reflexivity].
Qed.

Lemma open_responder_credits e f o :
  pub_credits (snd (open_responder e f o)) = [] \/
  exists n, credit_of f = Some n /\ pub_credits (snd (open_responder e f o)) = [n].
Proof.
  unfold open_responder. destruct f; destruct o; cbn [snd pub_credits flat_map credit_of app]; try (left; reflexivity);
    try (right; eexists; split; reflexivity).
  destruct has_sub, has_pub, complete; cbn [snd pub_credits flat_map app fst];
    first [left; reflexivity | right; eexists; split; reflexivity].
Qed.

Theorem dispatch_credit e f o u :
  pub_credits (snd (recv_dispatch e f o u)) = [] \/
  exists n, credit_of f = Some n /\ pub_credits (snd (recv_dispatch e f o u)) = [n].
Proof.
  unfold recv_dispatch, raised_error.
  destruct ((fsid f =? CONNECTION_STREAM_ID) || is_request_type f).
  - destruct f; cbn [snd pub_credits flat_map app credit_of fsid]; try (left; reflexivity).
    + destruct respond; left; reflexivity.
    + destruct (tget (table e) sid); cbn [snd pub_credits flat_map app]; [left; reflexivity|].
      destruct (default_outcome _ o) eqn:Eo; cbn [snd pub_credits flat_map app]; try (left; reflexivity);
        destruct (sid =? CONNECTION_STREAM_ID); cbn [snd pub_credits flat_map app]; try (left; reflexivity);
        apply (open_responder_credits e (FRequestResponse sid ign follows md d)).
    + destruct (tget (table e) sid); cbn [snd pub_credits flat_map app]; [left; reflexivity|].
      destruct (default_outcome _ o); left; reflexivity.
    + destruct (tget (table e) sid); cbn [snd pub_credits flat_map app]; [left; reflexivity|].
      destruct (default_outcome _ o) eqn:Eo; cbn [snd pub_credits flat_map app]; try (left; reflexivity);
        destruct (sid =? CONNECTION_STREAM_ID); cbn [snd pub_credits flat_map app]; try (left; reflexivity);
        apply (open_responder_credits e (FRequestStream sid ign follows n md d)).
    + destruct (tget (table e) sid); cbn [snd pub_credits flat_map app]; [left; reflexivity|].
      destruct (default_outcome _ o) eqn:Eo; cbn [snd pub_credits flat_map app]; try (left; reflexivity);
        destruct (sid =? CONNECTION_STREAM_ID); cbn [snd pub_credits flat_map app]; try (left; reflexivity);
        apply (open_responder_credits e (FRequestChannel sid ign follows complete n md d)).
    + destruct (default_outcome _ o); left; reflexivity.
    + destruct (default_outcome _ o); left; reflexivity.
  - destruct (tget (table e) (fsid f)) as [j|]; [|left; reflexivity].
    destruct (nth_error (objs e) j) as [ob|]; [|left; reflexivity].
    pose proof (handler_frame_credits e j ob f u) as H. destruct (handler_frame e j ob f u) as [[e' effs] raised].
    cbn [fst snd] in *. rewrite pub_credits_app.
    assert (pub_credits (if raised then [XEnq (f_error (fsid f) EC_APPLICATION_ERROR [])] else []) = []) as ->
      by (destruct raised; reflexivity).
    rewrite app_nil_r. exact H.
Qed.

(* a REQUEST_N for a stream whose object has a producer reaches it with the frame's value *)
Theorem request_n_delivered e sid oid ob ign n o u :
  sid <> 0 -> tget (table e) sid = Some oid -> nth_error (objs e) oid = Some ob ->
  (o_kind ob = KRSResp \/ ((o_kind ob = KChanReq \/ o_kind ob = KChanResp) /\ o_has_pub ob = true)) ->
  snd (recv_dispatch e (FRequestN sid ign n) o u) = [XPub oid (PRequestN n)].
Proof.
  intros Hs Ht Ho Hk. unfold recv_dispatch. cbn [fsid].
  change (is_request_type (FRequestN sid ign n)) with false. rewrite orb_false_r.
  change CONNECTION_STREAM_ID with 0. destruct (N.eqb_spec sid 0) as [E|_]; [contradiction|].
  rewrite Ht, Ho. unfold handler_frame.
  destruct Hk as [Hk|[[Hk|Hk] Hp]]; rewrite Hk; try rewrite Hp; reflexivity.
Qed.

(* a REQUEST_STREAM on a free id whose handler returns: the publisher is subscribed and given the frame's initial n *)
Theorem initial_n_delivered e sid ign fo n md d o u :
  sid <> 0 -> tget (table e) sid = None -> o <> ORaise ->
  pub_credits (snd (recv_dispatch e (FRequestStream sid ign fo n md d) o u)) = [n].
Proof.
  intros Hs Ht Ho. unfold recv_dispatch. cbn [fsid].
  change (is_request_type (FRequestStream sid ign fo n md d)) with true. rewrite orb_true_r. rewrite Ht.
  change CONNECTION_STREAM_ID with 0. destruct (N.eqb_spec sid 0) as [E|_]; [contradiction|].
  destruct o; try contradiction; reflexivity.
Qed.

(* ---------- over whole histories ---------- *)
(* request(n) calls the producers at s were given for stream k, in order *)
Fixpoint credits_got (tr : list nevent) (s : side) (k : N) : list N :=
  match tr with
  | [] => []
  | EvDeliver s' f effs :: r => (if side_eqb s' s && (fsid f =? k) then pub_credits effs else []) ++ credits_got r s k
  | EvLocal s' _ effs :: r => (if side_eqb s' s then pub_credits effs else []) ++ credits_got r s k
  end.

Lemma credits_got_app a b s k : credits_got (a ++ b) s k = credits_got a s k ++ credits_got b s k.
Proof. induction a as [|x a IH]; [reflexivity|]. destruct x; cbn [credits_got app]; rewrite IH, app_assoc; reflexivity. Qed.

(* a local section calls request(n) on no producer *)
Lemma close_one_credits e sid oid : pub_credits (snd (close_one e sid oid)) = [].
Proof.
  unfold close_one. destruct (nth_error (objs e) oid) as [ob|]; [|reflexivity].
  destruct (is_requester (o_kind ob)) eqn:Er.
  - unfold handler_frame, f_error.
    destruct (o_kind ob); try discriminate Er; cbn [fst snd];
      crush_ifs; cbn [fst snd];
      repeat match goal with
             | |- context [nth_error ?l ?i] => destruct (nth_error l i)
             | |- context [match o_kind ?x with _ => _ end] => destruct (o_kind x)
             | |- context [match o_fut ?x with _ => _ end] => destruct (o_fut x)
             | |- context [if ?b then _ else _] => destruct b
             end; reflexivity.
  - cbn [fst snd].
    repeat match goal with
           | |- context [match o_kind ?x with _ => _ end] => destruct (o_kind x)
           | |- context [match o_fut ?x with _ => _ end] => destruct (o_fut x)
           | |- context [if ?b then _ else _] => destruct b
           end; reflexivity.
Qed.

Lemma close_all_credits : forall entries e, pub_credits (snd (close_all e entries)) = [].
Proof.
  induction entries as [|[sid oid] r IH]; intro e; [reflexivity|]. cbn [close_all].
  pose proof (close_one_credits e sid oid) as H1. destruct (close_one e sid oid) as [e1 x1].
  pose proof (IH e1) as H2. destruct (close_all e1 r) as [e2 x2]. cbn [snd] in *. rewrite pub_credits_app, H1, H2. reflexivity.
Qed.

Theorem local_no_credits u e l : is_recv l = false -> pub_credits (snd (ep_step u e l)) = [].
Proof.
  intro Hl. destruct l; try discriminate Hl; cbn [ep_step];
    try (destruct (alloc e) as [[sid|] e1]; reflexivity);
    try (unfold with_obj; destruct (nth_error (objs e) oid) as [ob|]; [|reflexivity];
         repeat match goal with
                | |- context [match o_kind ?x with _ => _ end] => destruct (o_kind x)
                | |- context [match o_fut ?x with _ => _ end] => destruct (o_fut x)
                | |- context [match ?r with ARResult _ _ => _ | ARError => _ | ARCancel => _ end] => destruct r
                | |- context [if ?b then _ else _] => destruct b
                end; cbn [snd fst pub_credits flat_map app]; reflexivity).
  apply close_all_credits.
Qed.

Lemma step_credits n l n' x s k : net_step n l = (n', x) ->
  subseq (credits_got x s k) (pmap credit_of (on_stream k (delivered x s))).
Proof.
  intro H. destruct l as [s0 l|s0 k0 o u]; cbn [net_step] in H.
  - destruct (is_recv l) eqn:Hl.
    + injection H as <- <-. constructor.
    + pose proof (local_no_credits true (ep_of n s0) l Hl) as Hp.
      destruct (ep_step true (ep_of n s0) l) as [e' effs]. injection H as <- <-. cbn [snd] in Hp.
      cbn [credits_got delivered]. rewrite Hp. destruct (side_eqb s0 s); constructor.
  - destruct (pop (inbox n s0) k0) as [[f rest]|] eqn:Hp; [|injection H as <- <-; constructor].
    pose proof (dispatch_credit (ep_of n s0) f o u) as Hd.
    destruct (recv_dispatch (ep_of n s0) f o u) as [e' effs]. injection H as <- <-. cbn [snd] in Hd.
    cbn [credits_got delivered]. rewrite !app_nil_r.
    destruct (side_eqb s0 s); cbn [andb]; [|constructor].
    cbn [on_stream filter]. destruct (fsid f =? k); [|constructor].
    cbn [pmap]. destruct Hd as [->|[p [-> ->]]]; [constructor|]. apply subseq_refl.
Qed.

Lemma run_credits : forall ls n n' tr s k, net_run n ls = (n', tr) ->
  subseq (credits_got tr s k) (pmap credit_of (on_stream k (delivered tr s))).
Proof.
  induction ls as [|l ls IH]; intros n n' tr s k H; cbn [net_run] in H.
  - injection H as <- <-. constructor.
  - destruct (net_step n l) as [n1 x] eqn:Hs. destruct (net_run n1 ls) as [n2 xs] eqn:Hr. injection H as <- <-.
    rewrite credits_got_app, delivered_app, on_stream_app, pmap_app.
    apply subseq_app; [eapply step_credits; exact Hs|eapply IH; exact Hr].
Qed.

(* For EVERY history of the two endpoints, each side s and stream k: the request(n) calls the producers at s are given
   for stream k are, in order and without repetition, the credit values of the frames the peer queued on k (the initial
   request-n of the request frame, then each REQUEST_N) — no value altered, merged, split, invented, repeated or taken
   from another stream. *)
Theorem network_credit ls s k :
  let tr := snd (net_run net_init ls) in
  subseq (credits_got tr s k) (pmap credit_of (on_stream k (nwire tr (other s)))).
Proof.
  cbn zeta. destruct (net_run net_init ls) as [n' tr] eqn:H. cbn [snd].
  pose proof (run_link ls net_init n' tr H s k) as L.
  assert (on_stream k (inbox net_init s) = []) as E by (destruct s; reflexivity). rewrite E in L. cbn [app] in L.
  rewrite L, pmap_app. apply subseq_app_r. eapply run_credits. exact H.
Qed.

(* non-vacuity: B requests a stream with initial_request_n(2) and later request(3); A's publisher is given 2, then 3 *)
Lemma credit_example :
  let ls := [NLocal SB (LReqStream [x03] [x04]); NLocal SB (LInitialN 0%nat 2 true);
             NLocal SB (LSubscribe 0%nat true [x03] [x04]);
             NDeliver SA 2 OPublisher true;
             NLocal SB (LRequestN 0%nat 3);
             NDeliver SA 2 ONone true] in
  let tr := snd (net_run net_init ls) in
  credits_got tr SA 2 = [2; 3] /\ pmap credit_of (on_stream 2 (nwire tr SB)) = [2; 3].
Proof. vm_compute. split; reflexivity. Qed.
