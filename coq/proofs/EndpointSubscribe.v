(* C07: on_subscribe comes first — the first signal a subscriber ever receives is on_subscribe, over all histories. *)
From Coq Require Import Arith NArith List Bool Lia Init.Byte.
From RSV Require Import gen.GenConst lib.Bytes model.Frame model.Fragmenter model.StreamIds model.Endpoint
     proofs.SendQueueProofs proofs.EndpointProofs proofs.EndpointSignals.
Import ListNotations.
Open Scope N_scope.

Fixpoint sigs (oid : nat) (effs : list effect) : list signal :=
  match effs with
  | [] => []
  | XCb j s :: r => (if Nat.eqb j oid then [s] else []) ++ sigs oid r
  | _ :: r => sigs oid r
  end.

Lemma sigs_app oid a b : sigs oid (a ++ b) = sigs oid a ++ sigs oid b.
Proof. induction a as [|x a IH]; [reflexivity|]. destruct x; cbn [app sigs]; rewrite ?IH, ?app_assoc; reflexivity. Qed.

Definition has_subb (e : ep) (oid : nat) : bool :=
  match nth_error (objs e) oid with Some o => o_has_sub o | None => false end.

(* [quiet]: nothing was signalled and the object still has no subscriber; [subscribed]: the first signal is on_subscribe *)
Definition first_ok (oid : nat) (e' : ep) (effs : list effect) : Prop :=
  (sigs oid effs = [] /\ has_subb e' oid = false) \/ exists rest, sigs oid effs = SSubscribe :: rest.

Lemma has_subb_finish e s oid : has_subb (finish e s) oid = has_subb e oid.
Proof. reflexivity. Qed.
Lemma has_subb_finish_table e s oid : has_subb (finish_table e s) oid = has_subb e oid.
Proof. reflexivity. Qed.

Lemma has_subb_set e j o oid : (j < length (objs e))%nat ->
  has_subb (set_obj e j o) oid = if Nat.eqb j oid then o_has_sub o else has_subb e oid.
Proof.
  intro Hl. unfold has_subb. cbn [set_obj objs]. destruct (Nat.eqb_spec j oid) as [->|Hne].
  - rewrite nth_oset_same by exact Hl. reflexivity.
  - rewrite nth_oset_other by exact Hne. reflexivity.
Qed.

Lemma has_subb_chan_mark e j o s r oid : nth_error (objs e) j = Some o ->
  has_subb (chan_mark e j o s r) oid = has_subb e oid.
Proof.
  intro Ho. assert (j < length (objs e))%nat as Hl by (apply nth_error_Some; congruence).
  unfold chan_mark. destruct (_ && _); rewrite ?has_subb_finish, has_subb_set by exact Hl;
    (destruct (Nat.eqb_spec j oid) as [->|Hne]; [unfold has_subb; rewrite Ho; reflexivity|reflexivity]).
Qed.

Lemma handler_frame_first e j o f u oid : nth_error (objs e) j = Some o -> has_subb e oid = false ->
  sigs oid (snd (fst (handler_frame e j o f u))) = [] /\ has_subb (fst (fst (handler_frame e j o f u))) oid = false.
Proof.
  intros Ho Hs. assert (j < length (objs e))%nat as Hl by (apply nth_error_Some; congruence).
  assert (Nat.eqb j oid = true -> o_has_sub o = false) as Hown.
  { intro E. apply Nat.eqb_eq in E. subst j. unfold has_subb in Hs. rewrite Ho in Hs. exact Hs. }
  unfold handler_frame.
  destruct (o_kind o); destruct f; cbn [fst snd sigs]; try (split; [reflexivity|exact Hs]);
    repeat match goal with
           | |- context [match o_fut o with _ => _ end] => destruct (o_fut o)
           | |- context [if ?b then _ else _] => destruct b eqn:?
           end; cbn [fst snd sigs app];
    rewrite ?has_subb_finish, ?has_subb_chan_mark, ?has_subb_set by assumption;
    cbn [upd_fut upd_responded o_has_sub];
    try (split; [reflexivity|try exact Hs]);
    try (destruct (Nat.eqb j oid) eqn:E; [try (rewrite (Hown eq_refl) in *; cbn in *; try discriminate)|]);
    try (split; [reflexivity|]); try exact Hs; try reflexivity; try (apply Hown; reflexivity);
    try (rewrite (Hown eq_refl) in *; cbn [negb andb orb] in *; discriminate).
Qed.

Lemma has_subb_old e e' oid : (oid < length (objs e))%nat ->
  (forall j, (j < length (objs e))%nat -> nth_error (objs e') j = nth_error (objs e) j) -> has_subb e' oid = has_subb e oid.
Proof. intros Hl H. unfold has_subb. rewrite H by exact Hl. reflexivity. Qed.

Lemma sigs_other j oid s : j <> oid -> sigs oid [XCb j s] = [].
Proof. intro H. cbn [sigs]. apply Nat.eqb_neq in H. rewrite H. reflexivity. Qed.

Lemma has_subb_register e sid o oid : ~ (oid < length (objs e))%nat ->
  has_subb (register_obj e sid o) oid = if Nat.eqb oid (length (objs e)) then o_has_sub o else false.
Proof.
  intro Hl. unfold has_subb, register_obj. cbn [objs]. destruct (Nat.eqb_spec oid (length (objs e))) as [->|Hne].
  - rewrite nth_error_app2 by lia. rewrite Nat.sub_diag. reflexivity.
  - assert (nth_error (objs e ++ [o]) oid = None) as -> by (apply nth_error_None; rewrite app_length; cbn [length]; lia). reflexivity.
Qed.

Lemma has_subb_register_old e sid o oid : (oid < length (objs e))%nat ->
  has_subb (register_obj e sid o) oid = has_subb e oid.
Proof.
  intro Hl. unfold has_subb. destruct (register_obj_spec e sid o 0) as (_ & _ & C & _). rewrite C by exact Hl. reflexivity.
Qed.

Lemma open_responder_first e f o oid : Inv e -> has_subb e oid = false ->
  first_ok oid (fst (open_responder e f o)) (snd (open_responder e f o)).
Proof.
  intros I Hs. unfold first_ok.
  destruct (lt_dec oid (length (objs e))) as [Hl|Hl].
  - (* an existing object: nothing for it, untouched *)
    left. split.
    + unfold open_responder. destruct f; destruct o; cbn [snd sigs]; try reflexivity;
        assert (Nat.eqb (length (objs e)) oid = false) as En by (apply Nat.eqb_neq; lia);
        try (rewrite En; reflexivity).
      destruct has_sub, has_pub, complete; cbn [snd sigs app]; rewrite ?En; reflexivity.
    + rewrite <- Hs. apply has_subb_old; [exact Hl|]. intros j Hj. apply open_responder_old_objs. exact Hj.
  - (* the object being created, or a later one *)
    unfold open_responder.
    destruct f; destruct o; cbn [fst snd sigs]; try (left; split; [reflexivity|exact Hs]).
    + (* request-response responder: has_sub false *)
      left. split; [reflexivity|]. rewrite has_subb_register by exact Hl. destruct (Nat.eqb _ _); reflexivity.
    + (* request-stream responder *)
      left. destruct (Nat.eqb (length (objs e)) oid); cbn [app sigs];
        (split; [reflexivity|]); rewrite has_subb_register by exact Hl; destruct (Nat.eqb _ _); reflexivity.
    + (* request-channel responder *)
      cbn [fsid].
      set (ob := upd_sub (mk_obj KChanResp sid) has_pub has_sub).
      set (n0 := length (objs e)).
      assert (nth_error (objs (register_obj e sid ob)) n0 = Some ob) as Hn by (apply (register_obj_spec e sid ob 0)).
      assert (n0 < length (objs (register_obj e sid ob)))%nat as Hl0 by (apply nth_error_Some; congruence).
      assert (forall e0 o0 s r, (n0 < length (objs e0))%nat -> nth_error (objs (chan_mark e0 n0 o0 s r)) n0 = Some (upd_marks o0 s r)) as N
        by (intros; apply chan_mark_nth; assumption).
      destruct (Nat.eq_dec n0 oid) as [E|Hne].
      * subst oid. destruct has_sub.
        -- right. destruct has_pub, complete; cbn [fst snd sigs app]; rewrite ?Nat.eqb_refl; cbn [app]; eexists; reflexivity.
        -- left. destruct has_pub, complete; cbn [fst snd sigs app]; rewrite ?Nat.eqb_refl; (split; [reflexivity|]);
             unfold has_subb;
             repeat first [ rewrite N by (rewrite ?chan_mark_length; exact Hl0)
                          | rewrite Hn ]; reflexivity.
      * assert (Nat.eqb n0 oid = false) as En by (apply Nat.eqb_neq; exact Hne).
        left. split; [destruct has_sub, has_pub, complete; cbn [fst snd sigs app]; rewrite ?En; reflexivity|].
        assert (nth_error (objs (register_obj e sid ob)) oid = None) as Hnone.
        { unfold register_obj. cbn [objs]. apply nth_error_None. rewrite app_length. cbn [length]. fold n0. lia. }
        assert (forall e0 o0 s r, nth_error (objs e0) oid = None -> nth_error (objs (chan_mark e0 n0 o0 s r)) oid = None) as Hk
          by (intros e0 o0 s r H0; rewrite chan_mark_objs by congruence; exact H0).
        assert (forall e0, nth_error (objs e0) oid = None -> has_subb e0 oid = false) as Hz
          by (intros e0 H0; unfold has_subb; rewrite H0; reflexivity).
        destruct has_sub, has_pub, complete; cbn [fst]; apply Hz; repeat apply Hk; exact Hnone.
Qed.

Lemma first_ok_quiet oid e' : has_subb e' oid = false -> first_ok oid e' [].
Proof. intro H. left. split; [reflexivity|exact H]. Qed.

Lemma sigs_enq oid effs g : sigs oid (effs ++ [XEnq g]) = sigs oid effs.
Proof. rewrite sigs_app. cbn [sigs]. apply app_nil_r. Qed.

Lemma recv_dispatch_first e f o u oid : Inv e -> has_subb e oid = false ->
  first_ok oid (fst (recv_dispatch e f o u)) (snd (recv_dispatch e f o u)).
Proof.
  intros I Hs. unfold recv_dispatch, raised_error.
  assert (forall effs, sigs oid effs = [] -> first_ok oid e effs) as Q by (intros effs H; left; split; [exact H|exact Hs]).
  destruct ((fsid f =? CONNECTION_STREAM_ID) || is_request_type f).
  - destruct f; cbn [fst snd]; try (apply Q; reflexivity);
      try (destruct (tget (table e) _); cbn [fst snd]; [apply Q; reflexivity|]);
      try (destruct (default_outcome _ o); cbn [fst snd]; try (apply Q; reflexivity));
      try (destruct (_ =? CONNECTION_STREAM_ID); cbn [fst snd]; try (apply Q; reflexivity));
      try (apply open_responder_first; assumption).
    all: try (destruct respond; apply Q; reflexivity).
  - destruct (tget (table e) (fsid f)) as [j|] eqn:Et; [|apply Q; reflexivity].
    destruct (inv_WF e I _ _ Et) as (ob & Hob & _). rewrite Hob.
    pose proof (handler_frame_first e j ob f u oid Hob Hs) as [H1 H2].
    destruct (handler_frame e j ob f u) as [[e' effs] raised]. cbn [fst snd] in *.
    left. split; [|exact H2]. destruct raised; rewrite ?sigs_enq, ?app_nil_r; exact H1.
Qed.

Lemma recv_frame_first e f o u oid : Inv e -> has_subb e oid = false ->
  first_ok oid (fst (recv_frame e f o u)) (snd (recv_frame e f o u)).
Proof.
  intros I Hs. unfold recv_frame. destruct (stray_fragment e f); [apply first_ok_quiet; exact Hs|].
  destruct (is_fragmentable f); [|apply recv_dispatch_first; assumption].
  pose proof (cache_append_spec (cachek e) f (inv_cwf e I)) as [Hc _].
  destruct (cache_append (cachek e) f) as [c' a]. cbn [fst] in Hc.
  set (e1 := {| sc := sc e; table := table e; objs := objs e; cachek := c' |}).
  assert (Inv e1) as I1 by (destruct I as [K O C]; constructor; assumption).
  destruct a; unfold raised_error; cbn [fst snd].
  - apply (recv_dispatch_first e1 f0 o u oid I1 Hs).
  - apply (first_ok_quiet oid e1). exact Hs.
  - left. split; [reflexivity|exact Hs].
Qed.

Lemma close_one_first e sid j oid : has_subb e oid = false ->
  sigs oid (snd (close_one e sid j)) = [] /\ has_subb (fst (close_one e sid j)) oid = false.
Proof.
  intro Hs. unfold close_one. destruct (nth_error (objs e) j) as [ob|] eqn:Ho; [|split; [reflexivity|exact Hs]].
  set (r1 := if is_requester (o_kind ob) then _ else _).
  assert (sigs oid (snd r1) = [] /\ has_subb (fst r1) oid = false) as [H1 H2].
  { unfold r1. destruct (is_requester (o_kind ob)); [|split; [reflexivity|exact Hs]].
    pose proof (handler_frame_first e j ob (f_error sid EC_CONNECTION_ERROR []) true oid Ho Hs) as H.
    destruct (handler_frame e j ob _ true) as [[e' effs] r]. exact H. }
  destruct r1 as [e1 eff1]. cbn [fst snd] in *.
  set (ob1 := match nth_error (objs e1) j with Some x => x | None => ob end).
  destruct (o_kind ob1) eqn:Ek; cbn [fst snd]; rewrite ?sigs_app, ?H1, ?has_subb_finish_table; cbn [sigs app];
    try (split; [reflexivity|exact H2]).
  - destruct (o_fut ob1); cbn [fst snd]; rewrite ?sigs_app, ?H1, ?has_subb_finish_table; cbn [sigs app];
      try (split; [reflexivity|exact H2]).
    split; [reflexivity|]. unfold has_subb in *. cbn [set_obj objs]. unfold ob1.
    destruct (Nat.eq_dec j oid) as [->|Hne]; [|rewrite nth_oset_other by exact Hne; exact H2].
    destruct (nth_error (objs e1) oid) as [x|] eqn:Hx.
    + rewrite nth_oset_same by (apply nth_error_Some; congruence). exact H2.
    + assert (nth_error (oset (objs e1) oid (upd_fut ob FCancelled)) oid = None) as ->
        by (apply nth_error_None; rewrite oset_length; apply nth_error_None; exact Hx). reflexivity.
  - destruct (o_has_pub ob1); cbn [sigs app]; split; try reflexivity; exact H2.
  - destruct (o_has_pub ob1); cbn [sigs app]; split; try reflexivity; exact H2.
Qed.

Lemma close_all_first : forall entries e oid, has_subb e oid = false ->
  sigs oid (snd (close_all e entries)) = [] /\ has_subb (fst (close_all e entries)) oid = false.
Proof.
  induction entries as [|[sid j] r IH]; intros e oid Hs; cbn [close_all]; [split; [reflexivity|exact Hs]|].
  pose proof (close_one_first e sid j oid Hs) as [H1 H2]. destruct (close_one e sid j) as [e1 x1]. cbn [fst snd] in *.
  specialize (IH e1 oid H2). destruct (close_all e1 r) as [e2 x2]. cbn [fst snd] in *. destruct IH as [I1 I2].
  rewrite sigs_app, H1, I1. split; [reflexivity|exact I2].
Qed.

Theorem step_first u e l oid : Inv e -> has_subb e oid = false ->
  first_ok oid (fst (ep_step u e l)) (snd (ep_step u e l)).
Proof.
  intros I Hs.
  assert (forall e' effs, sigs oid effs = [] -> has_subb e' oid = false -> first_ok oid e' effs) as Q
    by (intros e' effs H1 H2; left; split; assumption).
  destruct l; cbn [ep_step];
    try (pose proof (inv_alloc e I) as Ia; unfold alloc in *; destruct (allocate (sc e)) as [[sid|] s']; cbn [fst snd] in *;
         [|cbn [fst snd]; apply Q; [reflexivity|exact Hs]]);
    try (unfold with_obj; destruct (nth_error (objs e) oid0) as [ob|] eqn:Ho; [|cbn [fst snd]; apply Q; [reflexivity|exact Hs]]);
    try (assert (oid0 < length (objs e))%nat as Hl0 by (apply nth_error_Some; congruence)).
  - (* request_response *) cbn [fst snd]; apply Q; [reflexivity|].
    destruct (lt_dec oid (length (objs e))) as [Hl|Hl].
    + rewrite has_subb_register_old by (cbn [objs]; exact Hl). exact Hs.
    + rewrite has_subb_register by (cbn [objs]; exact Hl). cbn [objs]. destruct (Nat.eqb _ _); reflexivity.
  - cbn [fst snd]; apply Q; [reflexivity|].
    destruct (lt_dec oid (length (objs e))) as [Hl|Hl].
    + rewrite has_subb_register_old by (cbn [objs]; exact Hl). exact Hs.
    + rewrite has_subb_register by (cbn [objs]; exact Hl). cbn [objs]. destruct (Nat.eqb _ _); reflexivity.
  - cbn [fst snd]; apply Q; [reflexivity|].
    destruct (lt_dec oid (length (objs e))) as [Hl|Hl].
    + rewrite has_subb_register_old by (cbn [objs]; exact Hl). exact Hs.
    + rewrite has_subb_register by (cbn [objs]; exact Hl). cbn [objs]. destruct (Nat.eqb _ _); reflexivity.
  - (* initial_request_n *)
    destruct positive; (cbn [fst snd]; apply Q; [reflexivity|]); rewrite ?has_subb_finish, ?has_subb_set by exact Hl0; try exact Hs.
    destruct (Nat.eqb_spec oid0 oid) as [->|_]; [|exact Hs]. unfold has_subb in Hs. rewrite Ho in Hs. exact Hs.
  - (* subscribe *)
    destruct (o_kind ob) eqn:Ek; try (cbn [fst snd]; apply Q; [reflexivity|exact Hs]).
    + cbn [fst snd sigs]. destruct (Nat.eqb_spec oid0 oid) as [->|Hne].
      * unfold first_ok. right. cbn [sigs]. rewrite Nat.eqb_refl. cbn [app]. eexists. reflexivity.
      * unfold first_ok. left. cbn [sigs]. split; [apply Nat.eqb_neq in Hne; rewrite Hne; reflexivity|]. rewrite has_subb_set by exact Hl0. apply Nat.eqb_neq in Hne. rewrite Hne. exact Hs.
    + set (o1 := upd_sub ob (o_has_pub ob) has_sub).
      assert (nth_error (objs (set_obj e oid0 o1)) oid0 = Some o1) as Hn by (cbn; apply nth_oset_same; exact Hl0).
      assert (forall s r, nth_error (objs (chan_mark (set_obj e oid0 o1) oid0 o1 s r)) oid0 = Some (upd_marks o1 s r)) as Hn2
        by (intros; apply chan_mark_nth; cbn; rewrite oset_length; exact Hl0).
      destruct (Nat.eqb_spec oid0 oid) as [->|Hne].
      * destruct has_sub.
        -- unfold first_ok. right. destruct (o_has_pub ob); cbn [fst snd sigs app]; rewrite ?Nat.eqb_refl; cbn [app]; eexists; reflexivity.
        -- unfold first_ok. left. destruct (o_has_pub ob) eqn:Ep; cbn [fst snd sigs app]; (split; [reflexivity|]);
             rewrite ?has_subb_chan_mark by (first [exact Hn | apply Hn2]); rewrite has_subb_set by exact Hl0;
             rewrite Nat.eqb_refl; reflexivity.
      * apply Nat.eqb_neq in Hne.
        unfold first_ok. left. split; [destruct has_sub, (o_has_pub ob); cbn [fst snd sigs app]; rewrite ?Hne; reflexivity|].
        destruct has_sub, (o_has_pub ob); cbn [fst];
          rewrite ?has_subb_chan_mark by (first [exact Hn | apply Hn2]); rewrite has_subb_set by exact Hl0; rewrite Hne; exact Hs.
  - (* fnf *) cbn [fst snd]; apply Q; [reflexivity|]. exact Hs.
  - cbn [fst snd]; apply Q; [reflexivity|exact Hs].
  - cbn [fst snd]; apply Q; [reflexivity|exact Hs].
  - (* cancel *) destruct (o_kind ob); (cbn [fst snd]; apply Q; [reflexivity|]); rewrite ?has_subb_finish, ?has_subb_chan_mark by exact Ho; exact Hs.
  - (* future cancel *)
    destruct (o_fut ob); (cbn [fst snd]; apply Q; [reflexivity|]); try exact Hs. rewrite has_subb_set by exact Hl0.
    destruct (Nat.eqb_spec oid0 oid) as [->|_]; [|exact Hs]. unfold has_subb in Hs. rewrite Ho in Hs. exact Hs.
  - destruct (o_kind ob), (o_fut ob); (cbn [fst snd]; apply Q; [reflexivity|]); try exact Hs. rewrite has_subb_set by exact Hl0.
    destruct (Nat.eqb_spec oid0 oid) as [->|_]; [|exact Hs]. unfold has_subb in Hs. rewrite Ho in Hs. exact Hs.
  - destruct (o_kind ob); try (cbn [fst snd]; apply Q; [reflexivity|exact Hs]); destruct complete; (cbn [fst snd]; apply Q; [reflexivity|]);
      rewrite ?has_subb_finish, ?has_subb_chan_mark by exact Ho; exact Hs.
  - destruct (o_kind ob); (cbn [fst snd]; apply Q; [reflexivity|]); rewrite ?has_subb_finish, ?has_subb_chan_mark by exact Ho; exact Hs.
  - destruct (o_kind ob); (cbn [fst snd]; apply Q; [reflexivity|]); rewrite ?has_subb_finish, ?has_subb_chan_mark by exact Ho; exact Hs.
  - destruct (o_kind ob); try (cbn [fst snd]; apply Q; [reflexivity|exact Hs]).
    + destruct (o_fut ob); try (cbn [fst snd]; apply Q; [reflexivity|exact Hs]). destruct (o_responded ob); (cbn [fst snd]; apply Q; [reflexivity|]);
        rewrite ?has_subb_finish; exact Hs.
    + destruct r; (cbn [fst snd]; apply Q; [reflexivity|]); rewrite has_subb_finish; exact Hs.
  - apply recv_frame_first; assumption.
  - destruct (close_all_first (rev (table e)) e oid Hs) as [H1 H2]. apply Q; assumption.
Qed.

(* over EVERY history: the first signal a subscriber is ever given is on_subscribe *)
Theorem run_first : forall ls e oid, Inv e -> has_subb e oid = false ->
  match sigs oid (concat (snd (ep_run e ls))) with [] => True | s :: _ => s = SSubscribe end.
Proof.
  induction ls as [|[l u] r IH]; intros e oid I Hs; cbn [ep_run]; [exact Logic.I|].
  pose proof (step_first u e l oid I Hs) as H1. pose proof (inv_step u e l I) as I1.
  destruct (ep_step u e l) as [e1 x]. cbn [fst snd] in *.
  specialize (IH e1 oid I1). destruct (ep_run e1 r) as [e2 xs]. cbn [fst snd concat] in *. rewrite sigs_app.
  destruct H1 as [[Hx Hq]|[rest Hx]]; rewrite Hx; [cbn [app]; apply IH; exact Hq|reflexivity].
Qed.

Theorem on_subscribe_comes_first first ls oid :
  match sigs oid (concat (snd (ep_run (ep_init first) ls))) with [] => True | s :: _ => s = SSubscribe end.
Proof. apply run_first; [apply inv_init|]. unfold has_subb. cbn. destruct oid; reflexivity. Qed.
