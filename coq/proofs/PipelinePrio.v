(* C01 / C05 with priority frames in the history.  send_priority_frame puts a frame (SETUP, on stream 0) in front of
   everything queued; the per-stream theorems of proofs/SendQueueProofs.v and the end-to-end theorem of
   proofs/PipelineProofs.v exclude such histories (no_prio).  Here: a priority frame on ANOTHER stream changes nothing for
   stream k, so both theorems hold for every stream no priority frame is queued on — in particular for every stream other
   than 0 on a client that connects (and reconnects) while requests are being made.  Only what is still queued for
   stream k itself has to be written for the conclusion about k. *)
From Coq Require Import ZArith NArith List Bool Lia ZifyBool ZifyN Init.Byte.
From RSV Require Import gen.GenConst lib.Bytes model.Frame model.Fragmenter model.SendQueue model.Parser model.Pipeline
     proofs.FrameProofs proofs.FragmenterProofs proofs.ParserProofs proofs.SendQueueProofs proofs.EndpointProofs proofs.PipelineProofs.
Import ListNotations.
Open Scope N_scope.

Definition prio_off (k : N) (ls : list qlabel) : Prop :=
  Forall (fun l => match l with QPrio f => fsid f <> k | _ => True end) ls.

Lemma no_prio_off k ls : no_prio ls -> prio_off k ls.
Proof. intro H. eapply Forall_impl; [|exact H]. intros [f|f|] Hl; [exact I|destruct Hl|exact I]. Qed.

Section Cfg.
  Variable size : option N.
  Variable lenreq : bool.
  Hypothesis Hsize : size_ok size.

  Lemma Q_prio qq f : Q qq -> Q (enq_priority size lenreq qq f).
  Proof.
    intro HQ. destruct (emissions_spec size lenreq Hsize f) as [Hne Hall].
    unfold enq_priority, Q. constructor; [|exact HQ]. cbn. split; assumption.
  Qed.

  Lemma per_stream_gen_prio k : forall ls s, prio_off k ls -> Q (q s) ->
    let s' := fold_left (qstep_with reinsert size lenreq) ls s in
    Q (q s') /\ on k (wire s') ++ pending (q s') k =
                on k (wire s) ++ pending (q s) k ++ concat (map (emissions size lenreq) (on k (enqueued ls))).
  Proof.
    induction ls as [|l r IH]; intros s Hn HQ; cbn [fold_left enqueued].
    - split; [exact HQ|]. cbn. rewrite app_nil_r. reflexivity.
    - inversion Hn as [|? ? Hl Hn']; subst. destruct l as [f|f|].
      + cbn [qstep_with]. destruct (enq_spec size lenreq Hsize (q s) f HQ) as [HQ2 He].
        destruct (IH {| q := enq size lenreq (q s) f; wire := wire s |} Hn' HQ2) as [I1 I2]. split; [exact I1|].
        rewrite I2. cbn [q SendQueue.wire]. rewrite He, on_cons.
        destruct (fsid f =? k); cbn [map concat]; rewrite <- ?app_assoc; rewrite ?app_nil_r; reflexivity.
      + cbn [qstep_with]. pose proof (Q_prio (q s) f HQ) as HQ2.
        destruct (IH {| q := enq_priority size lenreq (q s) f; wire := wire s |} Hn' HQ2) as [I1 I2]. split; [exact I1|].
        rewrite I2. cbn [q SendQueue.wire]. rewrite prio_spec.
        destruct (N.eqb_spec (fsid f) k) as [E|_]; [contradiction|]. reflexivity.
      + cbn [qstep_with]. destruct (send_step_with reinsert (q s)) as [[x q']|] eqn:Es.
        * destruct (send_step_spec (q s) x q' HQ Es) as (HQ2 & P1 & P2).
          destruct (IH {| q := q'; wire := wire s ++ [x] |} Hn' HQ2) as [I1 I2]. split; [exact I1|].
          rewrite I2. cbn [q SendQueue.wire]. rewrite on_app, on_cons.
          destruct (N.eqb_spec (fsid x) k) as [<-|Hk].
          -- rewrite P1. cbn [on filter]. rewrite <- !app_assoc. reflexivity.
          -- rewrite (P2 k) by congruence. cbn [on filter]. rewrite app_nil_r. reflexivity.
        * apply IH; assumption.
  Qed.

  (* per stream, with priority frames on other streams anywhere in the history *)
  Theorem per_stream_prio ls k : prio_off k ls ->
    let s := qrun size lenreq ls in
    on k (wire s) ++ pending (q s) k = concat (map (emissions size lenreq) (on k (enqueued ls))).
  Proof.
    intro Hn. destruct (per_stream_gen_prio k ls {| q := []; wire := [] |} Hn (Forall_nil _)) as [_ H]. exact H.
  Qed.
End Cfg.

(* END TO END for stream k, priority frames allowed on every other stream, and only stream k required to be written out *)
Theorem end_to_end_prio bk size lenreq ls chunks k :
  size_ok size -> prio_off k ls ->
  let s := qrun size lenreq ls in
  pending (q s) k = [] ->
  Forall (fun f => wf f = true /\ lenN (encode f) < 2 ^ 24) (wire s) ->
  concat chunks = wire_bytes (wire s) ->
  Forall2 delivered_as (on k (enqueued ls)) (on k (receive bk chunks)).
Proof.
  intros Hs Hn s Hdrained Hwf Hbytes. unfold receive.
  rewrite (feed_all_spec (decode bk) chunks), Hbytes. unfold wire_bytes.
  rewrite (valid_frames bk (wire s) Hwf). cbn [fst]. rewrite frames_of_map.
  destruct (rx_stream k (map norm (wire s)) [] [] CWF_nil CWF_nil eq_refl) as [E _]. rewrite E, on_map_norm.
  pose proof (per_stream_prio size lenreq Hs ls k Hn) as P. cbv zeta in P. fold s in P. rewrite Hdrained, app_nil_r in P. rewrite P.
  destruct (rx_frames size lenreq Hs (on k (enqueued ls))) as (Rs & HR & HF). rewrite HR. exact HF.
Qed.

Theorem end_to_end_messages_prio size lenreq ls k :
  size_ok size -> prio_off k ls ->
  let s := qrun size lenreq ls in
  pending (q s) k = [] ->
  Forall2 delivered_as (on k (enqueued ls)) (on k (snd (rx [] (map norm (wire s))))).
Proof.
  intros Hs Hn s Hdrained.
  destruct (rx_stream k (map norm (wire s)) [] [] CWF_nil CWF_nil eq_refl) as [E _]. rewrite E, on_map_norm.
  pose proof (per_stream_prio size lenreq Hs ls k Hn) as P. cbv zeta in P. fold s in P. rewrite Hdrained, app_nil_r in P. rewrite P.
  destruct (rx_frames size lenreq Hs (on k (enqueued ls))) as (Rs & HR & HF). rewrite HR. exact HF.
Qed.

(* non-vacuity: a request is queued, SETUP arrives as a priority frame, a second payload of the stream follows; stream 1 is
   written out while stream 0 is beside the point *)
Definition ex_prio : list qlabel :=
  [QEnq (FRequestResponse 1 false false [x01] (pat 1 0 150)); QSend;
   QPrio (FKeepalive 0 false true 0 []); QSend; QSend; QSend; QSend].
Example end_to_end_prio_example :
  let s := qrun (Some 64) true ex_prio in
  prio_off 1 ex_prio /\ ~ no_prio ex_prio /\ pending (q s) 1 = [] /\
  map ftype (wire s) = [FT_REQUEST_RESPONSE; FT_KEEPALIVE; FT_PAYLOAD; FT_PAYLOAD].
Proof.
  split; [repeat constructor; cbn; discriminate|]. split.
  - intro H. inversion H as [|? ? _ H1]; subst. inversion H1 as [|? ? _ H2]; subst. inversion H2 as [|? ? F _]; subst. exact F.
  - vm_compute. split; reflexivity.
Qed.
