From Coq Require Import Arith NArith List Bool Lia Init.Byte.
From RSV Require Import gen.GenConst lib.Bytes model.Frame model.Fragmenter model.StreamIds model.Endpoint
     proofs.SendQueueProofs proofs.EndpointProofs proofs.EndpointSignals.
Import ListNotations.
Open Scope N_scope.

(* objects keep their kind and stream id for ever *)
Definition same_kind (e e' : ep) : Prop :=
  forall oid o, nth_error (objs e) oid = Some o ->
    exists o', nth_error (objs e') oid = Some o' /\ o_kind o' = o_kind o /\ o_sid o' = o_sid o.

Lemma same_kind_refl e : same_kind e e.
Proof. intros oid o H. exists o. auto. Qed.

Lemma same_kind_objs e e' : objs e' = objs e -> same_kind e e'.
Proof. intros E oid o H. exists o. rewrite E. auto. Qed.

Lemma same_kind_trans a b c : same_kind a b -> same_kind b c -> same_kind a c.
Proof.
  intros H1 H2 oid o Ho. destruct (H1 oid o Ho) as (o1 & A & B & C). destruct (H2 oid o1 A) as (o2 & D & E & F).
  exists o2. repeat split; congruence.
Qed.

Lemma same_kind_finish e s : same_kind e (finish e s).
Proof. intros oid o H. exists o. auto. Qed.
Lemma same_kind_finish_table e s : same_kind e (finish_table e s).
Proof. intros oid o H. exists o. auto. Qed.

Lemma same_kind_set e j o o' : nth_error (objs e) j = Some o -> o_kind o' = o_kind o -> o_sid o' = o_sid o ->
  same_kind e (set_obj e j o').
Proof.
  intros Ho Hk Hs oid x Hx. cbn [set_obj objs]. destruct (Nat.eq_dec j oid) as [->|Hne].
  - rewrite nth_oset_same by (apply nth_error_Some; congruence). exists o'. assert (x = o) by congruence. subst x. auto.
  - rewrite nth_oset_other by exact Hne. exists x. auto.
Qed.

Lemma same_kind_chan_mark e j o s r : nth_error (objs e) j = Some o -> same_kind e (chan_mark e j o s r).
Proof.
  intro Ho. unfold chan_mark.
  assert (same_kind e (set_obj e j (upd_marks o s r))) as H by (apply (same_kind_set e j o); [exact Ho|reflexivity|reflexivity]).
  destruct (_ && _); [|exact H]. eapply same_kind_trans; [exact H|apply same_kind_finish].
Qed.

Lemma same_kind_register e sid o : same_kind e (register_obj e sid o).
Proof.
  intros oid x Hx. exists x. split; [|auto]. destruct (register_obj_spec e sid o 0) as (_ & _ & C & _).
  rewrite C; [exact Hx|]. apply nth_error_Some. congruence.
Qed.

Ltac sk Ho :=
  repeat first
    [ apply same_kind_refl
    | apply same_kind_chan_mark; exact Ho
    | (eapply same_kind_set; [exact Ho|reflexivity|reflexivity])
    | (eapply same_kind_trans; [|apply same_kind_finish]) ].

Lemma handler_frame_same_kind e j o f u : nth_error (objs e) j = Some o ->
  same_kind e (fst (fst (handler_frame e j o f u))).
Proof.
  intro Ho. unfold handler_frame.
  destruct (o_kind o); destruct f; cbn [fst]; try apply same_kind_refl;
    repeat match goal with
           | |- context [match o_fut o with _ => _ end] => destruct (o_fut o)
           | |- context [if ?b then _ else _] => destruct b
           end; cbn [fst]; sk Ho.
Qed.

Lemma open_responder_same_kind e f o : same_kind e (fst (open_responder e f o)).
Proof.
  intros oid x Hx. exists x. split; [|auto]. rewrite open_responder_old_objs; [exact Hx|]. apply nth_error_Some. congruence.
Qed.

Lemma recv_dispatch_same_kind e f o u : Inv e -> same_kind e (fst (recv_dispatch e f o u)).
Proof.
  intro I. unfold recv_dispatch.
  destruct ((fsid f =? CONNECTION_STREAM_ID) || is_request_type f).
  - destruct f; cbn [fst]; try apply same_kind_refl;
      try (destruct (tget (table e) _); cbn [fst]; [apply same_kind_refl|]);
      try (destruct (default_outcome _ o); cbn [fst]; try apply same_kind_refl);
      try (destruct (_ =? CONNECTION_STREAM_ID); cbn [fst]; try apply same_kind_refl);
      try apply open_responder_same_kind.
    all: try (destruct respond; apply same_kind_refl).
    all: try apply same_kind_refl.
  - destruct (tget (table e) (fsid f)) as [j|] eqn:Et; [|apply same_kind_refl].
    destruct (inv_WF e I _ _ Et) as (ob & Hob & _). rewrite Hob.
    pose proof (handler_frame_same_kind e j ob f u Hob) as H.
    destruct (handler_frame e j ob f u) as [[e' effs] raised]. exact H.
Qed.

Lemma recv_frame_same_kind e f o u : Inv e -> same_kind e (fst (recv_frame e f o u)).
Proof.
  intro I. unfold recv_frame. destruct (stray_fragment e f); [apply same_kind_refl|].
  destruct (is_fragmentable f); [|apply recv_dispatch_same_kind; exact I].
  pose proof (cache_append_spec (cachek e) f (inv_cwf e I)) as [Hc _].
  destruct (cache_append (cachek e) f) as [c' a]. cbn [fst] in Hc.
  set (e1 := {| sc := sc e; table := table e; objs := objs e; cachek := c' |}).
  assert (Inv e1) as I1 by (destruct I as [K O C]; constructor; assumption).
  assert (same_kind e e1) as H1 by (apply same_kind_objs; reflexivity).
  destruct a; cbn [fst]; try apply same_kind_refl; try exact H1.
  eapply same_kind_trans; [exact H1|]. apply (recv_dispatch_same_kind e1 f0 o u I1).
Qed.

Lemma close_one_same_kind e sid j : same_kind e (fst (close_one e sid j)).
Proof.
  unfold close_one. destruct (nth_error (objs e) j) as [ob|] eqn:Ho; [|apply same_kind_finish_table].
  set (r1 := if is_requester (o_kind ob) then _ else _).
  assert (same_kind e (fst r1)) as H1.
  { unfold r1. destruct (is_requester (o_kind ob)); [|apply same_kind_refl].
    pose proof (handler_frame_same_kind e j ob (f_error sid EC_CONNECTION_ERROR []) true Ho) as H.
    destruct (handler_frame e j ob _ true) as [[e' effs] r]. exact H. }
  destruct r1 as [e1 eff1]. cbn [fst] in H1.
  destruct (nth_error (objs e1) j) as [x|] eqn:Hx.
  - assert (forall e0, same_kind e e0 -> same_kind e (finish_table e0 sid)) as Hft
      by (intros e0 H0; eapply same_kind_trans; [exact H0|apply same_kind_finish_table]).
    destruct (o_kind x); cbn [fst]; try (apply Hft; exact H1).
    destruct (o_fut x); cbn [fst]; try (apply Hft; exact H1).
    apply Hft. eapply same_kind_trans; [exact H1|].
    apply (same_kind_set e1 j x); [exact Hx|reflexivity|reflexivity].
  - destruct (H1 j ob Ho) as (o' & A & _). congruence.
Qed.

Lemma close_all_same_kind : forall entries e, same_kind e (fst (close_all e entries)).
Proof.
  induction entries as [|[sid j] r IH]; intro e; [apply same_kind_refl|]. cbn [close_all].
  pose proof (close_one_same_kind e sid j) as H1. destruct (close_one e sid j) as [e1 x1]. cbn [fst] in H1.
  specialize (IH e1). destruct (close_all e1 r) as [e2 x2]. cbn [fst] in *. eapply same_kind_trans; eassumption.
Qed.

Theorem step_same_kind u e l : Inv e -> same_kind e (fst (ep_step u e l)).
Proof.
  intro I. destruct l; cbn [ep_step];
    try (unfold alloc; destruct (allocate (sc e)) as [[sid|] s']; cbn [fst];
         [try (eapply same_kind_trans; [apply (same_kind_objs e {| sc := s'; table := table e; objs := objs e; cachek := cachek e |}); reflexivity|];
               apply same_kind_register)
         |apply same_kind_objs; reflexivity]);
    try (unfold with_obj; destruct (nth_error (objs e) oid) as [ob|] eqn:Ho; [|apply same_kind_refl]);
    try apply same_kind_refl.
  - destruct positive; cbn [fst]; sk Ho.
  - destruct (o_kind ob); cbn [fst]; try apply same_kind_refl; [sk Ho|].
    set (o1 := upd_sub ob (o_has_pub ob) has_sub).
    assert (same_kind e (set_obj e oid o1)) as H1 by (apply (same_kind_set e oid ob); [exact Ho|reflexivity|reflexivity]).
    assert (nth_error (objs (set_obj e oid o1)) oid = Some o1) as Hn
      by (cbn; apply nth_oset_same; apply nth_error_Some; congruence).
    assert (forall s r, nth_error (objs (chan_mark (set_obj e oid o1) oid o1 s r)) oid = Some (upd_marks o1 s r)) as Hn2
      by (intros; apply chan_mark_nth; cbn; rewrite oset_length; apply nth_error_Some; congruence).
    destruct has_sub, (o_has_pub ob); cbn [fst]; try exact H1;
      repeat (eapply same_kind_trans; [|apply same_kind_chan_mark; first [exact Hn | apply Hn2]]); exact H1.
  - apply same_kind_objs. reflexivity.
  - destruct (o_kind ob); cbn [fst]; sk Ho.
  - destruct (o_fut ob); cbn [fst]; sk Ho.
  - destruct (o_kind ob), (o_fut ob); cbn [fst]; sk Ho.
  - destruct (o_kind ob); cbn [fst]; try apply same_kind_refl; destruct complete; cbn [fst]; sk Ho.
  - destruct (o_kind ob); cbn [fst]; sk Ho.
  - destruct (o_kind ob); cbn [fst]; sk Ho.
  - destruct (o_kind ob); cbn [fst]; try apply same_kind_refl.
    + destruct (o_fut ob); cbn [fst]; try apply same_kind_refl. destruct (o_responded ob); cbn [fst]; sk Ho.
    + destruct r; cbn [fst]; sk Ho.
  - apply recv_frame_same_kind. exact I.
  - apply close_all_same_kind.
Qed.

