(* C08: what the endpoint puts on the wire (XEnq effects of model/Endpoint.v). *)
From Coq Require Import Arith NArith List Bool Lia Init.Byte.
From RSV Require Import gen.GenConst lib.Bytes model.Frame model.Fragmenter model.StreamIds model.Endpoint
     proofs.SendQueueProofs proofs.EndpointProofs.
Import ListNotations.
Open Scope N_scope.

Definition enqs (effs : list effect) : list frame :=
  flat_map (fun x => match x with XEnq f => [f] | _ => [] end) effs.

Lemma enqs_app a b : enqs (a ++ b) = enqs a ++ enqs b.
Proof. unfold enqs. apply flat_map_app. Qed.

(* ---------- the close sweep sends nothing ---------- *)
Lemma handler_frame_error_no_enq e oid o sid code d u :
  enqs (snd (fst (handler_frame e oid o (f_error sid code d) u))) = [].
Proof.
  unfold handler_frame, f_error.
  destruct (o_kind o); cbn [fst snd enqs flat_map]; try reflexivity;
    repeat match goal with
           | |- context [match o_fut o with _ => _ end] => destruct (o_fut o)
           | |- context [if ?b then _ else _] => destruct b
           end; reflexivity.
Qed.

Lemma close_one_no_enq e sid oid : enqs (snd (close_one e sid oid)) = [].
Proof.
  unfold close_one. destruct (nth_error (objs e) oid) as [ob|]; [|reflexivity].
  set (r1 := if is_requester (o_kind ob) then _ else _).
  assert (enqs (snd r1) = []) as H1.
  { unfold r1. destruct (is_requester (o_kind ob)); [|reflexivity].
    pose proof (handler_frame_error_no_enq e oid ob sid EC_CONNECTION_ERROR [] true) as H.
    destruct (handler_frame e oid ob _ true) as [[e' effs] r]. exact H. }
  destruct r1 as [e1 eff1]. cbn [snd] in H1.
  destruct (o_kind (match nth_error (objs e1) oid with Some x => x | None => ob end));
    try destruct (o_fut _); try destruct (o_has_pub _); cbn [snd]; rewrite enqs_app, H1; reflexivity.
Qed.

Theorem close_sends_nothing u e : enqs (snd (ep_step u e LClose)) = [].
Proof.
  cbn [ep_step]. generalize (rev (table e)). intro entries. revert e.
  induction entries as [|[sid oid] r IH]; intro e; cbn [close_all]; [reflexivity|].
  pose proof (close_one_no_enq e sid oid) as H1. destruct (close_one e sid oid) as [e1 x1].
  specialize (IH e1). destruct (close_all e1 r) as [e2 x2]. cbn [snd] in *. rewrite enqs_app, H1, IH. reflexivity.
Qed.

(* ---------- what is sent in reaction to a received frame ---------- *)
(* an ERROR on the frame's own stream, the KEEPALIVE answer on stream 0, or the empty COMPLETE with which a responder
   that has no publisher closes its direction of a channel *)
Definition reaction_ok (f g : frame) : Prop :=
  fsid g = fsid f /\
  match g with
  | FError _ _ _ _ => True
  | FKeepalive s _ respond _ _ => s = CONNECTION_STREAM_ID /\ respond = false
  | FPayload _ _ fo co nx md d => fo = false /\ co = true /\ nx = false /\ md = [] /\ d = []
  | _ => False
  end.

Lemma handler_frame_enqs e oid o f u : enqs (snd (fst (handler_frame e oid o f u))) = [].
Proof.
  unfold handler_frame.
  destruct (o_kind o); destruct f; cbn [fst snd enqs flat_map]; try reflexivity;
    repeat match goal with
           | |- context [match o_fut o with _ => _ end] => destruct (o_fut o)
           | |- context [if ?b then _ else _] => destruct b
           end; reflexivity.
Qed.

Lemma open_responder_enqs e f o : Forall (reaction_ok f) (enqs (snd (open_responder e f o))).
Proof.
  unfold open_responder. destruct f; destruct o; cbn [snd enqs flat_map app]; try constructor.
  destruct has_sub, has_pub, complete; cbn [snd enqs flat_map app fst]; repeat constructor.
Qed.

Lemma recv_dispatch_enqs e f o u : Forall (reaction_ok f) (enqs (snd (recv_dispatch e f o u))).
Proof.
  unfold recv_dispatch, raised_error, f_error.
  destruct ((fsid f =? CONNECTION_STREAM_ID) || is_request_type f) eqn:Ec.
  - destruct f; cbn [snd enqs flat_map app fsid] in *; try constructor.
    + (* KEEPALIVE *) destruct respond; cbn [enqs flat_map app]; repeat constructor.
      change (is_request_type (FKeepalive sid ign true pos d)) with false in Ec. rewrite orb_false_r in Ec.
      apply N.eqb_eq in Ec. exact Ec.
    + destruct (tget (table e) sid); cbn [snd enqs flat_map app]; [repeat constructor|].
      destruct (default_outcome _ o); cbn [snd enqs flat_map app]; try (repeat constructor);
        destruct (sid =? CONNECTION_STREAM_ID); cbn [snd enqs flat_map app]; try (repeat constructor); apply open_responder_enqs.
    + (* FNF *) destruct (tget (table e) sid); cbn [snd enqs flat_map app]; [repeat constructor|].
      destruct (default_outcome _ o); cbn [snd enqs flat_map app]; repeat constructor.
    + destruct (tget (table e) sid); cbn [snd enqs flat_map app]; [repeat constructor|].
      destruct (default_outcome _ o); cbn [snd enqs flat_map app]; try (repeat constructor);
        destruct (sid =? CONNECTION_STREAM_ID); cbn [snd enqs flat_map app]; try (repeat constructor); apply open_responder_enqs.
    + destruct (tget (table e) sid); cbn [snd enqs flat_map app]; [repeat constructor|].
      destruct (default_outcome _ o); cbn [snd enqs flat_map app]; try (repeat constructor);
        destruct (sid =? CONNECTION_STREAM_ID); cbn [snd enqs flat_map app]; try (repeat constructor); apply open_responder_enqs.
    + (* ERROR on stream 0 *) destruct (default_outcome _ o); cbn [enqs flat_map app]; repeat constructor.
    + (* METADATA_PUSH *) destruct (default_outcome _ o); cbn [enqs flat_map app]; repeat constructor.
    + (* RESUME *) repeat constructor.
    + constructor.
  - destruct (tget (table e) (fsid f)) as [j|]; [|constructor].
    destruct (nth_error (objs e) j) as [ob|]; [|constructor].
    pose proof (handler_frame_enqs e j ob f u) as H. destruct (handler_frame e j ob f u) as [[e' effs] raised].
    cbn [fst snd] in *. rewrite enqs_app, H. destruct raised; cbn [enqs flat_map app]; repeat constructor.
Qed.

Lemma reaction_ok_sid f f' g : fsid f' = fsid f -> reaction_ok f' g -> reaction_ok f g.
Proof. intros E [A B]. split; [congruence|exact B]. Qed.

Theorem recv_reaction u e f o : Inv e -> Forall (reaction_ok f) (enqs (snd (ep_step u e (LRecv f o)))).
Proof.
  intro I. cbn [ep_step]. unfold recv_frame. destruct (stray_fragment e f); [constructor|].
  destruct (is_fragmentable f); [|apply recv_dispatch_enqs].
  pose proof (cache_append_spec (cachek e) f (inv_cwf e I)) as [_ Hs].
  destruct (cache_append (cachek e) f) as [c' a]. cbn [snd] in Hs.
  destruct a; cbn [snd enqs flat_map app]; try constructor.
  - eapply Forall_impl; [|apply recv_dispatch_enqs]. intros g Hg. apply (reaction_ok_sid f f0 g Hs Hg).
  - split; [reflexivity|exact I0] || (split; [reflexivity|exact Logic.I]).
  - constructor.
Qed.

(* ---------- what local actions send ---------- *)
(* everything an application call, a done-callback or a publisher signal on object oid queues is on that object's stream *)
Definition on_own_stream (e : ep) (oid : nat) (effs : list effect) : Prop :=
  match nth_error (objs e) oid with
  | Some o => Forall (fun g => fsid g = o_sid o) (enqs effs)
  | None => effs = []
  end.

Definition label_oid (l : label) : option nat :=
  match l with
  | LInitialN oid _ _ | LSubscribe oid _ _ _ | LRequestN oid _ | LCancel oid | LFutCancel oid | LAppResolve oid _
  | LPubNext oid _ _ _ | LPubComplete oid | LPubError oid | LFutCb oid _ => Some oid
  | _ => None
  end.

Theorem local_action_own_stream u e l oid : label_oid l = Some oid -> on_own_stream e oid (snd (ep_step u e l)).
Proof.
  intro Hl. unfold on_own_stream. destruct l; try discriminate Hl; injection Hl as ->; cbn [ep_step]; unfold with_obj;
    destruct (nth_error (objs e) oid) as [ob|]; try reflexivity.
  - destruct positive; constructor.
  - destruct (o_kind ob); cbn [snd enqs flat_map app]; repeat constructor.
    destruct has_sub, (o_has_pub ob); cbn [snd enqs flat_map app]; repeat constructor.
  - repeat constructor.
  - destruct (o_kind ob); cbn [snd enqs flat_map app]; repeat constructor.
  - destruct (o_fut ob); constructor.
  - destruct (o_kind ob), (o_fut ob); constructor.
  - destruct (o_kind ob); cbn [snd enqs flat_map app]; repeat constructor.
  - destruct (o_kind ob); cbn [snd enqs flat_map app]; repeat constructor.
  - destruct (o_kind ob); cbn [snd enqs flat_map app]; repeat constructor.
  - destruct (o_kind ob); cbn [snd enqs flat_map app]; try constructor.
    + destruct (o_fut ob); try constructor. destruct (o_responded ob); repeat constructor.
    + destruct r; repeat constructor.
Qed.

(* a request-response requester never answers a frame: whatever reaches it (response, error, anything else, with the
   awaitable pending, resolved or cancelled) it queues nothing; the only thing it ever sends after the request is the one
   CANCEL of the done-callback (C09_response_cancel) *)
Theorem rr_requester_queues_nothing e oid o f u : o_kind o = KRRReq ->
  enqs (snd (fst (handler_frame e oid o f u))) = [] /\
  (snd (handler_frame e oid o f u) = true -> exists s i c d, f = FError s i c d /\ u = false /\ o_fut o = FPending).
Proof.
  intro Hk. split; [apply handler_frame_enqs|]. unfold handler_frame. rewrite Hk.
  destruct f; try discriminate; cbn [snd].
  - destruct (o_fut o); discriminate.
  - destruct (o_fut o) eqn:Ef; try discriminate. destruct u; [discriminate|]. intros _. exists sid, ign, code, d. auto.
Qed.

(* stream and channel requests carry the object's initial request-n, which initial_request_n changes only to a positive
   value (a non-positive one raises and nothing is sent for the stream) *)
Theorem initial_n_positive_only u e oid n : 
  snd (ep_step u e (LInitialN oid n false)) = (match nth_error (objs e) oid with Some _ => [XRaised] | None => [] end) /\
  objs (fst (ep_step u e (LInitialN oid n false))) = objs e.
Proof.
  cbn [ep_step]. unfold with_obj. destruct (nth_error (objs e) oid); split; reflexivity.
Qed.

Theorem request_frames_carry_object_n u e oid hs md d o : nth_error (objs e) oid = Some o ->
  forall g, In g (enqs (snd (ep_step u e (LSubscribe oid hs md d)))) ->
  match g with
  | FRequestStream s _ fo n _ _ => s = o_sid o /\ fo = false /\ n = o_n o
  | FRequestChannel s _ fo co n _ _ => s = o_sid o /\ fo = false /\ n = o_n o /\ co = negb (o_has_pub o)
  | _ => False
  end.
Proof.
  intros Ho g. cbn [ep_step]. unfold with_obj. rewrite Ho.
  destruct (o_kind o); try destruct hs; try destruct (o_has_pub o) eqn:Ep; cbn [snd enqs flat_map app In];
    intro Hin; try contradiction; destruct Hin as [<-|Hin]; try contradiction; auto.
Qed.

(* new objects get the default MAX_REQUEST_N > 0 *)
Theorem default_initial_n_positive k sid : 0 < o_n (mk_obj k sid).
Proof. reflexivity. Qed.

(* F16 on the wire: after its own CANCEL a requester channel still queues its publisher's elements *)
Lemma channel_payload_after_cancel :
  enqs (snd (ep_step true (fst (ep_step true f16_ep (LCancel 0))) (LPubNext 0 [] [x09] false)))
  = [FPayload 1 false false false true [] [x09]].
Proof. vm_compute. reflexivity. Qed.
